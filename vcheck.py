#!/usr/bin/env python3
"""Driver for the runtime-monitoring checks of /verif (see DESIGN.md sections 3 and 4).

  vcheck.py <ID> [--tier quick|thorough] [--seed N] [--replay FILE] [--scale PCT] [--jobs N]
  vcheck.py --setup            build every library variant once (warms the content-addressed cache)
  vcheck.py --all [--tier ..]  run every check in sequence (convenience)

Exit 0: property held on everything explored (KNOWN-FINDING lines possible)
Exit 1: violation(s) not listed in known_findings.json (VIOLATION lines printed)
Exit 2: harness / infrastructure failure or too little observed: inconclusive
"""
import sys, os, json, hashlib, subprocess, time, glob, re, shutil, struct, fnmatch, fcntl, signal, importlib

VERIF = os.path.dirname(os.path.abspath(__file__))
REPO = os.environ.get('VERIF_REPO', '/repo')
CACHE = os.path.join(VERIF, '.cache')
NCPU = min(16, os.cpu_count() or 4)
GUARD = 'CPPUTEST_VERIF_HOOKS'

sys.path.insert(0, VERIF)
from props import PROPS   # per-property configuration

BASE_FLAGS = ['-std=gnu++17', '-O1', '-g', '-fno-omit-frame-pointer', '-DHAVE_CONFIG_H', '-D' + GUARD,
              '-I' + os.path.join(REPO, 'include'), '-I' + os.path.join(VERIF, 'cfg'), '-w']
ASAN = ['-fsanitize=address,undefined', '-fno-sanitize-recover=all', '-fsanitize-recover=signed-integer-overflow']
VARIANTS = {
    'asan':         ASAN,
    'asan-noexc':   ASAN + ['-fno-exceptions', '-DVF_NOEXC'],
    'asan-noguard': ASAN + ['-DCPPUTEST_DISABLE_MEM_CORRUPTION_CHECK', '-DVF_NOGUARD'],
    'tsan':         ['-fsanitize=thread', '-DVF_TSAN'],
    'tsan-noexc':   ['-fsanitize=thread', '-DVF_TSAN', '-fno-exceptions', '-DVF_NOEXC'],
    'plain':        [],
    'memcheck':     ['-DVF_MEMCHECK', '-fno-sized-deallocation'],                      # uninstrumented build run under valgrind memcheck (uninitialised-value use,
                                                            # which the red-zone sanitizers cannot see); sampled by stride, see run_variant
    'cov':          ['-O0', '--coverage', '-DVF_COV'],      # tools/anchor_coverage.py only (never a verdict)
}
ASAN_OPTS = 'detect_leaks=0:allocator_may_return_null=1:alloc_dealloc_mismatch=0:exitcode=86:abort_on_error=0:detect_stack_use_after_return=0:max_allocation_size_mb=4096'
ASAN_NOSIG = ':handle_segv=0:handle_abort=0:handle_sigbus=0:handle_sigill=0:handle_sigfpe=0'
UBSAN_OPTS = 'print_stacktrace=1:halt_on_error=0'
MEMCHECK = ['valgrind', '--tool=memcheck', '-q', '--vgdb=no', '--error-exitcode=87', '--exit-on-first-error=yes', '--leak-check=no', '--soname-synonyms=somalloc=nouserintercepts',
            '--undef-value-errors=yes', '--show-mismatched-frees=no', '--track-origins=no', '--num-callers=12', '--child-silent-after-fork=no',
            '--suppressions=' + os.path.join(VERIF, 'cfg', 'memcheck.supp')]
MEMCHECK_DEFAULT_STRIDE = {'quick': 400, 'thorough': 150}


def log(*a):
    print(*a, file=sys.stderr, flush=True)


def sh(cmd, **kw):
    return subprocess.run(cmd, stdout=subprocess.PIPE, stderr=subprocess.STDOUT, text=True, **kw)


# ------------------------------------------------------------------ building
def lib_sources():
    src = sorted(glob.glob(os.path.join(REPO, 'src/CppUTest/*.cpp')))
    ext = [f for f in sorted(glob.glob(os.path.join(REPO, 'src/CppUTestExt/*.cpp')))
           if os.path.basename(f) not in ('GTest.cpp', 'IEEE754ExceptionsPlugin.cpp')]
    return src + ext + [os.path.join(REPO, 'src/Platforms/Gcc/UtestPlatform.cpp')]


def tree_hash():
    h = hashlib.sha256()
    files = lib_sources()
    for root, _, fs in os.walk(os.path.join(REPO, 'include')):
        files += [os.path.join(root, f) for f in fs]
    files += glob.glob(os.path.join(VERIF, 'cfg/generated/*.h'))
    for f in sorted(files):
        h.update(f.encode()); h.update(b'\0')
        with open(f, 'rb') as fh:
            h.update(fh.read())
        h.update(b'\0')
    return h.hexdigest()


class Lock:
    def __init__(self, path):
        self.path = path
    def __enter__(self):
        os.makedirs(os.path.dirname(self.path), exist_ok=True)
        self.f = open(self.path, 'w')
        fcntl.flock(self.f, fcntl.LOCK_EX)
    def __exit__(self, *a):
        fcntl.flock(self.f, fcntl.LOCK_UN); self.f.close()


def prune_cache(keep):
    """keep the newest `keep` tree directories (disk is limited)"""
    try:
        ds = [os.path.join(CACHE, d) for d in os.listdir(CACHE) if d.startswith('t-')]
    except FileNotFoundError:
        return
    ds.sort(key=lambda d: os.path.getmtime(d), reverse=True)
    for d in ds[keep:]:
        if time.time() - os.path.getmtime(d) > 2 * 3600:    # never remove a tree another check may still be using
            shutil.rmtree(d, ignore_errors=True)


def build_lib(variant, th=None):
    th = th or tree_hash()
    flags = BASE_FLAGS + VARIANTS[variant]
    fk = hashlib.sha256(' '.join(flags).encode()).hexdigest()[:10]
    tdir = os.path.join(CACHE, 't-' + th[:20])
    d = os.path.join(tdir, 'lib-%s-%s' % (variant, fk))
    lib = os.path.join(d, 'libcpputest.a')
    if os.path.exists(lib):
        try:
            os.utime(tdir)
        except OSError:
            pass
        return lib, flags
    with Lock(os.path.join(CACHE, 'lock-%s-%s' % (th[:20], variant))):
        if os.path.exists(lib):
            os.utime(tdir)
            return lib, flags
        t0 = time.time()
        os.makedirs(d, exist_ok=True)
        jobs = []
        for s in lib_sources():
            o = os.path.join(d, os.path.basename(os.path.dirname(s)) + '_' + os.path.basename(s)[:-4] + '.o')
            jobs.append((s, o))
        procs = []
        fails = []
        pending = list(jobs)
        while pending or procs:
            while pending and len(procs) < NCPU:
                s, o = pending.pop()
                procs.append((subprocess.Popen(['g++'] + flags + ['-c', s, '-o', o], stdout=subprocess.PIPE, stderr=subprocess.STDOUT, text=True), s))
            p, s = procs.pop(0)
            out, _ = p.communicate()
            if p.returncode != 0:
                fails.append((s, out))
        if fails:
            for s, out in fails:
                log('BUILD FAILED', s); log(out[-3000:])
            shutil.rmtree(d, ignore_errors=True)
            raise SystemExit(2)
        tmp = lib + '.tmp'
        r = sh(['ar', 'rcs', tmp] + [o for _, o in jobs])
        if r.returncode != 0:
            log(r.stdout); raise SystemExit(2)
        os.rename(tmp, lib)
        log('[build] lib %s in %.1fs' % (variant, time.time() - t0))
        prune_cache(4)
    return lib, flags


def file_hash(paths):
    h = hashlib.sha256()
    for p in sorted(paths):
        with open(p, 'rb') as fh:
            h.update(fh.read())
    return h.hexdigest()


def build_harness(pid, variant):
    cfg = PROPS[pid]
    th = tree_hash()
    lib, flags = build_lib(variant, th)
    src = os.path.join(VERIF, 'harness', cfg['harness'])
    deps = [src] + glob.glob(os.path.join(VERIF, 'vlib/*.h'))
    extra = cfg.get('cxxflags', [])
    hk = hashlib.sha256((file_hash(deps) + ' '.join(flags + extra)).encode()).hexdigest()[:12]
    d = os.path.dirname(lib)
    exe = os.path.join(d, '%s-%s' % (pid, hk))
    if os.path.exists(exe):
        return exe
    with Lock(os.path.join(CACHE, 'lock-h-%s-%s-%s' % (th[:20], pid, variant))):
        if os.path.exists(exe):
            return exe
        t0 = time.time()
        for old in glob.glob(os.path.join(d, pid + '-*')):
            os.unlink(old)
        cmd = ['g++'] + flags + ['-I' + os.path.join(VERIF, 'vlib'), '-DVF_VARIANT="%s"' % variant] + extra + [src, lib, '-o', exe + '.tmp', '-pthread', '-ldl'] + cfg.get('ldflags', [])
        r = sh(cmd)
        if r.returncode != 0:
            log('HARNESS BUILD FAILED', ' '.join(cmd)); log(r.stdout[-6000:])
            raise SystemExit(2)
        os.rename(exe + '.tmp', exe)
        log('[build] harness %s/%s in %.1fs' % (pid, variant, time.time() - t0))
    return exe


# ------------------------------------------------------------------ running
def san_env(variant, cfg, workdir, tag):
    env = dict(os.environ)
    if variant.startswith('asan'):
        env['ASAN_OPTIONS'] = ASAN_OPTS + (ASAN_NOSIG if cfg.get('nosig') else '')
        env['UBSAN_OPTIONS'] = UBSAN_OPTS
    if variant.startswith('tsan'):
        supp = os.path.join(VERIF, 'cfg', 'tsan.supp')
        env['TSAN_OPTIONS'] = 'halt_on_error=0:exitcode=0:report_signal_unsafe=0:history_size=4:second_deadlock_stack=1:suppressions=%s:log_path=%s' % (supp, os.path.join(workdir, 'tsan-' + tag))
    env.update(cfg.get('env', {}))
    return env


ASAN_SUM = re.compile(r'SUMMARY: (\w+Sanitizer): (\S+)(?: (\S+))?(?: in (.+))?')
UBSAN_RT = re.compile(r'([^\s:]+):(\d+):(\d+): runtime error: (.*)')


def crash_key(stderr_text, rc):
    """stable key for a dead harness process"""
    ub = None
    for line in stderr_text.splitlines():
        m = UBSAN_RT.search(line)
        if m and 'signed integer overflow' not in m.group(4):
            ub = 'ubsan:%s:%s' % (os.path.basename(m.group(1)), re.sub(r'0x[0-9a-f]+|\d+', 'N', m.group(4))[:80])
    for line in stderr_text.splitlines():
        m = ASAN_SUM.search(line)
        if m:
            if m.group(1) == 'UndefinedBehaviorSanitizer':
                if ub:
                    return ub
                continue
            func = (m.group(4) or '?').split('(')[0].strip()
            return 'asan:%s:%s' % (m.group(2), func)
    if ub:
        return ub
    mk = memcheck_key(stderr_text)
    if mk:
        return mk
    if rc < 0:
        return 'signal:%d' % (-rc)
    return 'exit:%d' % rc


MEMCHECK_HEAD = re.compile(r'^==\d+== (Conditional jump or move depends on uninitialised value\(s\)|Use of uninitialised value of size \d+|'
                           r'Syscall param .* (?:points to|contains) uninitialised byte\(s\)|Invalid (?:read|write) of size \d+|Invalid free\(\).*|'
                           r'Mismatched free\(\).*|Source and destination overlap in \w+.*|Argument \'\w+\' of function \w+ has a fishy.*|'
                           r'Jump to the invalid address.*|Process terminating with default action of signal \d+.*)')
MEMCHECK_FRAME = re.compile(r'^==\d+==\s+(?:at|by) 0x[0-9A-F]+: (.+?) \((?:in )?([^)]*)\)')


def memcheck_key(text):
    """first memcheck error of a dead harness process: kind + innermost frame that belongs to cpputest or the harness"""
    lines = text.splitlines()
    for i, line in enumerate(lines):
        m = MEMCHECK_HEAD.match(line)
        if not m:
            continue
        kind = re.sub(r'\d+', 'N', m.group(1).split('(')[0].strip()).replace(' ', '-').lower()[:60]
        if kind.startswith('process-terminating'):
            continue
        func = '?'
        for fl in lines[i + 1:i + 14]:
            fm = MEMCHECK_FRAME.match(fl)
            if not fm:
                if not fl.strip('=0123456789 '):
                    break
                continue
            name, where = fm.group(1), fm.group(2)
            if func == '?':
                func = name
            if not (where.startswith('/usr/') or 'vgpreload' in where or where.startswith('/lib')):
                func = name
                break
        return 'memcheck:%s:%s' % (kind, func.split('(')[0].strip())
    return None


def count_soverflow(text):
    return len(re.findall(r'runtime error: signed integer overflow', text))


class Proc:
    def __init__(self, exe, args, env, workdir, tag, first, step, end, prefix=()):
        self.exe, self.args, self.env, self.workdir, self.tag = exe, args, env, workdir, tag
        self.prefix = list(prefix)
        self.first, self.step, self.end = first, step, end
        self.resumes = 0
        self.p = None
        self.start()

    def start(self):
        self.prog = os.path.join(self.workdir, 'prog-' + self.tag)
        with open(self.prog, 'wb') as f:
            f.write(struct.pack('<Q', 2**64 - 2))
        self.errpath = os.path.join(self.workdir, 'err-%s-%d' % (self.tag, self.resumes))
        self.err = open(self.errpath, 'wb')
        cmd = self.prefix + [self.exe] + self.args + ['--first', str(self.first), '--step', str(self.step), '--end', str(self.end),
                                        '--out', os.path.join(self.workdir, 'out-' + self.tag),
                                        '--sig', os.path.join(self.workdir, 'sig-' + self.tag),
                                        '--progress', self.prog]
        self.cmd = cmd
        self.p = subprocess.Popen(cmd, stdout=self.err, stderr=self.err, env=self.env, cwd=self.workdir, start_new_session=True)
        self.groups = getattr(self, 'groups', []) + [self.p.pid]
        self.t0 = time.time()
        self.last_prog = None
        self.last_change = time.time()

    def progress(self):
        try:
            with open(self.prog, 'rb') as f:
                b = f.read(8)
            return struct.unpack('<Q', b)[0] if len(b) == 8 else None
        except OSError:
            return None

    def kill(self):
        try:
            os.killpg(self.p.pid, signal.SIGKILL)
        except OSError:
            pass
        self.p.wait()


def run_variant(pid, cfg, variant, tier, seed, workdir, scale, jobs, only=None, verbose=False):
    """returns dict(records=[...], sigs=set, crashes=[...], stderr_soverflow=int, infra=[...])"""
    exe = build_harness(pid, variant)
    args = ['--seed', str(seed), '--tier', tier, '--scale', str(scale)]
    r = sh([exe] + args + ['--list'], env=san_env(variant, cfg, workdir, 'list'))
    try:
        info = json.loads(r.stdout.strip().splitlines()[-1])
    except Exception:
        log('cannot list sections of', exe, r.stdout[-2000:]); raise SystemExit(2)
    total = info['total']
    res = dict(records=[], sigs=set(), crashes=[], soverflow=0, infra=[], total=total, sections=info['sections'], tsan=[])
    if verbose:
        args.append('--verbose')
    nproc = max(1, min(jobs, cfg.get('max_procs', NCPU), total))
    if only is not None:
        ranges = [(only, 1, only + 1)]
    else:
        ranges = [(p, nproc, total) for p in range(nproc)]
    stall = cfg.get('stall_s', 300)
    prefix = []
    if variant == 'memcheck':
        # valgrind costs 20-50x: the variant runs every K-th case of the whole index space (exhaustive sections included),
        # starting at a seed-dependent offset, so different seeds sample different residues
        prefix = MEMCHECK
        K = max(1, int(cfg.get('memcheck_stride', MEMCHECK_DEFAULT_STRIDE)[tier]))
        if only is None:
            off = (seed * 7919) % K
            nproc = max(1, min(nproc, (total + K - 1) // K))
            ranges = [(off + p * K, nproc * K, total) for p in range(nproc)]
        res['stride'] = K
        stall = max(stall, 600)
    procs = [Proc(exe, args, san_env(variant, cfg, workdir, '%s-%d' % (variant, i)), workdir, '%s-%d' % (variant, i), f, s, e, prefix) for i, (f, s, e) in enumerate(ranges)]
    live = list(procs)
    while live:
        time.sleep(0.05)
        for pr in list(live):
            rc = pr.p.poll()
            now = time.time()
            if rc is None:
                g = pr.progress()
                if g != pr.last_prog:
                    pr.last_prog, pr.last_change = g, now
                    continue
                elif now - pr.last_change > stall:
                    pr.kill()
                    rc = 'stall'
                else:
                    continue
            pr.err.close()
            with open(pr.errpath, 'r', errors='replace') as f:
                et = f.read()
            res['soverflow'] += count_soverflow(et)
            if verbose:
                sys.stderr.write(et)
            if rc == 0:
                live.remove(pr)
                continue
            g = pr.progress()
            if g is None or g >= 2**64 - 2:
                # died before the first case or after the last one: infrastructure
                res['infra'].append('process %s rc=%s outside any case: %s' % (pr.tag, rc, et[-1500:]))
                live.remove(pr)
                continue
            if rc == 'stall':
                hkey = 'hang:' + section_of(info, g)
                if any(c['key'] == hkey and c.get('confirmed') for c in res['crashes']):
                    confirmed = True       # this hang has been reproduced once in this run already: do not pay for it again
                else:
                    confirmed = confirm_hang(prefix + [exe], args, pr.env, workdir, g, min(300, cfg.get('confirm_s', 90) * (3 if prefix else 1)))
                res['crashes'].append(dict(case=g, key=hkey, stderr=et[-4000:], variant=variant, stall=True, confirmed=confirmed))
            else:
                res['crashes'].append(dict(case=g, key='abort:' + crash_key(et, rc), stderr=et[-6000:], variant=variant))
            pr.resumes += 1
            nxt = g + pr.step
            # a failure that repeats on case after case is one defect: stop feeding it (hangs are expensive to confirm)
            lastkey = res['crashes'][-1]['key']
            same = sum(1 for c in res['crashes'] if c['key'] == lastkey)
            if (lastkey.startswith('hang:') and same >= 2) or same >= cfg.get('max_same_crash', 12):
                if nxt < pr.end and only is None:
                    res['abandoned'] = res.get('abandoned', 0) + 1
                live.remove(pr)
                continue
            if nxt >= pr.end or pr.resumes > cfg.get('max_resumes', 25) or only is not None:
                if nxt < pr.end and only is None:
                    res['infra'].append('process %s: more than %d deaths, range abandoned at case %d' % (pr.tag, pr.resumes - 1, g))
                live.remove(pr)
                continue
            pr.first = nxt
            pr.start()
    for pr in procs:
        # a harness that died or gave up may leave (stopped) grandchildren behind, e.g. separate-process test children of a
        # changed tree; every harness process runs in a session of its own, so its process group can be swept safely
        for g in getattr(pr, 'groups', []):
            try:
                os.killpg(g, signal.SIGKILL)
            except OSError:
                pass
    for pr in procs:
        outp = os.path.join(workdir, 'out-' + pr.tag)
        if os.path.exists(outp):
            with open(outp, 'r', errors='replace') as f:
                for line in f:
                    line = line.strip()
                    if not line:
                        continue
                    try:
                        rec = json.loads(line)
                    except Exception:
                        res['infra'].append('unparsable harness record: ' + line[:300])
                        continue
                    rec['variant'] = variant
                    res['records'].append(rec)
        sigp = os.path.join(workdir, 'sig-' + pr.tag)
        if os.path.exists(sigp):
            with open(sigp, 'rb') as f:
                b = f.read()
            res['sigs'].update(struct.unpack('<%dQ' % (len(b) // 8), b[:len(b) // 8 * 8]))
    if variant.startswith('tsan'):
        for lp in glob.glob(os.path.join(workdir, 'tsan-*')):
            with open(lp, 'r', errors='replace') as f:
                res['tsan'] += parse_tsan(f.read())
    return res


def section_of(info, g):
    base = 0
    for s in info['sections']:
        if g < base + s['cases']:
            return s['name']
        base += s['cases']
    return '?'


def confirm_hang(exe, args, env, workdir, case, limit):
    """re-run one case alone; True when it again fails to finish within `limit` seconds"""
    try:
        p = subprocess.Popen((exe if isinstance(exe, list) else [exe]) + args + ['--only', str(case), '--out', os.path.join(workdir, 'confirm-out')], stdout=subprocess.DEVNULL, stderr=subprocess.DEVNULL, env=env, cwd=workdir, start_new_session=True)
        try:
            p.wait(timeout=limit)
            return False
        except subprocess.TimeoutExpired:
            try:
                os.killpg(p.pid, signal.SIGKILL)
            except OSError:
                pass
            p.wait()
            return True
    except OSError:
        return False


def parse_tsan(text):
    """split a TSan log into report blocks -> list of dict(kind, frames=[top frames of each stack], text)"""
    out = []
    for blk in re.split(r'={18}\n', text):
        m = re.search(r'WARNING: ThreadSanitizer: ([^\(\n]+)', blk)
        if not m:
            continue
        kind = m.group(1).strip()
        tops = []
        for sm in re.finditer(r'\n\s+#0 (\S+)', blk):
            tops.append(sm.group(1))
        # first non-interceptor frames of the first two stacks
        stacks = re.split(r'\n\n', blk)
        pair = []
        for st in stacks:
            fr = re.findall(r'#\d+ (\S+) ', st)
            fr = [f for f in fr if not f.startswith('__') and f not in ('malloc', 'free', 'operator', 'memcpy', 'memset', 'strlen')]
            if fr and ('Write of' in st or 'Read of' in st or 'Previous' in st or 'Atomic' in st):
                pair.append(fr[0])
        out.append(dict(kind=kind, pair=sorted(set(pair[:2])) or sorted(set(tops[:2])), text=blk[:5000]))
    return out


# ------------------------------------------------------------------ judging
def load_known():
    p = os.path.join(VERIF, 'known_findings.json')
    if not os.path.exists(p):
        return []
    with open(p) as f:
        return json.load(f).get('findings', [])


def match_known(pid, key, known):
    for k in known:
        if k.get('status') == 'known' and k.get('property') == pid and (key == k.get('key', '') or ('*' in k.get('key', '') and fnmatch.fnmatchcase(key, k.get('key', '').replace('[', '[[]')))):
            return k
    return None


def run_check(pid, tier, seed, scale=100, jobs=NCPU, replay=None, keep=False):
    cfg = PROPS[pid]
    t0 = time.time()
    workroot = os.path.join(CACHE, 'run')
    os.makedirs(workroot, exist_ok=True)
    workdir = os.path.join(workroot, '%s-%d-%d' % (pid, os.getpid(), int(time.time() * 1000) % 100000000))
    os.makedirs(workdir)
    only = None
    only_variant = None
    if replay:
        with open(replay) as f:
            rp = json.load(f)
        tier, seed, only = rp['tier'], rp['seed'], rp['case']
        only_variant = rp.get('variant')
        scale = rp.get('scale', 100)
    variants = cfg['variants'][tier] if isinstance(cfg['variants'], dict) else cfg['variants']
    if os.environ.get('VERIF_VARIANT'):
        variants = [os.environ['VERIF_VARIANT']]
        scale = scale if scale != 100 else 99      # tooling run: never writes evidence
    if only_variant:
        variants = [only_variant]
    results = []
    try:
        for v in variants:
            results.append((v, run_variant(pid, cfg, v, tier, seed, workdir + '', scale, jobs, only=only, verbose=bool(replay))))
            if any(c.get('stall') and c.get('confirmed') for c in results[-1][1]['crashes']):
                # a reproduced hang is a violation already; every further build variant would only wait for the same watchdog again
                log('[%s] reproduced hang in variant %s: remaining build variants skipped' % (pid, v))
                break
        verdict = judge(pid, cfg, tier, seed, scale, results, t0, workdir, replay is not None)
    finally:
        if not keep:
            shutil.rmtree(workdir, ignore_errors=True)
    return verdict


def judge(pid, cfg, tier, seed, scale, results, t0, workdir, is_replay):
    known = load_known()
    violations = []   # dict(key, case, variant, detail, desc, stderr)
    infra = []
    evaluations = 0
    sigs = set()
    counters = {}
    sections = {}
    samples = []
    sample_by_section = {}
    observations = []
    soverflow = 0
    exhaustive_sections = []
    tsan_reports = []
    per_build = {}
    for v, res in results:
        per_build[v] = dict(evaluations=sum(r['evaluations'] for r in res['records'] if r.get('t') in ('end', 'part')))
        if 'stride' in res:
            per_build[v]['every_nth_case'] = res['stride']
        infra += res['infra']
        soverflow += res['soverflow']
        sigs |= res['sigs']
        for s in res['sections']:
            if s['exhaustive'] and s['name'] not in exhaustive_sections:
                exhaustive_sections.append(s['name'])
        for rec in res['records']:
            t = rec.get('t')
            if t == 'v':
                violations.append(dict(key=rec['key'], case=rec['case'], variant=v, detail=rec.get('detail', ''), desc=rec.get('desc'), section=rec.get('section')))
            elif t == 'obs':
                observations.append(rec)
            elif t in ('end', 'part'):
                evaluations += rec['evaluations']
                for k, n in rec['counters'].items():
                    counters[k] = counters.get(k, 0) + n
                for k, n in rec['sections'].items():
                    sections[k] = sections.get(k, 0) + n
                for sec, ss in rec['samples'].items():
                    sample_by_section.setdefault(sec, [])
                    for s in ss:
                        if len(sample_by_section[sec]) < 2:
                            sample_by_section[sec].append(s)
        for c in res['crashes']:
            violations.append(dict(key=c['key'], case=c['case'], variant=v, detail=c['stderr'][-3000:], desc=None, section=None, stall=c.get('stall', False), confirmed=c.get('confirmed', False)))
        for tr in res['tsan']:
            tsan_reports.append(tr)
    # TSan: every report block outside the suppression list is a violation of the race clause
    tsan_keys = {}
    for tr in tsan_reports:
        key = 'tsan:%s:%s' % (tr['kind'].replace(' ', '-'), '|'.join(tr['pair']))
        tsan_keys.setdefault(key, tr)
    for key, tr in tsan_keys.items():
        violations.append(dict(key=key, case=-1, variant='tsan', detail=tr['text'][:3000], desc=None, section='tsan'))
    counters['tsan_report_blocks'] = len(tsan_reports) if any(v.startswith('tsan') for v, _ in results) else counters.get('tsan_report_blocks', 0)
    # offline oracle
    post = cfg.get('post')
    if post:
        mod = importlib.import_module('oracle.' + post)
        pv, pc = mod.judge(observations, cfg)
        violations += pv
        for k, n in pc.items():
            counters[k] = counters.get(k, 0) + n
    for sec, ss in sample_by_section.items():
        for s in ss:
            if len(samples) < 8:
                samples.append(dict(section=sec, case=s))

    # hangs: re-run the single case once; a reproducible hang is a violation, otherwise inconclusive
    final = []
    for vi in violations:
        if vi.get('stall') and not vi.get('confirmed'):
            infra.append('watchdog: no progress at case %d (%s) but the case finished when re-run alone: inconclusive' % (vi['case'], vi['variant']))
            continue
        final.append(vi)
    violations = final

    # group by key
    bykey = {}
    for vi in violations:
        bykey.setdefault(vi['key'], []).append(vi)
    new_keys = []
    known_hit = []
    rdir = os.path.join(VERIF, 'replays', pid)
    for key, vs in sorted(bykey.items()):
        k = match_known(pid, key, known)
        if k:
            known_hit.append((k, key, len(vs)))
            continue
        os.makedirs(rdir, exist_ok=True)
        rp = os.path.join(rdir, hashlib.sha1(key.encode()).hexdigest()[:12] + '.json')
        v0 = min(vs, key=lambda x: (x['case'] if x['case'] >= 0 else 1 << 62))
        with open(rp, 'w') as f:
            json.dump(dict(property=pid, key=key, tier=tier, seed=seed, scale=scale, case=v0['case'], variant=v0['variant'], section=v0.get('section'),
                           occurrences=len(vs), detail=v0['detail'], desc=v0['desc'],
                           how='python3 vcheck.py %s --replay %s' % (pid, rp)), f, indent=1)
        new_keys.append((key, rp, len(vs)))
    printed = set()
    for k, key, n in known_hit:
        line = 'KNOWN-FINDING: property=%s %s [key=%s, %d occurrence(s) this run]' % (pid, k.get('what', ''), key, n)
        if line not in printed:
            print(line); printed.add(line)
    for key, rp, n in new_keys:
        print('VIOLATION property=%s replay=%s key=%s occurrences=%d' % (pid, rp, key, n))
    # evidence
    distinct = len(sigs)
    floor = cfg.get('floor', {}).get(tier, 2) if scale == 100 else 2
    wall = time.time() - t0
    cov = dict(evaluations=evaluations, distinct_nontrivial=distinct, rule=cfg['rule'], samples=samples,
               sections=sections, counters=counters, builds=[v for v, _ in results], per_build=per_build,
               ubsan_signed_overflow_notes=soverflow,
               exhaustive=False, exhaustive_sections=exhaustive_sections,
               violation_keys_new=[k for k, _, _ in new_keys], known_findings_seen=[key for _, key, _ in known_hit])
    ev = dict(property_id=pid, tier=tier, seed=seed, level=cfg['level'], coverage=cov,
              assumptions=cfg.get('assumptions', []), wall_s=round(wall, 2), violations=len(new_keys))
    if not is_replay and scale == 100 and os.path.realpath(REPO) == '/repo':
        os.makedirs(os.path.join(VERIF, 'evidence'), exist_ok=True)
        tmp = os.path.join(VERIF, 'evidence', pid + '.json.tmp')
        with open(tmp, 'w') as f:
            json.dump(ev, f, indent=1)
        os.rename(tmp, os.path.join(VERIF, 'evidence', pid + '.json'))
    status = 0
    if new_keys:
        status = 1
    elif infra:
        status = 2
    elif not is_replay and (distinct < floor or evaluations == 0):
        infra.append('monitors observed too little: %d distinct non-trivial cases (floor %d), %d evaluations' % (distinct, floor, evaluations))
        status = 2
    # floors on counters (e.g. hooks reached)
    if status == 0 and not is_replay and scale == 100:
        for name, minimum in cfg.get('counter_floor', {}).get(tier, {}).items():
            if counters.get(name, 0) < minimum:
                infra.append('counter %s=%d below floor %d: a monitor was not reached' % (name, counters.get(name, 0), minimum))
                status = 2
    for m in infra:
        print('INCONCLUSIVE property=%s %s' % (pid, m))
    print('%s %s tier=%s seed=%d evaluations=%d distinct_nontrivial=%d new_violation_keys=%d known=%d wall=%.1fs -> exit %d' % (
        pid, ','.join(v for v, _ in results), tier, seed, evaluations, distinct, len(new_keys), len(known_hit), wall, status))
    return status


def main():
    a = sys.argv[1:]
    if not a:
        print(__doc__); return 2
    tier = os.environ.get('VERIF_TIER', 'quick')
    seed = int(os.environ.get('VERIF_SEED', '1') or 1)
    scale = int(os.environ.get('VERIF_SCALE', '100'))
    jobs = int(os.environ.get('VERIF_JOBS', str(NCPU)))
    replay = None
    keep = False
    ids = []
    i = 0
    setup = False
    while i < len(a):
        if a[i] == '--tier': tier = a[i + 1]; i += 2
        elif a[i] == '--seed': seed = int(a[i + 1]); i += 2
        elif a[i] == '--scale': scale = int(a[i + 1]); i += 2
        elif a[i] == '--jobs': jobs = int(a[i + 1]); i += 2
        elif a[i] == '--replay': replay = a[i + 1]; i += 2
        elif a[i] == '--keep': keep = True; i += 1
        elif a[i] == '--setup': setup = True; i += 1
        elif a[i] == '--all': ids = sorted(PROPS); i += 1
        else: ids.append(a[i]); i += 1
    if tier not in ('quick', 'thorough'):
        tier = 'quick'
    if setup:
        th = tree_hash()
        need = set()
        for cfg in PROPS.values():
            vs = cfg['variants']
            for t in (vs.values() if isinstance(vs, dict) else [vs]):
                need.update(t)
        for v in sorted(need):
            build_lib(v, th)
        for pid, cfg in sorted(PROPS.items()):
            vs = cfg['variants']
            for v in (vs['quick'] if isinstance(vs, dict) else vs):
                build_harness(pid, v)
        print('setup ok'); return 0
    worst = 0
    for pid in ids:
        if pid not in PROPS:
            log('unknown property', pid); return 2
        rc = run_check(pid, tier, seed, scale, jobs, replay, keep)
        worst = max(worst, rc) if rc != 1 else 1 if worst != 1 else 1
        if rc == 1:
            worst = 1
    return worst


if __name__ == '__main__':
    # exit 1 is reserved for "a violation was observed and a VIOLATION line was printed": anything that goes wrong inside the
    # driver itself (missing tree, I/O error, a bug) must come out as 2 = inconclusive, never as Python's default exit status 1
    try:
        rc = main()
    except SystemExit as e:
        rc = e.code if isinstance(e.code, int) else 2
        if rc == 1:
            rc = 2
    except KeyboardInterrupt:
        rc = 2
    except BaseException:
        import traceback
        traceback.print_exc()
        print('INCONCLUSIVE driver error: ' + repr(sys.exc_info()[1])[:300])
        rc = 2
    sys.exit(rc)
