// Shared harness runtime for the /verif runtime-monitoring checks.
//
// A harness is a list of *sections*; every section is a pure function of
// (seed, local case index). The driver (vcheck.py) starts several harness
// processes on interleaved case ranges and collects:
//   --out FILE       JSON lines: violations, observations, final summary
//   --sig FILE       binary u64 hashes of the non-trivial case signatures
//   --progress FILE  8 bytes: global index of the case being executed
//                    (read by the driver when the process dies)
//
// IMPORTANT: include this header (and every std header) BEFORE any CppUTest
// header: TestHarness.h defines `new` as a macro.
#ifndef VERIF_H_
#define VERIF_H_

#include <cstdint>
#include <cstdio>
#include <cstdlib>
#include <cstring>
#include <cerrno>
#include <ctime>
#include <string>
#include <vector>
#include <map>
#include <set>
#include <functional>
#include <algorithm>
#include <unistd.h>
#include <fcntl.h>
#include <signal.h>
#include <sys/prctl.h>

#ifdef VF_COV
extern "C" void __gcov_dump(void);
#endif

namespace vf {

// ---------------------------------------------------------------- PRNG
struct Rng {
    uint64_t s[4];
    static uint64_t splitmix(uint64_t& x) {
        uint64_t z = (x += 0x9E3779B97F4A7C15ull);
        z = (z ^ (z >> 30)) * 0xBF58476D1CE4E5B9ull;
        z = (z ^ (z >> 27)) * 0x94D049BB133111EBull;
        return z ^ (z >> 31);
    }
    Rng(uint64_t seed, uint64_t a = 0, uint64_t b = 0) {
        uint64_t x = seed * 0x9E3779B97F4A7C15ull + a * 0xD1B54A32D192ED03ull + b * 0x8CB92BA72F3D8DD7ull + 0x1234567;
        for (int i = 0; i < 4; i++) s[i] = splitmix(x);
    }
    static uint64_t rotl(uint64_t x, int k) { return (x << k) | (x >> (64 - k)); }
    uint64_t next() {
        uint64_t r = rotl(s[1] * 5, 7) * 9, t = s[1] << 17;
        s[2] ^= s[0]; s[3] ^= s[1]; s[1] ^= s[2]; s[0] ^= s[3]; s[2] ^= t; s[3] = rotl(s[3], 45);
        return r;
    }
    uint64_t below(uint64_t n) { return n ? next() % n : 0; }
    int range(int lo, int hi) { return lo + (int) below((uint64_t) (hi - lo + 1)); }   // inclusive
    bool chance(int pct) { return (int) below(100) < pct; }
    template <class T> const T& pick(const std::vector<T>& v) { return v[below(v.size())]; }
    template <class T, size_t N> const T& pick(const T (&v)[N]) { return v[below(N)]; }
};

// ---------------------------------------------------------------- JSON helpers
inline std::string jstr(const std::string& s) {
    std::string o = "\"";
    char b[8];
    for (unsigned char c : s) {
        if (c == '"') o += "\\\"";
        else if (c == '\\') o += "\\\\";
        else if (c == '\n') o += "\\n";
        else if (c == '\r') o += "\\r";
        else if (c == '\t') o += "\\t";
        else if (c < 0x20 || c >= 0x7f) { snprintf(b, sizeof b, "\\u%04x", c); o += b; }   // bytes >= 0x80 as U+00XX (latin-1 view)
        else o += (char) c;
    }
    return o + "\"";
}
inline std::string jstr(const char* s) { return s ? jstr(std::string(s)) : std::string("null"); }
inline std::string jnum(long long v) { return std::to_string(v); }
inline std::string junum(unsigned long long v) { return std::to_string(v); }
inline std::string hexbytes(const void* p, size_t n) {
    static const char* H = "0123456789abcdef";
    std::string o;
    const unsigned char* b = (const unsigned char*) p;
    for (size_t i = 0; i < n; i++) { o += H[b[i] >> 4]; o += H[b[i] & 15]; }
    return o;
}
// tiny builder:  J().k("a",1).k("s","x").str()
struct J {
    std::string o; bool first = true;
    J() { o = "{"; }
    J& raw(const char* key, const std::string& json) { if (!first) o += ","; first = false; o += jstr(key); o += ":"; o += json; return *this; }
    J& k(const char* key, const std::string& v) { return raw(key, jstr(v)); }
    J& k(const char* key, const char* v) { return raw(key, jstr(v)); }
    J& k(const char* key, long long v) { return raw(key, std::to_string(v)); }
    J& k(const char* key, unsigned long long v) { return raw(key, std::to_string(v)); }
    J& k(const char* key, long v) { return raw(key, std::to_string(v)); }
    J& k(const char* key, unsigned long v) { return raw(key, std::to_string(v)); }
    J& k(const char* key, int v) { return raw(key, std::to_string(v)); }
    J& k(const char* key, unsigned v) { return raw(key, std::to_string(v)); }
    J& k(const char* key, bool v) { return raw(key, v ? "true" : "false"); }
    J& k(const char* key, double v) { char b[64]; snprintf(b, sizeof b, "\"%.17g\"", v); return raw(key, b); }
    std::string str() const { return o + "}"; }
};
inline std::string jarr(const std::vector<std::string>& items) {
    std::string o = "[";
    for (size_t i = 0; i < items.size(); i++) { if (i) o += ","; o += items[i]; }
    return o + "]";
}

inline uint64_t fnv(const void* p, size_t n, uint64_t h = 0xcbf29ce484222325ull) {
    const unsigned char* b = (const unsigned char*) p;
    for (size_t i = 0; i < n; i++) { h ^= b[i]; h *= 0x100000001b3ull; }
    return h;
}
inline uint64_t fnv(const std::string& s, uint64_t h = 0xcbf29ce484222325ull) { return fnv(s.data(), s.size(), h); }

// ---------------------------------------------------------------- runtime state
struct Runtime {
    uint64_t seed = 1;
    bool thorough = false;
    bool verbose = false;
    FILE* out = nullptr;
    int progress_fd = -1;
    FILE* sig = nullptr;
    std::map<std::string, uint64_t> counters;
    std::map<std::string, uint64_t> section_cases;
    std::map<std::string, std::vector<std::string>> samples;   // per section
    std::set<uint64_t> sigs;
    std::set<uint64_t> sigs_sent;
    std::map<std::string, size_t> samples_sent;
    time_t last_flush = 0;
    uint64_t evaluations = 0;
    uint64_t violations = 0;
    int scale_pct = 100;     // VERIF_SCALE: scales section sizes (mutant triage)
};
inline Runtime& rt() { static Runtime r; return r; }

struct Ctx {
    uint64_t global_idx = 0;     // index over all sections
    uint64_t idx = 0;            // index local to the section
    const char* section = "";
    Rng rng;
    bool thorough;
    std::function<std::string()> desc;
    bool began = false;
    bool was_nontrivial = false;

    Ctx(uint64_t g, uint64_t l, const char* sec) : global_idx(g), idx(l), section(sec), rng(rt().seed, fnv(sec, strlen(sec)), l), thorough(rt().thorough) {}

    // Call after generating the case and before touching the code under test.
    void begin(std::function<std::string()> d) {
        desc = d; began = true;
        if (rt().verbose) { fprintf(stderr, "CASE %llu section=%s local=%llu %s\n", (unsigned long long) global_idx, section, (unsigned long long) idx, desc().c_str()); fflush(stderr); }
    }
    void violation(const std::string& key, const std::string& detail) {
        rt().violations++;
        std::string d = desc ? desc() : std::string("null");
        fprintf(rt().out, "{\"t\":\"v\",\"case\":%llu,\"section\":%s,\"local\":%llu,\"key\":%s,\"detail\":%s,\"desc\":%s}\n",
                (unsigned long long) global_idx, jstr(section).c_str(), (unsigned long long) idx, jstr(key).c_str(), jstr(detail).c_str(), d.c_str());
        fflush(rt().out);
        if (rt().verbose) { fprintf(stderr, "  VIOLATION key=%s detail=%s\n", key.c_str(), detail.c_str()); }
    }
    // Record that this case is non-trivial by the property's rule; sig identifies it up to "distinctness".
    void nontrivial(const std::string& signature) {
        if (was_nontrivial) return;      // one signature per case: distinct_nontrivial counts cases, never more than were evaluated
        was_nontrivial = true;
        uint64_t h = fnv(signature, fnv(section, strlen(section)));
        rt().sigs.insert(h);
        std::vector<std::string>& s = rt().samples[section];
        if (s.size() < 2 && desc) s.push_back(desc());
    }
    void count(const std::string& name, uint64_t n = 1) { rt().counters[name] += n; }
    // free-form observation for an offline (python) oracle
    void observe(const std::string& json) {
        fprintf(rt().out, "{\"t\":\"obs\",\"case\":%llu,\"section\":%s,\"local\":%llu,\"obs\":%s}\n",
                (unsigned long long) global_idx, jstr(section).c_str(), (unsigned long long) idx, json.c_str());
    }
};

struct Section {
    const char* name;
    uint64_t quick;        // number of cases in the quick tier
    uint64_t thorough;     // number of cases in the thorough tier
    void (*fn)(Ctx&);
    bool exhaustive;       // the section enumerates a finite domain completely (never scaled)
};

inline uint64_t section_size(const Section& s) {
    uint64_t n = rt().thorough ? s.thorough : s.quick;
    if (!s.exhaustive && rt().scale_pct != 100) { n = n * (uint64_t) rt().scale_pct / 100; if (n == 0) n = 1; }
    return n;
}

inline void write_progress(uint64_t g) {
    if (rt().progress_fd >= 0) { ssize_t r = pwrite(rt().progress_fd, &g, 8, 0); (void) r; }
}

// Writes the counters accumulated since the previous flush as one record and clears them; the
// driver sums all "part"/"end" records, so what ran before a sanitizer abort is still counted.
inline void flush_part(const char* type, const char* sigp) {
    Runtime& r = rt();
    std::string cs = "{"; bool f = true;
    for (auto& kv : r.counters) { if (!f) cs += ","; f = false; cs += jstr(kv.first) + ":" + std::to_string(kv.second); }
    cs += "}";
    std::string ss = "{"; f = true;
    for (auto& kv : r.section_cases) { if (!f) ss += ","; f = false; ss += jstr(kv.first) + ":" + std::to_string(kv.second); }
    ss += "}";
    std::string sm = "{"; f = true;
    for (auto& kv : r.samples) { if (kv.second.size() <= r.samples_sent[kv.first]) continue; if (!f) sm += ","; f = false;
        std::vector<std::string> fresh(kv.second.begin() + (long) r.samples_sent[kv.first], kv.second.end()); r.samples_sent[kv.first] = kv.second.size(); sm += jstr(kv.first) + ":" + jarr(fresh); }
    sm += "}";
    fprintf(r.out, "{\"t\":\"%s\",\"evaluations\":%llu,\"violations\":%llu,\"nontrivial\":%llu,\"counters\":%s,\"sections\":%s,\"samples\":%s}\n",
            type, (unsigned long long) r.evaluations, (unsigned long long) r.violations, (unsigned long long) r.sigs.size(), cs.c_str(), ss.c_str(), sm.c_str());
    fflush(r.out);
    if (sigp) {
        FILE* sf = fopen(sigp, "ab");
        if (sf) { for (uint64_t h : r.sigs) if (!r.sigs_sent.count(h)) { fwrite(&h, 8, 1, sf); r.sigs_sent.insert(h); } fclose(sf); }
    }
    r.evaluations = 0; r.violations = 0; r.counters.clear(); r.section_cases.clear();
    r.last_flush = time(nullptr);
}

// usage: harness --seed S --tier quick|thorough --first F --step P [--end E] --out f --sig f --progress f [--verbose] [--only G]
inline int harness_main(int argc, char** argv, const std::vector<Section>& sections, void (*init)() = nullptr) {
    Runtime& r = rt();
    // never outlive the driver (a killed vcheck.py must not leave spinning harness processes behind)
    prctl(PR_SET_PDEATHSIG, SIGKILL);
    if (getppid() == 1) _exit(2);
    uint64_t first = 0, step = 1, end = UINT64_MAX;
    long long only = -1;
    const char* outp = nullptr; const char* sigp = nullptr; const char* progp = nullptr;
    bool list = false;
    for (int i = 1; i < argc; i++) {
        std::string a = argv[i];
        auto val = [&]() -> const char* { if (i + 1 >= argc) { fprintf(stderr, "missing value for %s\n", a.c_str()); _exit(2); } return argv[++i]; };
        if (a == "--seed") r.seed = strtoull(val(), nullptr, 10);
        else if (a == "--tier") r.thorough = std::string(val()) == "thorough";
        else if (a == "--first") first = strtoull(val(), nullptr, 10);
        else if (a == "--step") step = strtoull(val(), nullptr, 10);
        else if (a == "--end") end = strtoull(val(), nullptr, 10);
        else if (a == "--only") only = atoll(val());
        else if (a == "--out") outp = val();
        else if (a == "--sig") sigp = val();
        else if (a == "--progress") progp = val();
        else if (a == "--scale") r.scale_pct = atoi(val());
        else if (a == "--verbose") r.verbose = true;
        else if (a == "--list") list = true;
        else { fprintf(stderr, "unknown argument %s\n", a.c_str()); _exit(2); }
    }
    uint64_t total = 0;
    for (const Section& s : sections) total += section_size(s);
    if (list) {
        printf("{\"total\":%llu,\"sections\":[", (unsigned long long) total);
        bool f = true;
        for (const Section& s : sections) { printf("%s{\"name\":\"%s\",\"cases\":%llu,\"exhaustive\":%s}", f ? "" : ",", s.name, (unsigned long long) section_size(s), s.exhaustive ? "true" : "false"); f = false; }
        printf("]}\n"); fflush(stdout); _exit(0);
    }
    r.out = outp ? fopen(outp, "a") : stdout;
    if (!r.out) { perror("out"); _exit(2); }
    if (progp) r.progress_fd = open(progp, O_WRONLY | O_CREAT, 0644);
    if (only >= 0) { first = (uint64_t) only; step = 1; end = first + 1; }
    if (end > total) end = total;
    if (init) init();
    for (uint64_t g = first; g < end; g += step) {
        uint64_t base = 0; const Section* sec = nullptr;
        for (const Section& s : sections) { uint64_t n = section_size(s); if (g < base + n) { sec = &s; break; } base += n; }
        if (!sec) break;
        write_progress(g);
        Ctx c(g, g - base, sec->name);
        sec->fn(c);
        r.evaluations++;
        r.section_cases[sec->name]++;
        if (r.evaluations >= 256 || (r.evaluations >= 8 && time(nullptr) - r.last_flush >= 3)) flush_part("part", sigp);   // survive a later abort
    }
    write_progress(UINT64_MAX);
    flush_part("end", sigp);
    fflush(stdout); fflush(stderr);
#ifdef VF_COV
    __gcov_dump();        // coverage build (tools/anchor_coverage.py): _exit would lose the counters
#endif
    _exit(0);   // never run static destructors: cpputest touches destroyed allocators there (outside every property)
}

}   // namespace vf
#endif
