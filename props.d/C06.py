P = dict(
    harness='c06_misuse.cpp',
    variants=['asan', 'memcheck'],
    memcheck_stride=dict(quick=100, thorough=40),
    level='exploration',
    technique='runtime monitoring: decision-table oracle (outstanding-address model + guard snapshot) against a private MemoryLeakDetector with a recording MemoryLeakFailure, '
              'driven directly (both node layouts, allocator objects and wrapper allocators) and through the global new/delete/new[]/delete[]/cpputest_malloc/free/realloc entry points; '
              'recording allocators observe the bytes handed to free_memory (poison); the recording failure callback leaves the detector in each of four ways '
              '(returns / longjmp around the one release / throws a C++ exception caught around the one release / forwards to cpputest\'s own MemoryLeakWarningReporter while the release runs inside a TestTestingFixture test); ASan/UBSan build',
    rule='a case is a scenario (allocate / write user, guard or padding bytes / release an address through a family / toggle type checking / switch allocators) run on a fresh detector; '
         'every release is judged: category of the callback (first line of the newly appended text) against the table of the statement, at most one callback, and in global mode the '
         'user bytes seen by free_memory. Exhaustive sections: 3 guard positions x 256 values x 69 sizes x 9 modes; guard subsets x family relation x checking; allocator-object/wrapper pairs; '
         '14x14 global entry pairs; allocator switches; every interior/stale/foreign/NULL address class for sizes 0..64; every in-bounds position for sizes <= 256; padding bytes; '
         'reporter_exit: how the callback leaves (longjmp / throw / real reporter) x 9 modes (global: longjmp only) x 8^3 triples of consecutive (mis)uses on one detector '
         '(correct, NULL, foreign, stale, interior, mismatch, corruption, realloc of a foreign address) x separator (none / startChecking / stopChecking+startChecking): every release after a report that left '
         'non-locally is judged by the same table (key suffix after-report-left-by=<how>); random variants with 2..12 misuses, toggles and period operations, and the random histories draw the exit mode too. '
         'Non-trivial = scenario with a release whose expected verdict is a report, or of a block with an altered guard byte or a different releasing family; distinct by scenario fingerprint',
    floor=dict(quick=250000, thorough=1000000),
    counter_floor=dict(
        quick=dict(reports_due_after_an_earlier_report_left_nonlocally=50000, reports_that_left_by_longjmp=30000, reports_that_left_by_throws=15000, **{'reports_that_left_by_real-reporter': 15000}, scenarios_with_two_or_more_reports_that_left_nonlocally=20000, poison_checked_releases=100000, expected_corruption=100000, expected_mismatch=20000, **{'expected_non-allocated': 100000}, expected_none=100000, releases_total=900000),
        thorough=dict(reports_due_after_an_earlier_report_left_nonlocally=200000, reports_that_left_by_longjmp=100000, reports_that_left_by_throws=60000, **{'reports_that_left_by_real-reporter': 60000}, scenarios_with_two_or_more_reports_that_left_nonlocally=60000, poison_checked_releases=400000, expected_corruption=300000, expected_mismatch=100000, **{'expected_non-allocated': 300000}, expected_none=300000, releases_total=3000000),
    ),
    assumptions=[
        'the family of an allocator is its name() reached through actualAllocator() (anchors): two allocator objects with the same name are one family, wrappers belong to the family they wrap',
        'the node-layout flag of a release equals that of the allocation when the detector is called directly; through the global entry points (new: inline node, malloc: separate node) cross-family releases necessarily mix the flags and the recording allocator tolerates the resulting free of a pointer it never handed out',
        '"overwritten" is judged only at user bytes that still hold the printable fill pattern of the harness; any constant poison outside printable ASCII is accepted',
        'SimpleStringCacheAllocator is only used as a detector-side allocator with the inline layout and user sizes > 256 (it needs the allocation size back on free); MemoryLeakAllocator only with a second private detector installed as the global one',
        'realloc counts as a release of the old block for the report categories (not for the poison clause)',
        'not driven (caller obligation of DESIGN.md section 5, same node-layout flag): through the global entry points, a new/new[] block released through cpputest_free/realloc while no report is due and the current malloc allocator is cpputest\'s own default one - the detector then hands the inline bookkeeping node to free() (ASan bad-free); counted as skipped_cross_layout_release_into_default_malloc_allocator',
        'a failure callback may leave the detector non-locally (cpputest\'s own reporter always does: failWith + longjmp); the statement quantifies over histories, so a release that follows such a report is judged like any other. '
        'After a release whose report left, the block counts as released (the detector un-registers it before it reports - same as with a returning callback); after a realloc whose report left the state of the block is stated nowhere, so the scenario does not touch that block again (counted: blocks_not_touched_again_after_a_realloc_report_left)',
        'non-returning callbacks are used only with the default (not thread-safe) overloads: a report that leaves a thread-safe wrapper keeps the detector mutex locked (known finding D10, property C10); through the global entry points only longjmp is used (operator delete is noexcept); '
        'scenarios that use SimpleStringCacheAllocator as a detector allocator are not run inside a fixture test (its once-only warning prints the caller\'s non-string buffer through the current test; longjmp is used instead); '
        'what the real reporter does with the text (failing the fixture test) is only counted, not judged (real_reporter_fixture_tests_failed, real_reporter_returned_to_the_detector)',
        'outside the monitored window the harness runs with the new/delete overloads switched off, so a broken process-wide detector cannot kill the harness before it reports',
    ],
)
