P = dict(
    harness='c06_misuse.cpp',
    variants=['asan', 'memcheck'],
    memcheck_stride=dict(quick=100, thorough=40),
    level='exploration',
    technique='runtime monitoring: decision-table oracle (outstanding-address model + guard snapshot) against a private MemoryLeakDetector with a recording MemoryLeakFailure, '
              'driven directly (both node layouts, allocator objects and wrapper allocators) and through the global new/delete/new[]/delete[]/cpputest_malloc/free/realloc entry points; '
              'recording allocators observe the bytes handed to free_memory (poison); ASan/UBSan build',
    rule='a case is a scenario (allocate / write user, guard or padding bytes / release an address through a family / toggle type checking / switch allocators) run on a fresh detector; '
         'every release is judged: category of the callback (first line of the newly appended text) against the table of the statement, at most one callback, and in global mode the '
         'user bytes seen by free_memory. Exhaustive sections: 3 guard positions x 256 values x 69 sizes x 9 modes; guard subsets x family relation x checking; allocator-object/wrapper pairs; '
         '14x14 global entry pairs; allocator switches; every interior/stale/foreign/NULL address class for sizes 0..64; every in-bounds position for sizes <= 256; padding bytes. '
         'Non-trivial = scenario with a release whose expected verdict is a report, or of a block with an altered guard byte or a different releasing family; distinct by scenario fingerprint',
    floor=dict(quick=250000, thorough=1000000),
    counter_floor=dict(
        quick=dict(poison_checked_releases=100000, expected_corruption=100000, expected_mismatch=20000, **{'expected_non-allocated': 100000}, expected_none=100000, releases_total=900000),
        thorough=dict(poison_checked_releases=400000, expected_corruption=300000, expected_mismatch=100000, **{'expected_non-allocated': 300000}, expected_none=300000, releases_total=3000000),
    ),
    assumptions=[
        'the family of an allocator is its name() reached through actualAllocator() (anchors): two allocator objects with the same name are one family, wrappers belong to the family they wrap',
        'the node-layout flag of a release equals that of the allocation when the detector is called directly; through the global entry points (new: inline node, malloc: separate node) cross-family releases necessarily mix the flags and the recording allocator tolerates the resulting free of a pointer it never handed out',
        '"overwritten" is judged only at user bytes that still hold the printable fill pattern of the harness; any constant poison outside printable ASCII is accepted',
        'SimpleStringCacheAllocator is only used as a detector-side allocator with the inline layout and user sizes > 256 (it needs the allocation size back on free); MemoryLeakAllocator only with a second private detector installed as the global one',
        'realloc counts as a release of the old block for the report categories (not for the poison clause)',
        'not driven (caller obligation of DESIGN.md section 5, same node-layout flag): through the global entry points, a new/new[] block released through cpputest_free/realloc while no report is due and the current malloc allocator is cpputest\'s own default one - the detector then hands the inline bookkeeping node to free() (ASan bad-free); counted as skipped_cross_layout_release_into_default_malloc_allocator',
        'outside the monitored window the harness runs with the new/delete overloads switched off, so a broken process-wide detector cannot kill the harness before it reports',
    ],
)
