P = dict(
    harness='c12_cmdline.cpp',
    variants=['asan', 'memcheck'],
    memcheck_stride=dict(quick=100, thorough=40),
    level='exploration',
    technique='runtime monitoring: independent reference parser of the help text\'s grammar (speaks only when an argv has exactly one reading as documented options) '
              'compared with every CommandLineArguments getter and with what CommandLineTestRunner executes on a probe registry (console/file/separate-process seams captured); '
              'hostile argv (arbitrary bytes, truncations, mutations) in exact-size libc blocks under ASan/UBSan; '
              'the millisecond clock (the parser\'s only other input: default shuffle seed) is a pinned seam whose reading is part of every case; '
              'applied -vv judged differentially against the same vector one verbosity level down; '
              'multiplicity of the scalar option -o enumerated (every sequence of 1..3 -o options x kind word x attached/separated x 6 contexts): getters must report one of the given kinds '
              'and the runner must apply exactly the kind the getters report (files opened / teamcity messages / console, verbosity, package) also when different kinds are given',
    rule='cases: argument vectors. Four finite sub-domains are enumerated completely (every documented option form alone and in every ordered pair; every truncation / dropped argument of every form plus a table of malformed TEST( / group.name / number shapes; '
         'every sequence of 1..3 -o options over normal/eclipse/junit/teamcity in attached/separated form in 6 contexts; '
         'every clock-reading vector shape x the lattice of clock readings 2^k+d, m*2^32+d, 0, ULONG_MAX x constant/advancing clock); '
         'random sequences of documented options (attached/separated, identifier-like values with substring relations to the probe registry), filter-only vectors, arbitrary bytes 1..255, mutations of valid vectors. '
         'Non-trivial = a vector the reference reads as documented with >= 2 value-carrying options in mixed attached/separated form, or a vector outside the documented grammar that the parser rejects; distinct by the argv bytes',
    floor=dict(quick=20000, thorough=200000),
    counter_floor=dict(
        quick={'configurations_compared': 40000, 'selection_runs': 30000, 'real_rejected': 20000, 'list_outputs_compared': 1000, 'separate_process_runs': 1000, 'output_kind_applied_junit': 500, 'output_kind_applied_teamcity': 500,
               'very_verbose_differential_checked': 2000, 'very_verbose_differential_checked_with_v_too': 400, 'verbose_output_checked_junit_composite': 100,
               'unseeded_shuffle_vectors_clock_nonzero_multiple_of_2p32': 1000, 'unseeded_shuffle_vectors_clock_zero': 100, 'unseeded_shuffle_vectors_clock_low32_all_ones': 800,
               'output_kind_conflict_vectors': 3000, 'output_kind_applied_with_several_o_kinds': 3000},
        thorough={'configurations_compared': 300000, 'selection_runs': 200000, 'real_rejected': 100000, 'list_outputs_compared': 5000, 'separate_process_runs': 5000, 'output_kind_applied_junit': 3000, 'output_kind_applied_teamcity': 3000,
                  'very_verbose_differential_checked': 10000, 'very_verbose_differential_checked_with_v_too': 2000, 'verbose_output_checked_junit_composite': 500,
                  'unseeded_shuffle_vectors_clock_nonzero_multiple_of_2p32': 3000, 'unseeded_shuffle_vectors_clock_zero': 300, 'unseeded_shuffle_vectors_clock_low32_all_ones': 2500,
                  'output_kind_conflict_vectors': 3000, 'output_kind_applied_with_several_o_kinds': 3000},
    ),
    assumptions=[
        'filter lists are compared as multisets (the help text does not document an order; filters are OR-ed per C02)',
        'a scalar option (-r, -s, -o, -k) given several times with different values may yield any of the given values (the help text does not say which occurrence wins); which one won is counted (conflicting_scalar_*, output_kind_conflict_*)',
        'NOT judged: which of several -o options naming different kinds decides. The usage line shows -o without the "..." that marks repeatable options, the help text ("-onormal - no output to files", "-ojunit - output to JUnit ... xml files") gives each kind a meaning but no precedence, README/ChangeLog/headers say nothing; '
        '"-ojunit -onormal" writing JUnit files contradicts one help line, writing none contradicts the other. So "last one wins" (what the code does) is not demanded; a change that makes -onormal/-oeclipse a no-op after an earlier -ojunit/-oteamcity (seeded C12-r4-onormal-...) stays inside the accepted set (no per-kind floor is set on the several-kinds counters for the same reason: which kinds are reachable depends on the undocumented precedence) and only shows in the counters output_kind_conflict_parsed_<kind>_last_given_<kind> / output_kind_conflict_first_given_wins',
        'with several different -o kinds the runner is held to the kind the getters report (the runner applies the parser\'s configuration): files opened / teamcity messages / verbosity / package are judged against that kind',
        'unknown options and values outside an option\'s documented domain (-r0, -s0, -t without a dot, ...) are not required to be rejected; when they are, usage/help must be printed and nothing may run',
        'the shuffle seed is compared only when every -s carries one (otherwise it comes from the clock: which value it becomes is not documented and only counted; that the documented vector is accepted whatever the clock reads is judged)',
        'the clock is replaced through the GetPlatformSpecificTimeInMillis seam for the whole case (constant, or advancing by 1 per reading): durations in the output are 0 or tiny',
        '-vv ("print internal information during test run") is judged without fixing the wording: the console output must be strictly longer than that of the same vector with every -vv replaced by -v (same registry, same clock), also when -v is given too and for the console that accompanies -ojunit; -v alone printing more than test names is not judged',
        'separate-process mode is observed through the PlatformSpecificRunTestInASeperateProcess seam (no fork); -f is parsed, never combined with a failing test',
        'runs with a parsed repeat count > 8 are not executed (parser getters only)',
        'signed-integer-overflow in AtoI on unrepresentable numbers is counted, not fatal (DESIGN.md section 5)',
    ],
)
