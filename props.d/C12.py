P = dict(
    harness='c12_cmdline.cpp',
    variants=['asan', 'memcheck'],
    memcheck_stride=dict(quick=100, thorough=40),
    level='exploration',
    technique='runtime monitoring: independent reference parser of the help text\'s grammar (speaks only when an argv has exactly one reading as documented options) '
              'compared with every CommandLineArguments getter and with what CommandLineTestRunner executes on a probe registry (console/file/separate-process seams captured); '
              'hostile argv (arbitrary bytes, truncations, mutations) in exact-size libc blocks under ASan/UBSan; '
              'the millisecond clock (the parser\'s only other input: default shuffle seed) is a pinned seam whose reading is part of every case; '
              'applied -vv judged differentially against the same vector one verbosity level down; '
              'multiplicity of the scalar option -o enumerated (every sequence of 1..3 -o options x kind word x attached/separated x 6 contexts): getters must report one of the given kinds '
              'and the runner must apply exactly the kind the getters report (files opened / teamcity messages / console, verbosity, package) also when different kinds are given; '
              'applied output format judged on whichever console stream the output kind owns (plain console, the console next to the junit files under -v/-vv, the teamcity console): '
              'every result line ("OK (" / "Errors (") of a -c run must be switched to green / red by an escape sequence in front of it, a run without -c must print no escape sequence; '
              'probe registries with failing probes make the "red if failed" half observable',
    rule='cases: argument vectors. Four finite sub-domains are enumerated completely (every documented option form alone and in every ordered pair; every truncation / dropped argument of every form plus a table of malformed TEST( / group.name / number shapes; '
         'every sequence of 1..3 -o options over normal/eclipse/junit/teamcity in attached/separated form in 6 contexts; '
         'every ordered subset of the format options -c -v -vv x no -o / each kind word attached and separated, in front of or behind them x 9 run-shaping contexts (filter, nothing selected, -r2, package, -p, -ri, -b -s7) x all probes passing / three probes failing; '
         'every clock-reading vector shape x the lattice of clock readings 2^k+d, m*2^32+d, 0, ULONG_MAX x constant/advancing clock); '
         'random sequences of documented options (attached/separated, identifier-like values with substring relations to the probe registry), filter-only vectors, arbitrary bytes 1..255, mutations of valid vectors. '
         'Non-trivial = a vector the reference reads as documented with >= 2 value-carrying options in mixed attached/separated form, or a vector outside the documented grammar that the parser rejects; distinct by the argv bytes',
    floor=dict(quick=20000, thorough=200000),
    counter_floor=dict(
        quick={'configurations_compared': 40000, 'selection_runs': 30000, 'real_rejected': 20000, 'list_outputs_compared': 1000, 'separate_process_runs': 1000, 'output_kind_applied_junit': 500, 'output_kind_applied_teamcity': 500,
               'very_verbose_differential_checked': 2000, 'very_verbose_differential_checked_with_v_too': 400, 'verbose_output_checked_junit_composite': 100,
               'color_result_lines_checked_console': 4000, 'color_result_lines_checked_junit_composite_console': 300, 'color_result_lines_checked_teamcity_console': 500,
               'color_ok_lines_checked_green': 3000, 'color_errors_lines_checked_red_failed_test': 500, 'color_errors_lines_checked_red_ran_nothing': 1000, 'no_color_output_checked': 40000,
               'unseeded_shuffle_vectors_clock_nonzero_multiple_of_2p32': 1000, 'unseeded_shuffle_vectors_clock_zero': 100, 'unseeded_shuffle_vectors_clock_low32_all_ones': 800,
               'output_kind_conflict_vectors': 3000, 'output_kind_applied_with_several_o_kinds': 3000},
        thorough={'configurations_compared': 300000, 'selection_runs': 200000, 'real_rejected': 100000, 'list_outputs_compared': 5000, 'separate_process_runs': 5000, 'output_kind_applied_junit': 3000, 'output_kind_applied_teamcity': 3000,
                  'very_verbose_differential_checked': 10000, 'very_verbose_differential_checked_with_v_too': 2000, 'verbose_output_checked_junit_composite': 500,
                  'color_result_lines_checked_console': 20000, 'color_result_lines_checked_junit_composite_console': 400, 'color_result_lines_checked_teamcity_console': 800,
                  'color_ok_lines_checked_green': 10000, 'color_errors_lines_checked_red_failed_test': 500, 'color_errors_lines_checked_red_ran_nothing': 3000, 'no_color_output_checked': 200000,
                  'unseeded_shuffle_vectors_clock_nonzero_multiple_of_2p32': 3000, 'unseeded_shuffle_vectors_clock_zero': 300, 'unseeded_shuffle_vectors_clock_low32_all_ones': 2500,
                  'output_kind_conflict_vectors': 3000, 'output_kind_applied_with_several_o_kinds': 3000},
    ),
    assumptions=[
        'filter lists are compared as multisets (the help text does not document an order; filters are OR-ed per C02)',
        'a scalar option (-r, -s, -o, -k) given several times with different values may yield any of the given values (the help text does not say which occurrence wins); which one won is counted (conflicting_scalar_*, output_kind_conflict_*)',
        'NOT judged: which of several -o options naming different kinds decides. The usage line shows -o without the "..." that marks repeatable options, the help text ("-onormal - no output to files", "-ojunit - output to JUnit ... xml files") gives each kind a meaning but no precedence, README/ChangeLog/headers say nothing; '
        '"-ojunit -onormal" writing JUnit files contradicts one help line, writing none contradicts the other. So "last one wins" (what the code does) is not demanded; a change that makes -onormal/-oeclipse a no-op after an earlier -ojunit/-oteamcity (seeded C12-r4-onormal-...) stays inside the accepted set (no per-kind floor is set on the several-kinds counters for the same reason: which kinds are reachable depends on the undocumented precedence) and only shows in the counters output_kind_conflict_parsed_<kind>_last_given_<kind> / output_kind_conflict_first_given_wins',
        'with several different -o kinds the runner is held to the kind the getters report (the runner applies the parser\'s configuration): files opened / teamcity messages / verbosity / package are judged against that kind',
        'unknown options and values outside an option\'s documented domain (-r0, -s0, -t without a dot, ...) are not required to be rejected; when they are, usage/help must be printed and nothing may run',
        'the shuffle seed is compared only when every -s carries one (otherwise it comes from the clock: which value it becomes is not documented and only counted; that the documented vector is accepted whatever the clock reads is judged)',
        'the clock is replaced through the GetPlatformSpecificTimeInMillis seam for the whole case (constant, or advancing by 1 per reading): durations in the output are 0 or tiny',
        '-vv ("print internal information during test run") is judged without fixing the wording: the console output must be strictly longer than that of the same vector with every -vv replaced by -v (same registry, same clock), also when -v is given too and for the console that accompanies -ojunit; -v alone printing more than test names is not judged',
        '-c ("colorize output, print green if OK, or red if failed") is judged on the result line(s) of the console text, i.e. the lines starting with "OK (" or "Errors (" after their leading escape sequences, wherever the chosen output kind prints one '
        '(plain console; the console that accompanies the junit files when -v or -vv is given; the teamcity console): such a line must be preceded on its line by an SGR escape sequence carrying 32/92 (green) for "OK (" and 31/91 (red) for "Errors ("; '
        'nothing else about the colouring is demanded (no reset sequence, no colour for test names or failure messages; -ojunit without -v/-vv prints no result line and is only counted; escape bytes inside the junit files are counted, not judged). '
        '"Errors (" covers both a failed probe and the "ran nothing" run, as printed by the runner itself. Without -c the console of a documented vector must not contain an ESC byte (all names, values and packages of such vectors are identifiers)',
        'failing probes (a probe that records its execution and then fails a check) exist only in the exhaustive format x kind x outcome section, never together with -f',
        'separate-process mode is observed through the PlatformSpecificRunTestInASeperateProcess seam (no fork); -f is parsed, never combined with a failing test',
        'runs with a parsed repeat count > 8 are not executed (parser getters only)',
        'signed-integer-overflow in AtoI on unrepresentable numbers is counted, not fatal (DESIGN.md section 5)',
    ],
)
