P = dict(
    harness='c16_c20_reports.cpp',
    cxxflags=['-DVF_TEAMCITY'],
    variants=['asan', 'memcheck'],
    memcheck_stride=dict(quick=20, thorough=20),
    post='reports',
    level='exploration',
    technique='runtime monitoring: generated runs executed by the real registry/runner (unfiltered, filtered, and with every test in a real forked child), byte stream captured at printBuffer / the PlatformSpecificFPuts seam, decoded offline by an independent TeamCity tokenizer and pairing automaton and compared with the ground truth; ASan/UBSan build',
    rule='case = one generated run (1..5 groups x 1..6 tests, pass / 1-2 failures / ignored; failures inside the test, in a helper above it, or in another file; names, paths and messages over printable ASCII weighted to \' | [ ] and line breaks plus escape look-alikes such as |n, \'] and "\' x=\'"; '
         'the empty string is a boundary value of group names (6 %, at most one per run), test names (4 %) and failure texts), '
         '65% through TestRegistry::runAllTests with a capturing TeamCityTestOutput, 35% through CommandLineTestRunner -oteamcity [-v] [-r2]. '
         '25 % of the runs carry one or two group/name filters of every kind (substring/strict, selecting/excluding): judged for balance, for the selected tests\' events and for "each test sits in a suite of its own group". '
         '8 % of the runs (3 % in the thorough tier) execute every test in a forked child (registry flag or -p; children pass, fail checks, _exit(n) or are killed by a signal): the parent\'s stream must carry one testFailed, named after the open test, for each test whose child failed. '
         'Non-trivial = run with a TeamCity special character in some name/path/message AND a failure outside the test file; distinct by the (group, test, outcome) sequence',
    floor=dict(quick=500, thorough=10000),
    counter_floor=dict(quick=dict(teamcity_messages_decoded=20000, teamcity_failures_checked=2000, runs_filtered=400, teamcity_runs_with_an_empty_group_name=150, tests_with_empty_name=400,
                                  runs_in_separate_processes=80, teamcity_parent_side_failures_checked=400, children_killed_by_signal=80, children_exit_nonzero=60),
                       thorough=dict(teamcity_messages_decoded=400000, runs_filtered=8000, teamcity_runs_with_an_empty_group_name=3000, tests_with_empty_name=8000,
                                     runs_in_separate_processes=1000, teamcity_parent_side_failures_checked=5000, children_killed_by_signal=1000, children_exit_nonzero=800)),
    assumptions=['printable ASCII plus CR/LF only; generated text never contains "#"', 'free console text between service messages is ignored',
                 'a suite named \'\' that gets no testSuiteFinished is reported under the key teamcity:suite-not-finished:empty-group-name (the output object used the empty group name as its "no group open" marker) and the missing finish is supplied, so that the rest of the run is judged for everything else',
                 'filtered runs: whether a wholly filtered-out group emits an empty suite is not judged',
                 'separate-process runs: only the parent\'s stream is judged (the child writes to its own copy of the output object); wording and location of the parent-side failure are not judged (C11), its name and position are'],
)
