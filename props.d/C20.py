P = dict(
    harness='c16_c20_reports.cpp',
    cxxflags=['-DVF_TEAMCITY'],
    variants=['asan', 'memcheck'],
    memcheck_stride=dict(quick=20, thorough=20),
    post='reports',
    level='exploration',
    technique='runtime monitoring: generated runs executed by the real registry/runner, byte stream captured at printBuffer / the PlatformSpecificFPuts seam, decoded offline by an independent TeamCity tokenizer and pairing automaton and compared with the ground truth; ASan/UBSan build',
    rule='case = one generated run (1..5 groups x 1..6 tests, pass / 1-2 failures / ignored; failures inside the test, in a helper above it, or in another file; names, paths and messages over printable ASCII weighted to \' | [ ] and line breaks plus escape look-alikes such as |n, \'] and "\' x=\'"), '
         '65% through TestRegistry::runAllTests with a capturing TeamCityTestOutput, 35% through CommandLineTestRunner -oteamcity [-v] [-r2]. '
         'Non-trivial = run with a TeamCity special character in some name/path/message AND a failure outside the test file; distinct by the (group, test, outcome) sequence',
    floor=dict(quick=500, thorough=10000),
    counter_floor=dict(quick=dict(teamcity_messages_decoded=20000, teamcity_failures_checked=2000), thorough=dict(teamcity_messages_decoded=400000)),
    assumptions=['non-empty group and test names (an empty group name cannot be written with TEST_GROUP and is used by the output as "no group open")', 'printable ASCII plus CR/LF only; generated text never contains "#"', 'free console text between service messages is ignored'],
)
