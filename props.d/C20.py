P = dict(
    harness='c16_c20_reports.cpp',
    cxxflags=['-DVF_TEAMCITY'],
    variants=['asan', 'memcheck'],
    memcheck_stride=dict(quick=20, thorough=20),
    post='reports',
    level='exploration',
    technique='runtime monitoring: generated runs executed by the real registry/runner (unfiltered, filtered, with every test in a real forked child, with and without the run-ignored option, in one or two passes over the same shells), byte stream captured at printBuffer / the PlatformSpecificFPuts seam, decoded offline by an independent TeamCity tokenizer and pairing automaton and compared with the ground truth; ASan/UBSan build',
    rule='case = one generated run (1..5 groups x 1..6 tests, 8 % of the runs the boundary of one group with one test, pass / 1-2 failures / ignored; failures inside the test, in a helper above it, or in another file; names, paths and messages over printable ASCII weighted to \' | [ ] and line breaks plus escape look-alikes such as |n, \'] and "\' x=\'"; '
         'the empty string is a boundary value of group names (6 %, at most one per run), test names (4 %) and failure texts), '
         '65% through TestRegistry::runAllTests with a capturing TeamCityTestOutput (25 % of these, 60 % of the single-test runs: two or three passes over the same registry and output object; in 40 % of the unfiltered multi-pass runs, 70 % of the single-test ones, UtestShell::setTestName renames 70 % of the shells between two passes: every pass must be reported under the names the tests have during that pass, also when the same shell is the last one started in a pass and the first one started in the next; keyed teamcity:sequence-differs:name-decoding:test-renamed-since-the-previous-pass), 35% through CommandLineTestRunner -oteamcity [-v] [-r2] [-ri]. '
         'Every IGNORE_TEST (22 % of the tests) has a scripted body; 22 % of the runs use the run-ignored option (TestRegistry::setRunIgnored before the first or between two passes, or -ri), 10 % of the direct runs without it call setRunIgnored() on individual shells: '
         'per pass an IGNORE_TEST is either skipped (testIgnored required, no testFailed) or executed (no testIgnored, one testFailed per failure of its body); a testIgnored for an executed IGNORE_TEST is keyed teamcity:sequence-differs:ignored-marker:ignore-test-executed-under-run-ignored. '
         '25 % of the runs carry one or two group/name filters of every kind (substring/strict, selecting/excluding): judged for balance, for the selected tests\' events and for "each test sits in a suite of its own group". '
         '8 % of the runs (3 % in the thorough tier) execute every test in a forked child (registry flag or -p; children pass, fail checks, _exit(n) or are killed by a signal): the parent\'s stream must carry one testFailed, named after the open test, for each test whose child failed. '
         'Non-trivial = run with a TeamCity special character in some name/path/message AND a failure outside the test file; distinct by the (group, test, outcome) sequence',
    floor=dict(quick=500, thorough=10000),
    counter_floor=dict(quick=dict(teamcity_messages_decoded=20000, teamcity_failures_checked=2000, runs_filtered=400, teamcity_runs_with_an_empty_group_name=150, tests_with_empty_name=400,
                                  runs_in_separate_processes=80, teamcity_parent_side_failures_checked=400, children_killed_by_signal=80, children_exit_nonzero=60,
                                  runs_with_run_ignored=400, runs_with_run_ignored_switched_on_between_two_passes=20, runs_with_setRunIgnored_on_single_shells=80, teamcity_ignore_tests_skipped_expected=3000, teamcity_ignore_tests_executed_expected=800,
                                  ignore_test_passes_executed_first_time_in_first_pass=700, ignore_test_passes_executed_first_time_in_a_later_pass=50, ignore_test_passes_executed_again=100,
                                  runs_with_a_single_test=150, runs_with_tests_renamed_between_passes=100, tests_renamed_and_started_next_after_their_own_previous_start=15, teamcity_renamed_tests_expected=800),
                       thorough=dict(teamcity_messages_decoded=400000, runs_filtered=8000, teamcity_runs_with_an_empty_group_name=3000, tests_with_empty_name=8000,
                                     runs_in_separate_processes=1000, teamcity_parent_side_failures_checked=5000, children_killed_by_signal=1000, children_exit_nonzero=800,
                                     runs_with_run_ignored=8000, runs_with_run_ignored_switched_on_between_two_passes=400, runs_with_setRunIgnored_on_single_shells=1500, teamcity_ignore_tests_skipped_expected=60000, teamcity_ignore_tests_executed_expected=16000,
                                     ignore_test_passes_executed_first_time_in_first_pass=14000, ignore_test_passes_executed_first_time_in_a_later_pass=1000, ignore_test_passes_executed_again=2000,
                                     runs_with_a_single_test=4000, runs_with_tests_renamed_between_passes=2000, tests_renamed_and_started_next_after_their_own_previous_start=300, teamcity_renamed_tests_expected=16000)),
    assumptions=['printable ASCII plus CR/LF only; generated text never contains "#"', 'free console text between service messages is ignored',
                 'a suite named \'\' that gets no testSuiteFinished is reported under the key teamcity:suite-not-finished:empty-group-name (the output object used the empty group name as its "no group open" marker) and the missing finish is supplied, so that the rest of the run is judged for everything else',
                 'filtered runs: whether a wholly filtered-out group emits an empty suite is not judged',
                 'an IGNORE_TEST executed because of the run-ignored option (or setRunIgnored() on its shell) is no ignored test of that pass: no testIgnored, its failures reported; the option stays in force for later passes over the same registry',
                 'separate-process runs: only the parent\'s stream is judged (the child writes to its own copy of the output object); wording and location of the parent-side failure are not judged (C11), its name and position are'],
)
