P = dict(
    harness='c18_strcache.cpp',
    variants=['asan', 'memcheck'],
    memcheck_stride=dict(quick=100, thorough=40),
    level='exploration',
    technique='runtime monitoring: shadow interval map of handed-out buffers with per-buffer fill patterns, size-class model from the statement, exactly-once ledger in a recording underlying TestMemoryAllocator (returned blocks poisoned and held), output capture for the one-time warning, ASan/UBSan build; '
              'SimpleStringInternalCache driven directly, through SimpleStringCacheAllocator, and as GlobalSimpleStringCache under real SimpleString traffic',
    rule='cases: generated histories of 10..300 (thorough: ..600) alloc/dealloc/clearCache/clearAll operations with sizes on and around 0/32/64/96/128/256/1024, releases in arbitrary order with the true size, another size of the same class, '
         'a size of another class, of foreign heap/static/stack/interior pointers and repeated releases; every request size 0..1100 in a fixed history shape and every (true size, release size) pair inside one cached class are enumerated completely; '
         'GlobalSimpleStringCache lifetimes with SimpleString construction/copy/assign/append/substring/format/destroy traffic. '
         'Non-trivial = a history that releases a non-head block of a used list and later allocates again in the same size class; distinct by the operation sequence',
    floor=dict(quick=40000, thorough=350000),
    counter_floor=dict(
        quick={'release_interior_class_32': 5000, 'release_interior_class_256': 5000, 'alloc_reused': 50000, 'unknown_release_first': 2000, 'unknown_release_after_warning': 5000, 'op_clearCache': 5000, 'op_clearAll': 10000, 'global_cache_lifetimes': 8000},
        thorough={'release_interior_class_32': 100000, 'release_interior_class_256': 100000, 'alloc_reused': 1000000, 'unknown_release_first': 40000, 'unknown_release_after_warning': 100000, 'op_clearCache': 100000, 'op_clearAll': 200000, 'global_cache_lifetimes': 100000},
    ),
    max_resumes=6,      # a mutant that corrupts a list kills (or spins) almost every case: six deaths per process are enough evidence
    stall_s=120, confirm_s=40,   # a spinning cache is normally ended by the harness itself (5 s CPU budget per case, key no-termination:*)
    assumptions=[
        'foreign pointers handed to dealloc point to NUL-terminated memory (the cache prints them with %s)',
        'a live buffer released with a size of another class, an uncached buffer released with another size, and a second release of a released buffer are caller errors outside the quantifier: executed for memory safety and list integrity, warning allowed but not demanded, the buffer is never touched again',
        'the ledger is per pointer: clearAllIncludingCurrentlyUsedMemory returns uncached blocks with size 0 (observed, counted, not judged)',
        'destruction is judged on GlobalSimpleStringCache and on SimpleStringInternalCache after clearAll; destroying a SimpleStringInternalCache that still holds blocks is only counted unless C18_DESTROY_STRICT is set',
    ],
)
