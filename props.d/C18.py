P = dict(
    harness='c18_strcache.cpp',
    variants=['asan', 'memcheck'],
    memcheck_stride=dict(quick=100, thorough=40),
    level='exploration',
    technique='runtime monitoring: shadow interval map of handed-out buffers with per-buffer fill patterns, size-class model from the statement, exactly-once ledger in a recording underlying TestMemoryAllocator (returned blocks poisoned and held), output capture for the one-time warning, ASan/UBSan build; '
              'SimpleStringInternalCache driven directly, through SimpleStringCacheAllocator, and as GlobalSimpleStringCache under real SimpleString traffic; '
              'long-list histories (10^4..5*10^4 buffers on one list) whose list-length dependent operations (clearCache, clearAll, destruction, ~GlobalSimpleStringCache, '
              'releases from the interior of the long list) run on a thread with a 128 KB stack and a guard region: a fault in the guard region is recorded as '
              'stack-exhausted:<operation>:<list> (the crash the statement excludes, scaled down from the 10^5..10^6 buffers it takes on an 8 MB stack); '
              'the deepest frame seen from the underlying allocator is recorded (unchanged code: below 4 KB whatever the length); '
              're-entrant histories: the recording underlying allocator (alloc and free callbacks) and the output sink that receives the unknown-buffer warning '
              '(PlatformSpecificFPuts seam outside a test run, a StringBufferTestOutput subclass inside a test run of the harness\'s own registry) issue ONE nested '
              'cache operation (request | release of a buffer the script holds | release of a foreign pointer; depth 1) while the cache is inside alloc / dealloc / '
              'printing; the shadow model applies the nested operation at the point where it happens and the same clauses are judged; blocks and buffers obtained or '
              'returned inside a nested operation carry the position (what the cache was doing) in their violation keys; returned blocks are held but not poisoned there, '
              'so a list that keeps a returned block shows up in the ledger (second return) with the position in the key',
    rule='cases: generated histories of 10..300 (thorough: ..600) alloc/dealloc/clearCache/clearAll operations with sizes on and around 0/32/64/96/128/256/1024, releases in arbitrary order with the true size, another size of the same class, '
         'a size of another class, of foreign heap/static/stack/interior pointers and repeated releases; every request size 0..1100 in a fixed history shape and every (true size, release size) pair inside one cached class are enumerated completely; '
         'GlobalSimpleStringCache lifetimes with SimpleString construction/copy/assign/append/substring/format/destroy traffic; '
         'long-list histories: list kind (used list of a class | free list of a class | uncached list | all three) x interface (cache | SimpleStringCacheAllocator | '
         'GlobalSimpleStringCache::getAllocator) x clearing operation in the middle (none | clearCache | clearAll) enumerated by the case index, 10000..20000 (thorough: ..50000) '
         'buffers on the long list, 0..5 releases from its interior, noise allocations, then release-all/clearCache/clearAll/destroy or clearAll/destroy or ~GlobalSimpleStringCache. '
         're-entrant histories: every position the cache calls out from during a request or release (alloc on a miss in each cached class, alloc of an uncached size, '
         'release of the newest / an older uncached buffer: callback 0 and 1 each; first release of an unknown buffer: the print) x kind of nested operation '
         '(request on the same list | in another class, miss | uncached | in another class, hit; release of the newest | an older buffer of the same list | of a buffer of another list; '
         'release of an unknown buffer) x interface (cache | SimpleStringCacheAllocator) x output (console seam | test run) enumerated completely in a fixed history shape (576 cases), '
         'plus generated histories of 6..120 (thorough: ..200) operations with an exact generator-side model of the free lists in which 30..100 % of the operations that reach a callback carry a nested operation. '
         'Non-trivial = a history that releases a non-head block of a used list and later allocates again in the same size class; distinct by the operation sequence',
    floor=dict(quick=45000, thorough=350000),
    counter_floor=dict(
        quick={'release_interior_class_32': 5000, 'release_interior_class_256': 5000, 'alloc_reused': 50000, 'unknown_release_first': 2000, 'unknown_release_after_warning': 5000, 'op_clearCache': 5000, 'op_clearAll': 10000, 'global_cache_lifetimes': 8000,
               'long_list_histories': 90, 'small_stack_clearCache_with_free_list_of_10000_or_more': 4, 'small_stack_clearAll_with_free_list_of_10000_or_more': 3,
               'small_stack_clearAll_with_used_list_of_10000_or_more': 20, 'small_stack_clearAll_with_uncached_list_of_10000_or_more': 10,
               'small_stack_global_destroy_with_used_list_of_10000_or_more': 10, 'small_stack_global_destroy_with_free_list_of_10000_or_more': 5,
               'small_stack_global_destroy_with_uncached_list_of_10000_or_more': 5, 'small_stack_release_with_used_list_of_10000_or_more': 50,
               'reentrant_matrix_cases': 576, 'reentrant_histories': 10000, 'nested_operations_executed': 100000, 'nested_operations_inside_a_test_run': 30000, 'nested_operations_via_adaptor': 20000,
               'nested_request_same_list_in_dealloc:uncached:newest': 10000, 'nested_request_same_list_in_alloc:cached': 8000, 'nested_request_same_list_in_alloc:uncached': 15000,
               'nested_release_same_list_newest_in_alloc:uncached': 3000, 'nested_release_same_list_older_in_dealloc:uncached:older': 1200, 'nested_foreign_release_in_warning-print': 200},
        thorough={'release_interior_class_32': 100000, 'release_interior_class_256': 100000, 'alloc_reused': 1000000, 'unknown_release_first': 40000, 'unknown_release_after_warning': 100000, 'op_clearCache': 100000, 'op_clearAll': 200000, 'global_cache_lifetimes': 100000,
                  'long_list_histories': 700, 'small_stack_clearCache_with_free_list_of_10000_or_more': 30, 'small_stack_clearAll_with_free_list_of_10000_or_more': 30,
                  'small_stack_clearAll_with_used_list_of_10000_or_more': 200, 'small_stack_clearAll_with_uncached_list_of_10000_or_more': 100,
                  'small_stack_global_destroy_with_used_list_of_10000_or_more': 100, 'small_stack_global_destroy_with_free_list_of_10000_or_more': 50,
                  'small_stack_global_destroy_with_uncached_list_of_10000_or_more': 50, 'small_stack_release_with_used_list_of_10000_or_more': 500,
                  'reentrant_matrix_cases': 576, 'reentrant_histories': 150000, 'nested_operations_executed': 1000000, 'nested_operations_inside_a_test_run': 300000, 'nested_operations_via_adaptor': 200000,
                  'nested_request_same_list_in_dealloc:uncached:newest': 100000, 'nested_request_same_list_in_alloc:cached': 80000, 'nested_request_same_list_in_alloc:uncached': 150000,
                  'nested_release_same_list_newest_in_alloc:uncached': 30000, 'nested_release_same_list_older_in_dealloc:uncached:older': 12000, 'nested_foreign_release_in_warning-print': 2000},
    ),
    max_resumes=6,      # a mutant that corrupts a list kills (or spins) almost every case: six deaths per process are enough evidence
    stall_s=120, confirm_s=40,   # a spinning cache is normally ended by the harness itself (5 s CPU budget per case, key no-termination:*)
    assumptions=[
        'foreign pointers handed to dealloc point to NUL-terminated memory (the cache prints them with %s)',
        'a live buffer released with a size of another class, an uncached buffer released with another size, and a second release of a released buffer are caller errors outside the quantifier: executed for memory safety and list integrity, warning allowed but not demanded, the buffer is never touched again',
        'the ledger is per pointer: clearAllIncludingCurrentlyUsedMemory returns uncached blocks with size 0 (observed, counted, not judged)',
        'stack use is judged by scaling: an operation that dies on a 128 KB thread stack with 10000..50000 buffers on one list uses stack in proportion to the list length and dies the same way on the '
        'default 8 MB stack with 64 times as many; the unchanged operations need less than 4 KB there (measured, counters small_stack_peak_depth_*), so the small stack itself cannot cause an alarm. '
        'Only a fault inside the guard region below that stack is keyed stack-exhausted:*; any other fault is handed back to the sanitizer',
        'the harness runs with cpputest\'s leak-detecting operator new/delete switched off (turnOffNewDeleteOverloads): its own containers would otherwise be tracked by the global detector; the string cache does not use it',
        're-entrancy is bounded to depth 1 and to the positions inside alloc / dealloc / the print of the warning; a request or release that arrives while clearCache / '
        'clearAllIncludingCurrentlyUsedMemory / a destructor is returning blocks is not generated: the statement speaks of the state "after the cache is cleared", an operation in the middle of a clear is neither before nor after it',
        'in the re-entrant sections the position named in a key (…nested-in=dealloc:uncached:newest) is the position by the shadow model',
        'destruction is judged on GlobalSimpleStringCache and on SimpleStringInternalCache after clearAll; destroying a SimpleStringInternalCache that still holds blocks is only counted unless C18_DESTROY_STRICT is set',
    ],
)
