P = dict(
    harness='c16_c20_reports.cpp',
    cxxflags=['-DVF_JUNIT'],
    variants=['asan', 'memcheck'],
    memcheck_stride=dict(quick=20, thorough=20),
    post='reports',
    level='exploration',
    technique='runtime monitoring: generated runs executed by the real registry/runner (unfiltered, filtered by group/name filters of every kind, and with every test in a real forked child), XML captured at the PlatformSpecificFOpen/FPuts/FClose seams, judged offline by Python expat (well-formedness) and a ground-truth comparison (faithfulness; selection computed by an independent model of the filter rule); ASan/UBSan build',
    rule='case = one generated run (1..5 groups x 1..6 consecutive tests, pass / 1-2 failures / ignored, optional package, names, paths, failure texts and printed texts over printable ASCII weighted to & < > " \' | [ ] / \\ ? % * : and line breaks plus entity/CDATA/comment look-alikes; '
         'the empty string is a boundary value of group names (6 %, at most one per run), test names (4 %), failure texts and printed texts), '
         '65% driven directly through TestRegistry::runAllTests with a recording JUnitTestOutput subclass, 35% through CommandLineTestRunner -ojunit [-k pkg] [-v] [-r2]. '
         '25 % of the runs carry one or two filters (group or name, substring or strict, selecting or excluding; text taken from a test of the run or absent from it; TestRegistry::setGroupFilters/setNameFilters or -g/-sg/-xg/-xsg/-n/-sn/-xn/-xsn): '
         'every group with at least one selected test must produce, in run order, one file holding exactly its selected tests with true counts; what a wholly filtered-out group leaves behind (nothing, or a report without test cases) is not judged. '
         '8 % of the runs (3 % in the thorough tier) execute every test in a forked child (registry flag or -p; children pass, fail checks, _exit(n) or are killed by SIGKILL/SIGTERM/SIGUSR1/SIGUSR2): the parent\'s files must carry a failure element exactly for the tests whose child failed (wording not judged). '
         'Non-trivial = run with a markup character in some name/path/message AND a failing AND an ignored test; distinct by the (group, test, outcome) sequence',
    floor=dict(quick=500, thorough=10000),
    counter_floor=dict(quick=dict(junit_files_parsed=3000, junit_testcases_checked=8000, runs_filtered=400, runs_filter_drops_last_test_of_a_group_that_ran=100, junit_files_judged_in_filtered_runs=500,
                                  junit_files_of_a_group_with_empty_name=150, tests_with_empty_name=400, runs_in_separate_processes=80, junit_parent_side_failures_seen=400),
                       thorough=dict(junit_files_parsed=50000, runs_filtered=8000, runs_filter_drops_last_test_of_a_group_that_ran=2000, junit_files_judged_in_filtered_runs=10000,
                                     junit_files_of_a_group_with_empty_name=3000, tests_with_empty_name=8000, runs_in_separate_processes=1000, junit_parent_side_failures_seen=5000)),
    assumptions=['default (consecutive) group order, distinct group names whose sanitised file names differ', 'printable ASCII plus CR/LF only (no other control characters, no bytes >= 0x80)',
                 'filtered runs: a test is selected iff some group filter (if any) accepts its group and some name filter (if any) accepts its name; non-strict filters are never empty; what a wholly filtered-out group produces is not judged (a captured file without testcase elements is skipped at such a position)',
                 'separate-process runs: only the parent\'s files are judged; the text printed by a child and the wording/location of the parent-side failure are not judged (C11)',
                 'system-out may hold the output so far or only the current group\'s', 'the failure message may be any one of the test\'s failures', 'assertions/time/timestamp attributes are not judged'],
)
