P = dict(
    harness='c16_c20_reports.cpp',
    cxxflags=['-DVF_JUNIT'],
    variants=['asan', 'memcheck'],
    memcheck_stride=dict(quick=20, thorough=20),
    post='reports',
    level='exploration',
    technique='runtime monitoring: generated runs executed by the real registry/runner (unfiltered, filtered by group/name filters of every kind, with every test in a real forked child, with and without the run-ignored option, in one or two passes over the same shells), XML captured at the PlatformSpecificFOpen/FPuts/FClose seams, judged offline by Python expat (well-formedness) and a ground-truth comparison (faithfulness; selection computed by an independent model of the filter rule); ASan/UBSan build',
    rule='case = one generated run (1..5 groups x 1..6 consecutive tests, 8 % of the runs the boundary of one group with one test, pass / 1-2 failures / ignored, optional package, names, paths, failure texts and printed texts over printable ASCII weighted to & < > " \' | [ ] / \\ ? % * : and line breaks plus entity/CDATA/comment look-alikes; '
         'the empty string is a boundary value of group names (6 %, at most one per run), test names (4 %), failure texts and printed texts), '
         '65% driven directly through TestRegistry::runAllTests with a recording JUnitTestOutput subclass (25 % of these, 60 % of the single-test runs: two or three passes over the same registry and output object, one TestResult per pass as the runner does; in 40 % of the unfiltered multi-pass runs, 70 % of the single-test ones, UtestShell::setTestName renames 70 % of the shells between two passes and each pass must be reported under the names of that pass), 35% through CommandLineTestRunner -ojunit [-k pkg] [-v] [-r2] [-ri]. '
         'Which tests are the ignored tests of a run depends on the run: every IGNORE_TEST (22 % of the tests, an IgnoredUtestShell subclass) has a scripted body (checks, prints, 0-2 failures) like an ordinary test; 22 % of the runs use the run-ignored option '
         '(TestRegistry::setRunIgnored before the first pass or between two passes, or -ri, also combined with -r2, filters and separate processes), 10 % of the direct runs without it call UtestShell::setRunIgnored() on individual shells (ignored and ordinary ones). '
         'Per pass an IGNORE_TEST is either skipped (skipped marker required, no failure element, nothing printed) or executed (first time or again; then it is no ignored test of the run: no skipped marker, failure element iff its body failed, counted in the suite failures, its prints in system-out); a violation of the latter is keyed junit:skipped-marker:ignore-test-executed-under-run-ignored. '
         '25 % of the runs carry one or two filters (group or name, substring or strict, selecting or excluding; text taken from a test of the run or absent from it; TestRegistry::setGroupFilters/setNameFilters or -g/-sg/-xg/-xsg/-n/-sn/-xn/-xsn): '
         'every group with at least one selected test must produce, in run order, one file holding exactly its selected tests with true counts; what a wholly filtered-out group leaves behind (nothing, or a report without test cases) is not judged. '
         '8 % of the runs (3 % in the thorough tier) execute every test in a forked child (registry flag or -p; children pass, fail checks, _exit(n) or are killed by SIGKILL/SIGTERM/SIGUSR1/SIGUSR2): the parent\'s files must carry a failure element exactly for the tests whose child failed (wording not judged). '
         'Non-trivial = run with a markup character in some name/path/message AND a failing (executed) AND an ignored (skipped in some pass) test; distinct by the (group, test, outcome) sequence',
    floor=dict(quick=500, thorough=10000),
    counter_floor=dict(quick=dict(junit_files_parsed=3000, junit_testcases_checked=8000, runs_filtered=400, runs_filter_drops_last_test_of_a_group_that_ran=100, junit_files_judged_in_filtered_runs=500,
                                  junit_files_of_a_group_with_empty_name=150, tests_with_empty_name=400, runs_in_separate_processes=80, junit_parent_side_failures_seen=400,
                                  runs_with_run_ignored=400, runs_with_run_ignored_through_TestRegistry_setRunIgnored=250, runs_with_run_ignored_through_runner_option_ri=120, runs_with_run_ignored_switched_on_between_two_passes=20, runs_with_setRunIgnored_on_single_shells=80,
                                  junit_ignore_tests_skipped_checked=3000, junit_ignore_tests_executed_passing_checked=400, junit_ignore_tests_executed_failing_checked=400,
                                  ignore_test_passes_executed_first_time_in_first_pass=700, ignore_test_passes_executed_first_time_in_a_later_pass=50, ignore_test_passes_executed_again=100,
                                  runs_with_a_single_test=150, runs_with_tests_renamed_between_passes=100, tests_renamed_and_started_next_after_their_own_previous_start=15, junit_renamed_tests_checked=800),
                       thorough=dict(junit_files_parsed=50000, runs_filtered=8000, runs_filter_drops_last_test_of_a_group_that_ran=2000, junit_files_judged_in_filtered_runs=10000,
                                     junit_files_of_a_group_with_empty_name=3000, tests_with_empty_name=8000, runs_in_separate_processes=1000, junit_parent_side_failures_seen=5000,
                                     runs_with_run_ignored=8000, runs_with_run_ignored_through_TestRegistry_setRunIgnored=5000, runs_with_run_ignored_through_runner_option_ri=2500, runs_with_run_ignored_switched_on_between_two_passes=400, runs_with_setRunIgnored_on_single_shells=1500,
                                     junit_ignore_tests_skipped_checked=60000, junit_ignore_tests_executed_passing_checked=8000, junit_ignore_tests_executed_failing_checked=8000,
                                     ignore_test_passes_executed_first_time_in_first_pass=14000, ignore_test_passes_executed_first_time_in_a_later_pass=1000, ignore_test_passes_executed_again=2000,
                                     runs_with_a_single_test=4000, runs_with_tests_renamed_between_passes=2000, tests_renamed_and_started_next_after_their_own_previous_start=300, junit_renamed_tests_checked=16000)),
    assumptions=['default (consecutive) group order, distinct group names whose sanitised file names differ', 'printable ASCII plus CR/LF only (no other control characters, no bytes >= 0x80)',
                 'filtered runs: a test is selected iff some group filter (if any) accepts its group and some name filter (if any) accepts its name; non-strict filters are never empty; what a wholly filtered-out group produces is not judged (a captured file without testcase elements is skipped at such a position)',
                 'separate-process runs: only the parent\'s files are judged; the text printed by a child and the wording/location of the parent-side failure are not judged (C11)',
                 '"ignored tests" of a run = the IGNORE_TESTs that the run did not execute: an IGNORE_TEST executed because of the run-ignored option (or setRunIgnored() on its shell) is judged like an ordinary test of that pass; setRunIgnored() on an ordinary test changes nothing; the option stays in force for later passes over the same registry',
                 'two passes in direct mode share the output object (one TestResult per pass): each pass must produce its own complete set of files',
                 'system-out may hold the output so far or only the current group\'s', 'the failure message may be any one of the test\'s failures', 'assertions/time/timestamp attributes are not judged'],
)
