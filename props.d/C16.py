P = dict(
    harness='c16_c20_reports.cpp',
    cxxflags=['-DVF_JUNIT'],
    variants=['asan', 'memcheck'],
    memcheck_stride=dict(quick=20, thorough=20),
    post='reports',
    level='exploration',
    technique='runtime monitoring: generated runs executed by the real registry/runner, XML captured at the PlatformSpecificFOpen/FPuts/FClose seams, judged offline by Python expat (well-formedness) and a ground-truth comparison (faithfulness); ASan/UBSan build',
    rule='case = one generated run (1..5 groups x 1..6 consecutive tests, pass / 1-2 failures / ignored, optional package, names, paths, failure texts and printed texts over printable ASCII weighted to & < > " \' | [ ] / \\ ? % * : and line breaks plus entity/CDATA/comment look-alikes), '
         '65% driven directly through TestRegistry::runAllTests with a recording JUnitTestOutput subclass, 35% through CommandLineTestRunner -ojunit [-k pkg] [-v] [-r2]. '
         'Non-trivial = run with a markup character in some name/path/message AND a failing AND an ignored test; distinct by the (group, test, outcome) sequence',
    floor=dict(quick=500, thorough=10000),
    counter_floor=dict(quick=dict(junit_files_parsed=3000, junit_testcases_checked=8000), thorough=dict(junit_files_parsed=50000)),
    assumptions=['unfiltered runs, default (consecutive) group order, distinct group names whose sanitised file names differ', 'printable ASCII plus CR/LF only (no other control characters, no bytes >= 0x80)', 'non-empty group and test names',
                 'system-out may hold the output so far or only the current group\'s', 'the failure message may be any one of the test\'s failures', 'assertions/time/timestamp attributes are not judged'],
)
