P = dict(
    harness='c17_ptrplugins.cpp',
    variants=dict(quick=['asan', 'memcheck'], thorough=['asan', 'asan-noexc', 'memcheck']),
    memcheck_stride=dict(quick=40, thorough=40),
    level='exploration',
    technique='runtime monitoring: generated programs (plugin-chain operations interleaved with scripted tests doing 0..36 UT_PTR_SETs over 8 typed targets, '
              'ending by pass / FAIL / CHECK / FAIL_TEXT_C / CHECK_C / throw) run over a private TestRegistry and through CommandLineTestRunner::runAllTestsMain; '
              'oracles: shadow copy of the targets taken at setup entry and compared after the post actions (plus canaries between the targets), '
              'attempt/completion counters for the 32-entry limit, list model of the chain (install = push front, remove = erase that element, enabled flags) '
              'compared structurally after every operation and behaviourally (order log of recording plugins) after every test, also in executions where recording plugins report a failure for the test '
              'from their pre and/or post action (TestResult::addFailure, 1 or 2 failures; those failures are subtracted before the limit / spurious-failure oracles); '
              'history shape "unrestored redirections, then a new plugin object": tests also call UT_PTR_SET while no installed, enabled SetPointerPlugin is in the chain '
              '(disabled / removed / never installed / the runner\'s own plugin disabled during a run) - observed but not judged; a new SetPointerPlugin object '
              '(chain operation newPluginObject, or the next runAllTestsMain call) is constructed before the next test that runs under an active plugin, and that test and all later ones are judged as usual '
              '(violation keys of the first judged test carry the suffix :after-unrestored-redirections-and-a-new-plugin-object); '
              'enabled flags switched WHILE a test runs: the test itself (any statement of setup / body / teardown) or the pre / post action of another recording plugin calls enable() / disable() on an installed plugin '
              '(recording plugins, the SetPointerPlugin, the runner\'s own plugin). The model only orders the events (pre actions head first, test, post actions tail first) and notes the flag each plugin has when its pre action '
              'and when its post action is due: a plugin whose flag is the same at both moments is judged as usual (sees both / neither, order as always), a plugin whose flag differs between the two moments is not judged '
              '(its actions are only counted - the statement does not say which moment counts); pointers are judged when an installed SetPointerPlugin was enabled at every redirection of the test and one is enabled from the first '
              'to the last post action - in particular a test that switches the installed, disabled SetPointerPlugin on (first statement of setup, or the pre action of a plugin in front of / behind it) and then redirects; '
              'otherwise the test is executed but unjudged and, if nothing was enabled at post-action time, its entries count as unrestored (new plugin object before the next judged test). '
              'Keys of such tests carry :set-pointer-plugin-switched-while-the-test-ran (pointers) / :flags-switched-while-the-test-ran (actions); isEnabled() of every plugin is compared with the calls made after such a test; '
              'ASan/UBSan build watches the table',
    rule='a case is a program: plugin universe (recording plugins, recording/plain SetPointerPlugins, the runner\'s own SetPointerPlugin), executions = (chain operations, one scripted test) '
         'grouped into runs, chain operations applied between runs and between tests of one run; in part of the executions plugin actions (pre, post, both, of one or two plugins) report a failure for the test; '
         'four sections are enumerated completely '
         '(remove-by-name: chains of 1..6 x every enabled mask x every position + absent name; limit: 30..36 redirections x placement x ending x target pattern, followed by a small test and a test filling the table exactly; '
         'failing actions: chains of 1..5 x every enabled mask x every complaining plugin x {pre, post, pre+post, pre with 2 failures + post of the neighbour} x ending {pass, FAIL, CHECK_C in setup}, followed by a plain test; '
         'unrestored-then-new-plugin: facility absent {disabled, never installed, removed} x {1, 3, 32, 34} unrestored redirections x {same plugin replaced by a new object, another new SetPointerPlugin} '
         'x first judged test {same location, another location + FAIL, none, exactly 32} x location rewritten in between {no, yes} x {between runs, between tests}, and the same through two runAllTestsMain calls with the runner\'s plugin disabled {directly, by name} in the first; '
         'flags switched while a test runs: chain H > A > SetPointerPlugin > B > T, switched plugin {A, SetPointerPlugin, B} x switched by {first statement of setup, first of body, last of teardown, pre action of H, pre action of T, post action of H, post action of T} '
         'x initial flag {enabled, disabled} x switched back {never, later in the test / post action of the same plugin, post action of T} x redirections {none, 3 in the body with one location twice, 4 over setup / body / teardown} x ending {pass, FAIL in body, CHECK_C in setup}, followed by a plain test). '
         'In the random sections about one test in eight switches flags (recording plugins at random statements / from actions; a disabled SetPointerPlugin switched on; the active one switched off and perhaps on again), and pointer programs disable the SetPointerPlugin between tests and let the next test switch it on itself. '
         'Non-trivial = a test execution that redirects one target >= 2 times (distinct by script: baseline, redirections per phase, failing statements), '
         'or a chain operation (remove / enable / disable, also the runner removing its own plugin) on a plugin at depth >= 2 (distinct by chain names + enabled flags + operation + depth), '
         'or a test execution in which a plugin action reports a failure while actions of other enabled recording plugins are still due after it (distinct by chain + complaining plugins + failures each + ending), '
         'or the first judged test after a new SetPointerPlugin object was constructed over unrestored entries, when replaying one of those entries would change a location (distinct by chain + locations + script), '
         'or a test during which the enabled flag of an installed plugin changes (distinct by chain + flags + script incl. the switching statements / actions)',
    floor=dict(quick=15000, thorough=300000),
    counter_floor=dict(
        quick=dict(tests_sets_over_32=3000, tests_filling_the_table_exactly_and_passing=2000, repeatedly_redirected_targets_compared=50000,
                   remove_pos_deep=3000, remove_pos_head=3000, chain_op_remove_absent=3000, chain_ops_between_tests_of_one_run=10000,
                   disabled_installed_plugins_during_tests=20000, tests_ending_throw=5000, **{'tests_ending_fail-c': 5000, 'tests_ending_fail-cpp': 5000},
                   runs_through_command_line_runner=5000, order_logs_compared=50000,
                   pre_action_failures_with_enabled_plugins_behind=3000, post_action_failures_with_enabled_plugins_in_front=3000,
                   pre_action_failures_not_at_the_head=2000, tests_passing_by_themselves_but_failed_by_a_plugin_action=3000,
                   tests_redirecting_pointers_with_a_plugin_action_reporting_a_failure=2000,
                   tests_redirecting_without_an_active_set_pointer_plugin_unjudged=2000, redirections_left_unrestored=10000,
                   new_set_pointer_plugin_objects_constructed_over_unrestored_entries=1000,
                   new_set_pointer_plugin_object_over_unrestored_entries_by_the_command_line_runner=150,
                   tests_judged_under_a_new_plugin_object_after_unrestored_redirections=1000,
                   tests_after_a_new_plugin_object_in_which_a_replay_would_be_visible=1000,
                   tests_redirecting_a_location_with_a_discarded_unrestored_entry=400, chain_op_new_plugin_object=1500,
                   tests_in_which_the_flag_of_an_installed_plugin_changed_while_the_test_ran=3000,
                   flag_switches_by_the_test_in_setup=3000, flag_switches_by_the_test_in_body=1500, flag_switches_by_the_test_in_teardown=1500,
                   flag_switches_by_pre_actions_of_plugins=800, flag_switches_by_post_actions_of_plugins=800,
                   tests_judged_for_restoration_whose_set_pointer_plugin_was_disabled_when_the_pre_actions_ran=800,
                   set_pointer_plugin_switched_on_by_the_test_then_judged=700, set_pointer_plugin_switched_on_by_a_plugin_action_then_judged=80,
                   tests_judged_with_a_repeated_target_and_the_set_pointer_plugin_switched_on_meanwhile=600,
                   switched_but_settled_recording_plugins_judged_as_enabled=400, switched_but_settled_recording_plugins_judged_as_disabled=400,
                   unsettled_recording_plugins_enabled_at_pre_disabled_at_post_action_time_unjudged=1000,
                   unsettled_recording_plugins_disabled_at_pre_enabled_at_post_action_time_unjudged=1000),
        thorough=dict(tests_sets_over_32=60000, tests_filling_the_table_exactly_and_passing=40000, repeatedly_redirected_targets_compared=1000000,
                      remove_pos_deep=60000, chain_op_remove_absent=60000, chain_ops_between_tests_of_one_run=200000,
                      tests_ending_throw=50000, **{'tests_ending_fail-c': 100000},
                      runs_through_command_line_runner=100000, order_logs_compared=1000000,
                      pre_action_failures_with_enabled_plugins_behind=30000, post_action_failures_with_enabled_plugins_in_front=30000,
                      tests_redirecting_pointers_with_a_plugin_action_reporting_a_failure=30000,
                      tests_redirecting_without_an_active_set_pointer_plugin_unjudged=20000, redirections_left_unrestored=100000,
                      new_set_pointer_plugin_objects_constructed_over_unrestored_entries=10000,
                      new_set_pointer_plugin_object_over_unrestored_entries_by_the_command_line_runner=1500,
                      tests_judged_under_a_new_plugin_object_after_unrestored_redirections=10000,
                      tests_after_a_new_plugin_object_in_which_a_replay_would_be_visible=10000,
                      tests_redirecting_a_location_with_a_discarded_unrestored_entry=4000, chain_op_new_plugin_object=15000,
                      tests_in_which_the_flag_of_an_installed_plugin_changed_while_the_test_ran=30000,
                      flag_switches_by_the_test_in_setup=20000, flag_switches_by_the_test_in_body=12000, flag_switches_by_the_test_in_teardown=12000,
                      flag_switches_by_pre_actions_of_plugins=6000, flag_switches_by_post_actions_of_plugins=6000,
                      tests_judged_for_restoration_whose_set_pointer_plugin_was_disabled_when_the_pre_actions_ran=6000,
                      set_pointer_plugin_switched_on_by_the_test_then_judged=5000, set_pointer_plugin_switched_on_by_a_plugin_action_then_judged=500,
                      tests_judged_with_a_repeated_target_and_the_set_pointer_plugin_switched_on_meanwhile=4000,
                      switched_but_settled_recording_plugins_judged_as_enabled=3000, switched_but_settled_recording_plugins_judged_as_disabled=3000,
                      unsettled_recording_plugins_enabled_at_pre_disabled_at_post_action_time_unjudged=8000,
                      unsettled_recording_plugins_disabled_at_pre_enabled_at_post_action_time_unjudged=8000),
    ),
    assumptions=[
        'plugin actions report failures the way the stock plugins do (TestResult::addFailure with a TestFailure naming the test); actions that throw or leave by longjmp are not generated',
        'LP64 (all redirected pointers are 8 bytes)',
        'the facility is the plugin plus the macro: only tests that run under an installed, enabled SetPointerPlugin are judged for restoration and the limit; tests that call UT_PTR_SET while it is disabled / removed / not installed '
        'are executed (nothing restores their pointers, their entries stay in the process-wide table, a full table fails them) but not judged',
        'after such unrestored redirections the next test under an active plugin is always preceded by the construction of a NEW SetPointerPlugin object (its constructor empties the table); '
        're-activating an OLD plugin object over unrestored entries replays them in the unchanged code too - that history is outside the statement and never generated (runtime guard counter tests_under_an_old_plugin_object_over_unrestored_entries_unjudged stays 0)',
        'a plugin object is replaced by a new one (newPluginObject) only while it is not installed and never while a test is running',
        'enabled flags switched while a test runs: the statement does not say whether "disabled plugins see neither" refers to the flag when the pre action or when the post action is due; a plugin whose flag differs between '
        'those two moments is therefore not judged (counters unsettled_*), everything else is; pointers are judged only when an installed SetPointerPlugin was enabled at every redirection of the test and from the first to the last post action; '
        'a plugin whose actions switch flags is never itself switched in that test (runtime guard counter tests_unjudged_a_plugin_that_switches_flags_was_itself_switched stays 0); '
        'chain operations (install / remove) are still only issued between tests, never from inside a test or an action; an old SetPointerPlugin object is never switched on over unrestored entries',
        'plugin names are unique within a chain and never "null" (the name of the internal terminator plugin: removePluginByName("null") detaches the terminator - observed, outside the statement)',
        'a plugin object is installed at most once at a time; runs through the command line runner pass -e (with the default "rethrow unexpected exceptions" a throwing test ends the whole run before any post action)',
        'ignored tests, filters and separate-process mode are not generated (the statement quantifies over tests that run in-process)',
    ],
)
