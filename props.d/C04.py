P = dict(
    harness='c04_leakacct.cpp',
    variants=dict(quick=['asan', 'memcheck'], thorough=['asan', 'asan-noguard', 'memcheck']),
    memcheck_stride=dict(quick=40, thorough=40),
    level='exploration',
    technique='runtime monitoring: std::map reference model of the outstanding-block set compared with the real MemoryLeakDetector after every operation of generated allocation histories '
              '(totals for all four periods, parsed report entries, failure callbacks, invalidateMemory identity probe, final drain), arena allocator with chosen address residues mod 73, ASan/UBSan build with manual arena poisoning',
    rule='cases: one history each of alloc(new/new[]/malloc x inline/separate node) / free(live, stale, foreign, interior, NULL, cleared, mismatched) / realloc(grow, shrink, NULL, non-live, failing) / enable / disable / start / stopChecking / '
         'stage +/- / stage release / clearAllAccounting(p) / mark / report(p) against a private detector, driven directly or through the global operator new/delete and cpputest_malloc/realloc/free entry points, on libc or arena addresses; '
         'two exhaustive sections enumerate all removal orders out of chains of 1..5 blocks and all period/stage assignments of 1..6 chained blocks under every bulk operation. '
         'Non-trivial = the model reached >= 3 blocks in one hash bucket and removed a non-head node, or the period changed while blocks were live; distinct by (mode, set of operation-kind 3-grams)',
    floor=dict(quick=30000, thorough=150000),
    counter_floor=dict(
        quick=dict(totals_compared=400000, report_entries_checked=50000, reports_complete_ge3=5000, removal_chain_middle=5000, removal_chain_tail=5000, removal_chain_head=5000,
                   probes_tracked=100000, callback_nonallocated=2000, op_stage_release=1000, op_mark=1000, period_change_with_live_blocks=5000, cases_chain_ge10=200),
        thorough=dict(totals_compared=4000000, report_entries_checked=200000, reports_complete_ge3=20000, removal_chain_middle=100000, removal_chain_tail=50000, removal_chain_head=50000,
                      probes_tracked=1000000, callback_nonallocated=50000, op_stage_release=5000, op_mark=20000, period_change_with_live_blocks=100000, cases_chain_ge30=500)),
    stall_s=60, confirm_s=30, max_resumes=6,
    assumptions=['the period query "enabled" includes blocks stamped "checking" (checking is a sub-period of enabled), "all" includes everything, "disabled" only blocks stamped disabled',
                 'a reallocation is a release plus an allocation under the current period/stage/location with a fresh allocation number; a failed platform realloc leaves the original block outstanding',
                 'alloc/free of one block use the same node-layout flag; realloc through the global entry points only on malloc-family blocks',
                 'report order is not judged; truncated reports are judged on the footer total and on the entries present',
                 'CPPUTEST_DISABLE_HEAP_POISON not defined (identity probe uses invalidateMemory)'],
)
