P = dict(
    harness='c11_sepprocess.cpp',
    variants=['asan'],
    nosig=True,
    stall_s=120,
    confirm_s=45,
    level='fault_enumeration',
    technique='runtime monitoring with fault enumeration: real fork() children killed by every signal 1..31 at every crash point, exit statuses, stop/continue, with a recording wrapper at the PlatformSpecificFork/WaitPid seams; complete EINTR^k (k=0..40) and generated fork/waitpid outcome scripts with synthetic status words; oracle = the statement\'s decision table applied to independently decoded status words; ASan/UBSan build without signal handlers',
    rule='cases: (signal 1..31 x crash point in constructor/setup/body/teardown/destructor/plugin pre/plugin post) complete; exit statuses via exit/_exit at random crash points; mixed programs of failing checks, abort, null write, 1..3 SIGSTOPs followed by pass/fail/kill/exit; '
         'scripted waitpid sequences EINTR^k + {exit 0, exit N, signaled, errno, stopped} for k=0..40 complete, and generated scripts (<=5 EINTR, 0..4 stop events, terminal status or errno, fork failure, garbage after the terminal item) each followed by 0..3 normally completing tests. '
         'The EINTR bound is learned per case from an EINTR-only script. Non-trivial = every case except plain exit 0; distinct by (signal, crash point) / status / plan sequence / script',
    floor=dict(quick=1500, thorough=20000),
    counter_floor=dict(quick=dict(real_children_forked=800, scripted_stop_events=500, signal_deaths_observed=150), thorough=dict(real_children_forked=5000)),
    assumptions=['Linux status word layout (independent decoder in the harness)', 'SIGTSTP/SIGTTIN/SIGTTOU may be discarded by the kernel in an orphaned process group: the oracle follows the recorded wait results',
                 'generated scripts keep the total number of EINTRs at 5 or below the learned bound; whether the retry budget is per wait or cumulative is not judged',
                 'a hang of the parent is reported only after the driver re-ran the single case and it hung again (otherwise inconclusive)'],
)
