P = dict(
    harness='c11_sepprocess.cpp',
    variants=['asan'],
    nosig=True,
    stall_s=120,
    confirm_s=45,
    level='fault_enumeration',
    technique='runtime monitoring with fault enumeration: real fork() children killed by every signal 1..31 at every crash point, exit statuses, stop/continue, with a recording wrapper at the PlatformSpecificFork/WaitPid seams; complete EINTR^k (k=0..40) and generated fork/waitpid outcome scripts with synthetic status words; oracle = the statement\'s decision table applied to independently decoded status words; the dying test is an ordinary TEST or an IGNORE_TEST run because of "run ignored", separate-process execution is requested through the registry or per shell, and the registry is run once or twice; two logical monitors stand in for the wall-clock watchdog: a deadly action about to be executed in the process that called runAllTests() is skipped and reported (test not isolated), and the wait seam records the options of every wait and reports a stop event that arrives at a wait which did not ask for stop notifications (then delivers it, so the run ends); ASan/UBSan build without signal handlers',
    rule='cases: (signal 1..31 x crash point in constructor/setup/body/teardown/destructor/plugin pre/plugin post) complete; exit statuses via exit/_exit at random crash points; mixed programs of failing checks, abort, null write, 1..3 SIGSTOPs followed by pass/fail/kill/exit; '
         'every real-fork case draws: shell kind per test (TEST / IGNORE_TEST, 25 %), registry "run ignored" on/off (forced on when the subject of the case is an IGNORE_TEST), request via registry flag or per-shell flag (15 %), one or two runAllTests passes over the same registry (20 %); an IGNORE_TEST that is not run is only required to add nothing; '
         'scripted waitpid sequences EINTR^k + {exit 0, exit N, signaled, errno, stopped} and stopped + EINTR^k + stopped + exit 0 for k=0..40 complete, and generated scripts (<=5 EINTR, 0..4 stop events, terminal status or errno, fork failure, garbage after the terminal item) each followed by 0..3 normally completing tests. '
         'The EINTR bound is learned per case from an EINTR-only script. Non-trivial = every case except plain exit 0; distinct by (signal, crash point) / status / plan sequence / script',
    floor=dict(quick=1500, thorough=20000),
    counter_floor=dict(quick=dict(real_children_forked=800, scripted_stop_events=500, signal_deaths_observed=150, ignored_tests_run_ignored_with_a_deadly_action=40, passes_judged_second=20, cases_separate_process_requested_per_shell=20,
                                  scripted_children_stopped_more_than_once=300, scripted_waits_after_a_reported_stop_asking_for_stops=1500, real_children_stopped_more_than_once=10),
                       thorough=dict(real_children_forked=5000, ignored_tests_run_ignored_with_a_deadly_action=300, passes_judged_second=200, cases_separate_process_requested_per_shell=150,
                                     scripted_children_stopped_more_than_once=5000, scripted_waits_after_a_reported_stop_asking_for_stops=20000, real_children_stopped_more_than_once=100)),
    assumptions=['Linux status word layout (independent decoder in the harness)', 'SIGTSTP/SIGTTIN/SIGTTOU may be discarded by the kernel in an orphaned process group: the oracle follows the recorded wait results',
                 'generated scripts keep the total number of EINTRs at 5 or below the learned bound; whether the retry budget is per wait or cumulative is not judged',
                 'a hang of the parent is reported only after the driver re-ran the single case and it hung again (otherwise inconclusive)',
                 'kernel model used at the wait seam: a stop is reported only to a wait whose options include WUNTRACED, and a stopped child that nobody continues never ends; a wait without WUNTRACED is not flagged unless a stop event actually arrives at it',
                 'a deadly action (terminating/stopping signal, exit, _exit, abort, null write) that would execute in the process running the registry is judged as the loss of the runner without executing it; non-deadly tests that were not given a child are reported under their own key (test-not-given-a-child-process)',
                 'the command-line spelling of the configuration (-p, -ri, -rN) is C12\'s business; here the registry API is driven directly'],
)
