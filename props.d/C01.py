P = dict(
    harness='c01_lifecycle.cpp',
    variants=['asan', 'asan-noexc', 'memcheck'],
    memcheck_stride=dict(quick=20, thorough=20),
    level='exploration',
    technique='runtime monitoring: generated test programs executed by the real framework and by a sequential reference interpreter '
              '(trace, printed failures, summary, counters, runner return value compared), jump-buffer depth / current-test hooks after every test, '
              'ASan/UBSan builds with and without C++ exceptions',
    rule='cases: generated programs (0..40 tests, thorough up to 300; setup/body/teardown scripts of marks, passing checks, failing C++-style and C-style checks, '
         'std/foreign exceptions, prints, TEST_EXIT; plugin-reported errors; IGNOREd tests; filters; 1..4 repetitions with repetition-dependent failures), '
         'always including blocks of 12..16 (thorough 25..40) consecutive failing tests; run through a private registry, through CommandLineTestRunner::runAllTestsMain '
         'and as a forked RUN_ALL_TESTS process, plain and nested inside an outer test; a quarter of the programs in the crash-on-fail configuration (UtestShell::setCrashOnFail() before the run, or -f on the command line) '
         'with a crash method that returns; plus the complete table of (setup, body, teardown) outcome triples x 13 consecutive tests x {default terminators, crash-on-fail by API, crash-on-fail by -f}. '
         'Non-trivial = program in which at least one phase fails a check or throws; distinct by the sequence of per-test (setup, body, teardown) outcome triples over all repetitions',
    floor=dict(quick=1500, thorough=8000),
    counter_floor=dict(
        quick=dict(programs_with_failing_run_longer_than_jump_buffer_stack=1500, depth_checks_after_test=50000, process_runs=100, failed_flag_checks=50000, summaries_parsed=5000, runner_returned_zero=50, repetitions_ran_nothing=100,
                   programs_crash_on_fail_with_a_failing_check=1000, programs_crash_on_fail_with_a_failing_check_in_setup=500, programs_crash_on_fail_set_by_flag_f=300, programs_crash_on_fail_set_by_api=500, crash_hook_calls=20000),
        thorough=dict(programs_with_failing_run_longer_than_jump_buffer_stack=8000, programs_with_failing_run_of_25_or_more=5000, depth_checks_after_test=1000000, process_runs=400, runner_returned_zero=300, repetitions_ran_nothing=500,
                      programs_crash_on_fail_with_a_failing_check=5000, programs_crash_on_fail_set_by_flag_f=2000, crash_hook_calls=100000),
    ),
    assumptions=['Gcc platform (setjmp/longjmp jump-buffer stack of UtestPlatform.cpp)', 'rethrowing of unexpected exceptions is switched off (-e) whenever a program throws',
                 'crash-on-fail (-f / UtestShell::setCrashOnFail()) is exercised only with a crash method that returns (UtestShell::setCrashMethod(): trap-and-continue hook); with the default crash method the process aborts at the first failing check by design. When the hook is called is not judged (counted as evidence only)',
                 'separate-process (-p) and shuffle (-s) runs are outside this check',
                 'the exit status of the forked process is the returned value modulo 256; only the returned value is judged'],
    stall_s=300,
)
