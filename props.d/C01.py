P = dict(
    harness='c01_lifecycle.cpp',
    variants=['asan', 'asan-noexc', 'memcheck'],
    memcheck_stride=dict(quick=20, thorough=20),
    level='exploration',
    technique='runtime monitoring: generated test programs executed by the real framework and by a sequential reference interpreter '
              '(trace, printed failures, summary, counters, runner return value compared), jump-buffer depth / current-test hooks after every test '
              '(also of every enclosing test of a nested run, up to the deepest nesting level the jump-buffer stack allows), histories of command-line runner invocations in one process '
              'with the process-wide configuration left as the runner left it, '
              'check counter of the result in use read before every statement (names the statement class that was not counted once when the check count of a repetition is wrong), '
              'ASan/UBSan builds with and without C++ exceptions',
    rule='cases: generated programs (0..40 tests, thorough up to 300; setup/body/teardown scripts of marks, passing checks, failing C++-style and C-style checks, '
         'std/foreign exceptions, prints, TEST_EXIT; plugin-reported errors; IGNOREd tests; filters; 1..4 repetitions with repetition-dependent failures), '
         'always including blocks of 12..16 (thorough 25..40) consecutive failing tests; run through a private registry, through CommandLineTestRunner::runAllTestsMain '
         'and as a forked RUN_ALL_TESTS process, plain and nested inside 1..4 enclosing outer tests (nesting level 2..5 = jump-buffer capacity / 2; never deeper), each outer test a complete test of its own '
         '(setup, body that runs the next level and then completes or fails a C++-style / C-style check, teardown, own registry, result, output and plugin) and judged like one; '
         'histories of 2..3 CommandLineTestRunner invocations in ONE process (own registry and program each, option sets -e/-ci, -f, -v/-vv, -c, -r, -ri, -b, filters drawn independently; every invocation judged by the same per-program model, '
         'static configuration not reset in between), plus the complete table first option set x second option set x {failing C++-style, C-style check, std, foreign exception} x phase; a quarter of the programs in the crash-on-fail configuration (UtestShell::setCrashOnFail() before the run, or -f on the command line) '
         'with a crash method that returns; plus the complete table of (setup, body, teardown) outcome triples x 13 consecutive tests x {default terminators, crash-on-fail by API, crash-on-fail by -f} x {nesting level 1, deepest nesting level}. '
         'Check statements are drawn from a catalogue of 124 check forms covering every check family of UtestShell and of the C interface (true/fail/string/string-n/no-case/contains/longs/unsigned/long long/bytes/pointers/function pointers/doubles/binary/bits/equals/CHECK_THROWS) '
         'with ordinary and with boundary arguments that take the shortcut paths of the family (binary or string-n compare of length 0, both or one operand NULL, prefixes, empty bit mask, zero tolerance, infinities, extreme values), on the passing and on the failing path; '
         'the catalogue is also enumerated completely (every form x phase x registry/runner, failing in one repetition and passing in the other, alone, three times in a row, and in front of a failing check). '
         'Non-trivial = program in which at least one phase fails a check or throws; distinct by the sequence of per-test (setup, body, teardown) outcome triples over all repetitions',
    floor=dict(quick=1500, thorough=8000),
    counter_floor=dict(
        quick=dict(programs_with_failing_run_longer_than_jump_buffer_stack=1500, depth_checks_after_test=50000, process_runs=100, failed_flag_checks=50000, summaries_parsed=5000, runner_returned_zero=50, repetitions_ran_nothing=100,
                   programs_crash_on_fail_with_a_failing_check=1000, programs_crash_on_fail_with_a_failing_check_in_setup=500, programs_crash_on_fail_set_by_flag_f=300, programs_crash_on_fail_set_by_api=500, crash_hook_calls=20000,
                   catalogue_forms_enumerated=1400, statement_check_count_deltas_compared=1500000, zero_length_binary_compares_executed=15000, programs_with_a_zero_length_binary_compare_and_a_failing_phase=3000,
                   checks_with_null_operands_executed=60000, boundary_argument_checks_executed=120000, boundary_argument_checks_failing=30000, checks_binary_length_0_passing=6000, checks_throws_ordinary_passing=2500,
                   histories=1500, option_histories_enumerated=1400, history_invocations_with_e_after_an_invocation_without_e=800, history_invocations_with_e_and_an_escaping_exception_after_an_invocation_without_e=400,
                   history_invocations_without_f_after_an_invocation_with_f=250, history_later_invocations_with_a_failing_phase=1500,
                   programs_at_deepest_nesting_level=2000, programs_at_deepest_nesting_level_with_a_failing_c_style_check=900, programs_at_deepest_nesting_level_with_a_failing_cpp_style_check=900,
                   programs_at_deepest_nesting_level_whose_enclosing_test_fails_afterwards=1000, test_executions_at_deepest_nesting_level=50000, outer_tests_judged=9000),
        thorough=dict(programs_with_failing_run_longer_than_jump_buffer_stack=8000, programs_with_failing_run_of_25_or_more=5000, depth_checks_after_test=1000000, process_runs=400, runner_returned_zero=300, repetitions_ran_nothing=500,
                      programs_crash_on_fail_with_a_failing_check=5000, programs_crash_on_fail_set_by_flag_f=2000, crash_hook_calls=100000,
                      catalogue_forms_enumerated=1400, statement_check_count_deltas_compared=10000000, zero_length_binary_compares_executed=100000, programs_with_a_zero_length_binary_compare_and_a_failing_phase=20000,
                      checks_with_null_operands_executed=400000, boundary_argument_checks_executed=800000, boundary_argument_checks_failing=200000, checks_binary_length_0_passing=40000, checks_throws_ordinary_passing=15000,
                      histories=5000, option_histories_enumerated=1400, history_invocations_with_e_after_an_invocation_without_e=2500, history_invocations_with_e_and_an_escaping_exception_after_an_invocation_without_e=1200,
                      history_invocations_without_f_after_an_invocation_with_f=700, history_later_invocations_with_a_failing_phase=5000,
                      programs_at_deepest_nesting_level=4000, programs_at_deepest_nesting_level_with_a_failing_c_style_check=2000, programs_at_deepest_nesting_level_with_a_failing_cpp_style_check=2000,
                      programs_at_deepest_nesting_level_whose_enclosing_test_fails_afterwards=2000, test_executions_at_deepest_nesting_level=100000, outer_tests_judged=20000),
    ),
    assumptions=['Gcc platform (setjmp/longjmp jump-buffer stack of UtestPlatform.cpp)', 'rethrowing of unexpected exceptions is switched off (-e / -ci on the invocation\'s OWN command line) whenever a program throws; earlier invocations of a history may or may not have passed it. '
                 'An exception that leaves runAllTestsMain is recorded by the harness and reported only together with a stated clause (trace, summaries)',
                 'histories consist of command-line runner invocations only (a bare TestRegistry run does not set the rethrow flag, so after an invocation without -e it rethrows by design); crash-on-fail stays on after an invocation with -f (the runner never switches it off): '
                 'the returning crash hook stays installed for the whole history and the model is the same with and without it',
                 'nesting depth is bounded by the jump-buffer stack (CppUTestVerif_JumpBufferCapacity() / 2 levels, two entries per level); deeper nesting is undefined in the unchanged code and never generated. '
                 'Failures of a nested run belong to the nested run\'s own TestResult: an enclosing test fails only through its own check',
                 'crash-on-fail (-f / UtestShell::setCrashOnFail()) is exercised only with a crash method that returns (UtestShell::setCrashMethod(): trap-and-continue hook); with the default crash method the process aborts at the first failing check by design. When the hook is called is not judged (counted as evidence only)',
                 'separate-process (-p) and shuffle (-s) runs are outside this check',
                 '"true number of checks" = one per executed check macro whatever its arguments and verdict; CHECK_COMPARE is left out of the catalogue (its passing path does not call into the framework, so the tree counts 0 for it: recorded as an observation, not judged)',
                 'failing checks are written through the *_LOCATION macros (synthetic file:line), passing ones also through the plain macros; what a single statement adds to the check counter is only used to name the culprit of a wrong repetition total, never judged by itself',
                 'the exit status of the forked process is the returned value modulo 256; only the returned value is judged'],
    stall_s=300,
)
