P = dict(
    harness='c09_values.cpp',
    variants=['asan', 'memcheck'],
    memcheck_stride=dict(quick=100, thorough=40),
    level='exploration',
    technique='runtime monitoring: reference-model oracle (__int128 value semantics) over the complete boundary lattice of all 36 integer type pairs plus random 64-bit values; by-reference values (strings, memory buffers) judged by libc strcmp/memcmp on the storage at comparison time over histories that rewrite the storage between set and compare; ASan/UBSan build',
    rule='cases: (type A, value A, type B, value B) for MockNamedValue::equals in both directions, (stored type, value, getter) inside a fixture test, double (a, b, tolerance) triples and a cross-type kind table; '
         'by-reference histories: kind (string | memory buffer) x storage layout (separate | shared | overlapping at offset 1-3, either side constant or both rewritten) x 1-4 rounds of '
         '[0-2 rewrites of the storage (same bytes, equal to / prefix of / extension of / one byte off the other side, extended behind the old terminator, truncated, same length other content, '
         'a byte behind the given buffer length, random incl. zero and high-bit bytes), optional re-set (other buffer size), equals() 1-3 times in both directions (alternating, or all calls of one direction first), directly or through copies of the value objects], '
         'value objects primed with an earlier value of another type; the same scenario through expectOneCall(...).withParameter / withStringParameter / withMemoryBufferParameter, '
         '0-2 rewrites, actualCall inside a fixture (pass/fail judged); '
         'one value object set several times: 1-4 earlier set calls (double with one of 8 explicit tolerances, double without, the six integer types, bool, string, pointer, memory buffer, object) then a final set (double without tolerance | double with tolerance | integer): the object must equal a fresh object that got only the final set in type, text, tolerance (default 0.005 when none is given), value, and in equals() against probes at 0.5x / 1.5x of every tolerance of the table and against the six integer types at value-1..value+1; '
         'the four lattice sections are enumerated completely. Non-trivial = integer pair/getter value outside int range or straddling a sign boundary, double pair with inf/NaN or within 2x tolerance, cross-type pair of different kinds or memory buffers, by-reference history with a comparison after a rewrite or with shared/overlapping storage; '
         'distinct by (types, values)',
    floor=dict(quick=5000, thorough=50000),
    counter_floor=dict(
        quick=dict(reuse_double_probes_equal_after_an_earlier_explicit_tolerance=3000, reuse_double_probes_unequal_after_an_earlier_explicit_tolerance=3000, reuse_int_probes=8000, byref_comparisons_string_storage_rewritten_to_another_length=3000, byref_comparisons_content_equal_after_rewrite_to_another_length=1000,
                   byref_comparisons_content_differs_after_rewrite_to_another_length=2000, byref_comparisons_string_one_side_a_proper_prefix_of_the_other=1200,
                   byref_comparisons_string_fresh_storage=700, byref_comparisons_memory_storage_rewritten_with_other_content_of_the_same_length=2000,
                   byref_comparisons_memory_same_length_with_zero_bytes=1500, byref_comparisons_shared_storage=1500, byref_comparisons_overlapping_storage=1500,
                   byref_comparisons_repeated_on_the_same_pair=6000, byref_comparisons_with_consecutive_calls_in_one_direction=6000, byref_comparisons_through_copied_value_objects=1500,
                   mock_byref_calls_content_equal=400, mock_byref_calls_content_differs=700, mock_byref_calls_content_equal_after_rewrite_to_another_length=100,
                   mock_byref_calls_content_differs_after_rewrite_to_another_length=200),
        thorough=dict(reuse_double_probes_equal_after_an_earlier_explicit_tolerance=150000, reuse_double_probes_unequal_after_an_earlier_explicit_tolerance=150000, reuse_int_probes=400000, byref_comparisons_string_storage_rewritten_to_another_length=200000, byref_comparisons_content_equal_after_rewrite_to_another_length=60000,
                      byref_comparisons_content_differs_after_rewrite_to_another_length=130000, byref_comparisons_string_one_side_a_proper_prefix_of_the_other=70000,
                      byref_comparisons_string_fresh_storage=40000, byref_comparisons_memory_storage_rewritten_with_other_content_of_the_same_length=130000,
                      byref_comparisons_memory_same_length_with_zero_bytes=90000, byref_comparisons_shared_storage=100000, byref_comparisons_overlapping_storage=100000,
                      byref_comparisons_repeated_on_the_same_pair=340000, byref_comparisons_with_consecutive_calls_in_one_direction=340000, byref_comparisons_through_copied_value_objects=100000,
                      mock_byref_calls_content_equal=10000, mock_byref_calls_content_differs=20000, mock_byref_calls_content_equal_after_rewrite_to_another_length=3000,
                      mock_byref_calls_content_differs_after_rewrite_to_another_length=6000)),
    assumptions=['LP64 (long = 64 bit)', 'NULL C strings in values are not judged', 'negative double tolerances are not judged', 'the value a re-used object denotes is the one of its last set call; setValue(double) without a tolerance means the default tolerance (MockNamedValue::defaultDoubleTolerance)',
                 'a string / memory-buffer value holds the caller\'s pointer: "content" is what the storage holds when equals() runs (or, through the mock, when the actual parameter is passed); '
                 'the storage stays alive and NUL-terminated within its capacity for the whole history',
                 'through the mock only pass / fail of the test is judged, not the failure text'],
)
