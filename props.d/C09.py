P = dict(
    harness='c09_values.cpp',
    variants=['asan', 'memcheck'],
    memcheck_stride=dict(quick=100, thorough=40),
    level='exploration',
    technique='runtime monitoring: reference-model oracle (__int128 value semantics) over the complete boundary lattice of all 36 integer type pairs plus random 64-bit values, ASan/UBSan build',
    rule='cases: (type A, value A, type B, value B) for MockNamedValue::equals in both directions, (stored type, value, getter) inside a fixture test, double (a, b, tolerance) triples and a cross-type kind table; '
         'the four lattice sections are enumerated completely. Non-trivial = integer pair/getter value outside int range or straddling a sign boundary, double pair with inf/NaN or within 2x tolerance, cross-type pair of different kinds or memory buffers; '
         'distinct by (types, values)',
    floor=dict(quick=5000, thorough=50000),
    assumptions=['LP64 (long = 64 bit)', 'NULL C strings in values are not judged', 'negative double tolerances are not judged'],
)
