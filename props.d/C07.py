P = dict(
    harness='c07_leakverdict.cpp',
    variants=['asan'],
    level='exploration',
    technique='runtime monitoring: generated programs of scripted tests run through a private registry with the real MemoryLeakWarningPlugin on the global detector and the real overloaded operators; '
              'independent ledger oracle (per test: blocks allocated in it and still outstanding, declared expectation, ignore flag, own failures) decides verdict, report content and blame; ASan/UBSan build',
    rule='cases: whole programs of 1..12 (thorough ..40) tests, each with setup/body/teardown scripts over {alloc(12 operator/malloc kinds) into a slot table shared by all tests, free(slot) incl. blocks of earlier tests, '
         'realloc, realloc with a failing platform realloc, failing checks of 5 kinds, a failure recorded by another plugin in its pre/post action, EXPECT_N_LEAKS(n), IGNORE_ALL_LEAKS_IN_TEST, passing check, temporary block}, 1..3 repetitions of the registry, both overload sets; '
         'verdict_matrix enumerates completely (#leaked 0..3 x leak phase x expectation unset/0..4 x ignore x own failure none/setup/body/teardown/C-style x released earlier blocks 0..2 x 4 allocation kinds) around a leaking predecessor and clean successors. '
         'Non-trivial = program in which some test releases a block of an earlier test while leaving a block of its own outstanding, or executes EXPECT_N_LEAKS(n>0); distinct by program content (hash of all scripts)',
    floor=dict(quick=25000, thorough=350000),
    counter_floor=dict(
        quick=dict(tests_releasing_earlier_and_leaking_own=50000, tests_release_exactly_offsets_leak=15000, verdict_leak_fewer_than_expected=10000, verdict_failed_test_with_outstanding_blocks=15000,
                   verdict_ignore_with_outstanding_blocks=3000, verdict_pass_expected_count_met=8000, report_entries_checked=200000, final_reports_with_leaks=15000, reports_truncated=300,
                   tests_failed_by_other_plugin_with_outstanding_blocks=2000, realloc_failures_injected=8000, programs_threadsafe_overloads=2000, programs_repeated=2000),
        thorough=dict(tests_releasing_earlier_and_leaking_own=700000, tests_release_exactly_offsets_leak=200000, verdict_leak_fewer_than_expected=150000, verdict_failed_test_with_outstanding_blocks=200000,
                      verdict_ignore_with_outstanding_blocks=40000, verdict_pass_expected_count_met=100000, report_entries_checked=3000000, final_reports_with_leaks=200000, reports_truncated=4000,
                      tests_failed_by_other_plugin_with_outstanding_blocks=30000, realloc_failures_injected=100000, programs_threadsafe_overloads=30000, programs_repeated=30000)),
    assumptions=['realloc counts as release of the old block plus allocation of a new one inside the test that calls it (new allocation number), as in ISO C',
                 'a block whose platform realloc failed is still the same outstanding block of the test that allocated it',
                 'reports beyond the capacity of the detector\'s fixed text buffer may be cut off ("Too many memory leaks"): then the listed blocks must be a subset and the footer total exact',
                 'leak detection switched off (turnOffNewDeleteOverloads) is outside the quantifier and not generated',
                 'allocation kinds and their releases always match (misuse reports are C06)',
                 'FinalReport after the program is compared with the blocks still live (keys final-report:*), following the anchors of the property'],
)
