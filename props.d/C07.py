P = dict(
    harness='c07_leakverdict.cpp',
    variants=['asan', 'memcheck'],
    memcheck_stride=dict(quick=50, thorough=40),
    level='exploration',
    technique='runtime monitoring: generated programs of scripted tests run through a private registry with the real MemoryLeakWarningPlugin on the global detector and the real overloaded operators; '
              'the same programs with the plugin constructed on a detector of its own (scripts allocate through that detector), and with two leak plugins in one registry (one per detector, operations addressed to either, a marker plugin between them attributes each leak failure); '
              'bystander plugins as a dimension of the programs: 1..3 plugins that do nothing but count their own invocations, installed anywhere in the chain (before / after / between the leak plugins, head or tail), each enabled or disabled via TestPlugin::disable - the leak plugin stays installed and enabled, so every demand is unchanged; '
              'independent ledger oracle (per test and plugin: blocks of its detector allocated in the test and still outstanding, declared expectation, ignore flag, failures the test already has) decides verdict, report content and blame; ASan/UBSan build',
    rule='cases: whole programs of 1..12 (thorough ..40) tests, each with setup/body/teardown scripts over {alloc(12 operator/malloc kinds) into a slot table shared by all tests, free(slot) incl. blocks of earlier tests, '
         'realloc, realloc with a failing platform realloc, failing checks of 5 kinds, a failure recorded by another plugin in its pre/post action, EXPECT_N_LEAKS(n), IGNORE_ALL_LEAKS_IN_TEST, passing check, temporary block}, 1..3 repetitions of the registry, both overload sets; '
         'in 30 % of the random programs a plugin at the head of the chain allocates / releases blocks BETWEEN the tests (before the leak plugin opens, after it has closed its window; also releasing what the test just leaked); '
         'verdict_matrix enumerates completely (#leaked 0..3 x leak phase x expectation unset/0..4 x ignore x own failure none/setup/body/teardown/C-style x released earlier blocks 0..2 x 4 allocation kinds x plugin on the global detector / on its own detector) around a leaking predecessor and clean successors; '
         'own_detector_programs / two_leak_plugins_programs draw from the same program space with detector configuration 1 (plugin with its own detector) and 2 (two leak plugins, either chain order); '
         'in 30 % of the random programs (all four random sections) 1..3 bystander plugins sit at one of 6 chain positions each (installed first / just before the (inner) leak plugin / just after it / just before the outer leak plugin / after the leak plugins / installed last = head), 55 % of them disabled; '
         'bystander_plugins_matrix enumerates completely (4 detector/leak-plugin configurations x bystander A at 6 positions x enabled/disabled x bystander B absent or at 6 positions x enabled/disabled x #leaked 0..2 x declaration unset/1 x own failure x code between tests) around a leaking predecessor whose block the subject releases, a clean successor and a sweeper; '
         'two_leak_plugins_matrix enumerates completely (#leaked on each detector 0..2 x declaration to each plugin unset/0..2 x ignore to each x own failure x chain order x released predecessor block none/global/own/both). '
         'Non-trivial = program in which some test releases a block of an earlier test while leaving a block of its own outstanding, or executes EXPECT_N_LEAKS(n>0); distinct by program content (hash of all scripts)',
    floor=dict(quick=25000, thorough=350000),
    counter_floor=dict(
        quick=dict(tests_releasing_earlier_and_leaking_own=50000, tests_release_exactly_offsets_leak=15000, verdict_leak_fewer_than_expected=10000, verdict_failed_test_with_outstanding_blocks=15000,
                   verdict_ignore_with_outstanding_blocks=3000, verdict_pass_expected_count_met=8000, report_entries_checked=200000, final_reports_with_leaks=15000, reports_truncated=300,
                   tests_failed_by_other_plugin_with_outstanding_blocks=2000, realloc_failures_injected=8000, programs_threadsafe_overloads=2000, programs_repeated=2000,
                   programs_plugin_with_own_detector=15000, own_detector_verdicts_with_earlier_tests_blocks_live=40000, own_detector_clean_pass_while_earlier_blocks_live=10000,
                   own_detector_count_met_while_earlier_blocks_live=2000, own_detector_leak_reports_while_earlier_blocks_live=10000, own_detector_final_reports_with_leaks=8000,
                   two_plugins_tests_leaking_on_both_detectors=12000, two_plugins_outer_global_verdict_suppressed_by_inner_leak_failure=4000,
                   two_plugins_outer_own_detector_verdict_suppressed_by_inner_leak_failure=4000, two_plugins_outer_leak_verdict_after_silent_inner=4000,
                   blocks_allocated_between_tests=20000, verdict_pass_while_blocks_allocated_between_tests_live=6000, leak_reports_while_blocks_allocated_between_tests_live=15000,
                   tests_whose_leak_is_released_before_the_next_test_starts=1500,
                   programs_with_disabled_bystander_plugin=15000, programs_repeated_with_disabled_bystander_plugin=1200, leak_failures_delivered_through_disabled_plugin=25000,
                   bystander_disabled_ahead_of_leak_plugin_verdict_leak_more=20000, bystander_disabled_ahead_of_leak_plugin_verdict_leak_fewer=4000, bystander_disabled_ahead_of_leak_plugin_verdict_pass=20000,
                   bystander_disabled_ahead_leak_report_while_earlier_blocks_live=10000, bystander_enabled_ahead_of_leak_plugin_verdict_leak_more=18000, bystander_disabled_behind_leak_plugin_verdict_leak_more=10000),
        thorough=dict(tests_releasing_earlier_and_leaking_own=700000, tests_release_exactly_offsets_leak=200000, verdict_leak_fewer_than_expected=150000, verdict_failed_test_with_outstanding_blocks=200000,
                      verdict_ignore_with_outstanding_blocks=40000, verdict_pass_expected_count_met=100000, report_entries_checked=3000000, final_reports_with_leaks=200000, reports_truncated=4000,
                      tests_failed_by_other_plugin_with_outstanding_blocks=30000, realloc_failures_injected=100000, programs_threadsafe_overloads=30000, programs_repeated=30000,
                      programs_plugin_with_own_detector=100000, own_detector_verdicts_with_earlier_tests_blocks_live=300000, own_detector_clean_pass_while_earlier_blocks_live=60000,
                      own_detector_count_met_while_earlier_blocks_live=15000, own_detector_leak_reports_while_earlier_blocks_live=80000, own_detector_final_reports_with_leaks=60000,
                      two_plugins_tests_leaking_on_both_detectors=100000, two_plugins_outer_global_verdict_suppressed_by_inner_leak_failure=30000,
                      two_plugins_outer_own_detector_verdict_suppressed_by_inner_leak_failure=30000, two_plugins_outer_leak_verdict_after_silent_inner=30000,
                      blocks_allocated_between_tests=250000, verdict_pass_while_blocks_allocated_between_tests_live=80000, leak_reports_while_blocks_allocated_between_tests_live=200000,
                      tests_whose_leak_is_released_before_the_next_test_starts=20000,
                      programs_with_disabled_bystander_plugin=130000, programs_repeated_with_disabled_bystander_plugin=20000, leak_failures_delivered_through_disabled_plugin=600000,
                      bystander_disabled_ahead_of_leak_plugin_verdict_leak_more=450000, bystander_disabled_ahead_of_leak_plugin_verdict_leak_fewer=130000, bystander_disabled_ahead_of_leak_plugin_verdict_pass=250000,
                      bystander_disabled_ahead_leak_report_while_earlier_blocks_live=400000, bystander_enabled_ahead_of_leak_plugin_verdict_leak_more=400000, bystander_disabled_behind_leak_plugin_verdict_leak_more=250000)),
    assumptions=['realloc counts as release of the old block plus allocation of a new one inside the test that calls it (new allocation number), as in ISO C',
                 'a block whose platform realloc failed is still the same outstanding block of the test that allocated it',
                 'reports beyond the capacity of the detector\'s fixed text buffer may be cut off ("Too many memory leaks"): then the listed blocks must be a subset and the footer total exact',
                 'leak detection switched off (turnOffNewDeleteOverloads) is outside the quantifier and not generated',
                 'allocation kinds and their releases always match (misuse reports are C06)',
                 'FinalReport after the program is compared with the blocks still live (keys final-report:*), following the anchors of the property',
                 'a plugin constructed with its own detector (second constructor argument) is "the leak plugin installed" for the blocks tracked by that detector: the property is demanded per plugin on the blocks of its detector (key suffix :plugin-with-own-detector)',
                 'with two leak plugins in one registry, a leak failure added by the plugin whose post action runs first counts as "the test already failed" for the other (this is what failureCount_ implements and what the last clause of the property says)',
                 'verdict_* counters are per plugin verdict: a test under two leak plugins contributes two',
                 'a block allocated between two tests (outside every leak-plugin window) belongs to no test and must not appear in any per-test verdict or report; a block a test leaked stays that test\'s leak when it is released after the test has ended',
                 '"with the leak plugin installed" holds whenever the leak plugin is in the registry\'s chain and enabled, whatever other plugins (enabled or disabled) are installed before or after it: bystander plugins change no demand (a missing verdict of a leak plugin that sits behind a disabled plugin gets the key suffix :leak-plugin-behind-a-disabled-plugin)',
                 'whether a disabled bystander receives actions, and whether an enabled one receives all of them, is C17\'s property: counted (bystander_actions_received_while_disabled, bystander_enabled_action_count_differs_from_tests_run), never flagged here; a DISABLED leak plugin is outside the quantifier and not generated'],
)
