import os

P = dict(
    harness='c14_diagnostics.cpp',
    variants=['asan', 'memcheck'],
    memcheck_stride=dict(quick=100, thorough=40),
    level='exploration',
    technique='runtime monitoring: ASan/UBSan build with operands in exact-size heap blocks, independent first-difference / rendering oracle for every *Failure class (direct and through the macros), '
              'guarded canary + termination/length monitor on the leak detector\'s 4096-byte text buffer after every operation of generated misuse/leak/report histories, '
              'model-based parse of reports begun on a cleared buffer',
    rule='cases: (failure class, operand pair, relation) built directly and through the macro inside a fixture; detector histories (misuse reports of the three kinds with file names 0..300 chars, '
         'startChecking, leaks of size 0..200 through the new/new[]/malloc allocators, releases, repeated reports; cleared-buffer reports whose full length is write-limit+delta for delta=-160..160; up to 5000 leaks). '
         'Non-trivial = operand pair that is unequal but whose printed forms coincide (escape text vs control/high-bit byte, doubles beyond the printed precision, masked bits outside the shown width, identical printed operands), '
         'or a history whose text reached the write limit / the 4095-byte capacity (entries dropped, exact fit, accumulated misuse text); distinct by (class, operand bytes) resp. history shape string',
    floor=dict(quick=6000, thorough=150000),
    max_resumes=8,      # a defect that aborts most cases (e.g. D2) is reported after a few deaths per process instead of 25 restarts each
    counter_floor=dict(
        quick=dict(canary_consulted=50000, misuse_callbacks=20000, report_texts_measured=2500, cleared_reports_fully_parsed=1500, cleared_reports_with_dropped_entries=300,
                   position_lines_checked=20000, texts_at_full_capacity_4095=1000),
        thorough=dict(canary_consulted=1500000, misuse_callbacks=600000, report_texts_measured=60000, cleared_reports_fully_parsed=30000, cleared_reports_with_dropped_entries=8000,
                      position_lines_checked=600000, texts_at_full_capacity_4095=30000),
    ),
    # VERIF_C14_EXT=1 also judges what DESIGN.md lists as mutants but the property text does not state
    # (placement of the 20-character marker window; report tail cut at the buffer end). Counted as obs_* / window_* otherwise.
    env={'VERIF_C14_EXT': os.environ.get('VERIF_C14_EXT', '0')},      # default off; `VERIF_C14_EXT=1 python3 vcheck.py C14` turns the ext:* keys on
    assumptions=['LP64, glibc printf for %p', 'operands of a failing check are unequal by the check\'s own equality (identical operands only for CheckEqualFailure, whose operands are printed forms)',
                 'the sign of an infinite double operand is not demanded in the rendering',
                 'reports begun on a non-empty buffer are judged for boundedness only (property text)'],
)
