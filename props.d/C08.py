P = dict(
    harness='c08_mockverdict.cpp',
    variants=['asan'],
    level='exploration',
    technique='runtime monitoring: multiset/first-deviation reference model over generated mock scenarios (expectation sets x actual call sequences) run inside fixture tests with the default reporter, MockSupportPlugin and a recording reporter; '
              'unique return values / output bytes per expectation identify the consumed expectation; ASan/UBSan build',
    rule='cases: (1..4 functions with typed signatures incl. object / output parameter / ignoreOtherParameters / overloads, 1..6 expectations with counts 0..3, scopes, ignoreOtherCalls, strict order on/off, '
         'actual call sequence = permutation of the expanded expectations with at most one injected deviation, or a random sequence, or the same with the parameter passing order permuted). '
         'Non-trivial = at least two open expectations on one function that differ in a parameter or object AND an actual call order different from expectation order; distinct by (expectation classes with counts, call sequence with values, flags)',
    floor=dict(quick=20000, thorough=300000),
    counter_floor=dict(quick=dict(return_values_checked=100000, output_parameters_checked=30000, verdict_pass=20000, model_call_level_deviation=20000, model_end_of_test_failure=5000),
                       thorough=dict(return_values_checked=500000, output_parameters_checked=100000, verdict_pass=100000, model_call_level_deviation=200000, model_end_of_test_failure=50000)),
    assumptions=['scenarios are generated inside the unambiguous-matching precondition (a call never equals two different expectation classes); scenarios the model cannot decide are skipped and counted',
                 'an object is passed by the actual call iff the expectations of that function name one',
                 'integer parameters are passed with the declared type (cross-type integer equality is C09)',
                 'strict order is judged per mock scope (each MockSupport scope has its own order counter)',
                 'which parameter an "unexpected parameter value" diagnosis blames is only required to be a parameter that really differs from some open expectation'],
)
