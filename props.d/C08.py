P = dict(
    harness='c08_mockverdict.cpp',
    variants=['asan', 'memcheck'],
    memcheck_stride=dict(quick=50, thorough=40),
    level='exploration',
    technique='runtime monitoring: multiset/first-deviation reference model over generated mock scenarios (expectation sets x actual call sequences) run inside fixture tests with the default reporter, MockSupportPlugin and a recording reporter, as the first test of a run or after 1..3 earlier (passing / failing) tests of the same run; '
              'unique return values / output bytes per (expectation, output parameter) identify the consumed expectation; ASan/UBSan build',
    rule='cases: (1..4 functions with typed signatures incl. object / 0..3 output parameters (bytes 1..8, zero-sized, unmodified, typed; passed at any position of the call) / ignoreOtherParameters / overloads, 1..6 expectations with counts 0..3, scopes, ignoreOtherCalls, strict order on/off, '
         'actual call sequence = permutation of the expanded expectations with at most one injected deviation, or a random sequence, or the same with the parameter passing order permuted; the scenario is the first test of its run or follows 1..3 earlier tests (passing, failing without mocks, failing at a mock call, failing with an unfulfilled expectation) whose own verdicts are judged too). '
         'Non-trivial = at least two open expectations on one function that differ in a parameter or object AND an actual call order different from expectation order; distinct by (expectation classes with counts, call sequence with values, flags)',
    floor=dict(quick=20000, thorough=300000),
    counter_floor=dict(quick=dict(return_values_checked=100000, output_parameters_checked=30000, verdict_pass=20000, model_call_level_deviation=20000, model_end_of_test_failure=5000,
                                  calls_with_two_or_more_output_parameters_checked=15000, calls_with_data_output_passed_after_unmodified_or_zero_sized_output=3000,
                                  scenarios_after_a_failed_test_of_the_run_plugin=4000, end_of_test_failures_due_after_a_failed_test_of_the_run_plugin=400),
                       thorough=dict(return_values_checked=500000, output_parameters_checked=100000, verdict_pass=100000, model_call_level_deviation=200000, model_end_of_test_failure=50000,
                                     calls_with_two_or_more_output_parameters_checked=75000, calls_with_data_output_passed_after_unmodified_or_zero_sized_output=15000,
                                     scenarios_after_a_failed_test_of_the_run_plugin=20000, end_of_test_failures_due_after_a_failed_test_of_the_run_plugin=2000)),
    assumptions=['scenarios are generated inside the unambiguous-matching precondition (a call never equals two different expectation classes); scenarios the model cannot decide are skipped and counted',
                 'an object is passed by the actual call iff the expectations of that function name one',
                 'integer parameters are passed with the declared type (cross-type integer equality is C09)',
                 'strict order is judged per mock scope (each MockSupport scope has its own order counter)',
                 'every expectation of a function declares all output parameters of the signature; outside MockSupportPlugin the test asks for the verdict itself (checkExpectations) and the mock is cleared between the tests of a run, as a teardown would',
                 'which parameter an "unexpected parameter value" diagnosis blames is only required to be a parameter that really differs from some open expectation'],
)
