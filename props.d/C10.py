P = dict(
    harness='c10_threads.cpp',
    variants=dict(quick=['tsan', 'asan', 'tsan-noexc'], thorough=['tsan', 'asan', 'tsan-noexc']),
    max_procs=4,
    stall_s=120,
    confirm_s=60,
    level='exploration',
    technique='runtime monitoring under stress: ThreadSanitizer build (race reports parsed and de-duplicated by the driver) and ASan/UBSan build of 2..16 threads running seeded allocation scripts through the real operator new/delete/malloc/realloc/free overloads against a private detector, with the mutex seams wrapped for owner tracking, lock log and yield/sleep injection at acquire/release; post-join conservation/exactness oracle; deterministic misuse-while-locked scenarios observed by the mutex monitor',
    rule='case = one concurrent run (threads in {2,3,4,8[,16]}, 300..5000 operations per thread over new/new[]/nothrow/debug forms, malloc, realloc, cross-thread hand-off of blocks through a mailbox, 0..45% of lock operations perturbed by sched_yield/nanosleep) or one misuse scenario '
         '(entry point in {delete, delete[], free, realloc} x {guard overrun, non-allocated address, family mismatch} x 4 sizes, complete). '
         'Non-trivial = concurrent run whose lock log shows >= 100 hand-offs between different threads, distinct by the hash of the first 64 owner changes (i.e. distinct interleavings actually observed); every misuse scenario',
    floor=dict(quick=40, thorough=300),
    counter_floor=dict(quick=dict(lock_handoffs_between_threads=20000, misuse_scenarios=48), thorough=dict(lock_handoffs_between_threads=500000)),
    assumptions=['TSan only understands the pthread mutex it intercepts (the detector uses one)', 'the statistic malloc_count/countdown in TestHarness_c.cpp is outside "detector state" (cfg/tsan.supp, top frame only)',
                 'interleavings are sampled, not enumerated: the evidence lists hand-offs and distinct owner sequences seen', 'D10 (lock left held when a misuse is reported in thread-safe mode) is a known finding, see known_findings.json'],
)
