P = dict(
    harness='c10_threads.cpp',
    variants=dict(quick=['tsan', 'asan', 'tsan-noexc'], thorough=['tsan', 'asan', 'tsan-noexc']),
    max_procs=4,
    stall_s=120,
    confirm_s=60,
    level='exploration',
    technique='runtime monitoring under stress: ThreadSanitizer build (race reports parsed and de-duplicated by the driver) and ASan/UBSan build of 2..16 threads running seeded allocation scripts through the real operator new/delete/malloc/realloc/free overloads against a private detector, with the mutex seams wrapped for owner tracking, lock log and yield/sleep injection at acquire/release; a mutual-exclusion monitor in every callback the detector makes from inside its accounting code (allocator alloc/free, platform realloc seam) that dwells when the calling thread does not own the detector mutex, so that the overlap a missing lock permits really happens (forced pre-emption; the verdict is the observed overlap, keyed by the entry points that arrived without the lock); post-join conservation/exactness oracle; deterministic misuse-while-locked scenarios observed by the mutex monitor',
    rule='case = one concurrent run (threads in {2,3,4,8[,16]}, 300..5000 operations per thread over new/new[]/nothrow/debug forms, every public release form (plain, sized, nothrow, located placement delete/delete[](void*,file,int|size_t) called directly and, in the builds with exceptions, by the compiler after a constructor threw inside new(file,line) T / T[n]), malloc, calloc, realloc, free with and without location, detector period while the threads run in {enabled, checking, disabled}, cross-thread hand-off of blocks through a mailbox, 0..45% of lock operations perturbed by sched_yield/nanosleep) or one misuse scenario '
         '(entry point in {delete, delete[], free, realloc} x {guard overrun, non-allocated address, family mismatch} x 4 sizes, complete). '
         'Non-trivial = concurrent run whose lock log shows >= 100 hand-offs between different threads, distinct by the hash of the first 64 owner changes (i.e. distinct interleavings actually observed); every misuse scenario',
    floor=dict(quick=40, thorough=300),
    counter_floor=dict(quick=dict(lock_handoffs_between_threads=20000, misuse_scenarios=48, runs_in_detector_period_disabled=10, runs_in_detector_period_checking=10, runs_in_detector_period_enabled=10,
                                  releases_located_placement_form_direct=5000, releases_located_placement_form_after_constructor_throw=1000, releases_sized_form=3000, releases_nothrow_form=3000, realloc_seam_calls_under_lock=5000),
                       thorough=dict(lock_handoffs_between_threads=500000, runs_in_detector_period_disabled=100, runs_in_detector_period_checking=100, runs_in_detector_period_enabled=100,
                                     releases_located_placement_form_direct=100000, releases_located_placement_form_after_constructor_throw=20000, releases_sized_form=50000, releases_nothrow_form=50000, realloc_seam_calls_under_lock=100000)),
    assumptions=['TSan only understands the pthread mutex it intercepts (the detector uses one)', 'the statistic malloc_count/countdown in TestHarness_c.cpp is outside "detector state" (cfg/tsan.supp, top frame only)',
                 'interleavings are sampled, not enumerated: the evidence lists hand-offs and distinct owner sequences seen', 'D10 (lock left held when a misuse is reported in thread-safe mode) is a known finding, see known_findings.json',
                 'a callback from the detector on a thread that does not own the detector mutex is not a violation by itself: the monitor only uses it to dwell (<= ~10 ms, until the first overlap of the run); what is flagged is two threads inside the accounting code at once',
                 'the detector period is set before the threads start and not changed while they run (enable()/disable()/startChecking() are not themselves thread-safe operations of the statement)',
                 'throwing constructors under located new exist only in the builds with exceptions (tsan, asan); the tsan-noexc build calls the located placement delete forms directly'],
)
