_SUPPORT = ['strictOrder', 'expectOneCall', 'expectNoCall', 'expectNCalls', 'actualCall', 'hasReturnValue', 'returnValue',
            'boolReturnValue', 'returnBoolValueOrDefault', 'intReturnValue', 'returnIntValueOrDefault', 'unsignedIntReturnValue',
            'returnUnsignedIntValueOrDefault', 'longIntReturnValue', 'returnLongIntValueOrDefault', 'unsignedLongIntReturnValue',
            'returnUnsignedLongIntValueOrDefault', 'longLongIntReturnValue', 'returnLongLongIntValueOrDefault',
            'unsignedLongLongIntReturnValue', 'returnUnsignedLongLongIntValueOrDefault', 'stringReturnValue',
            'returnStringValueOrDefault', 'doubleReturnValue', 'returnDoubleValueOrDefault', 'pointerReturnValue',
            'returnPointerValueOrDefault', 'constPointerReturnValue', 'returnConstPointerValueOrDefault',
            'functionPointerReturnValue', 'returnFunctionPointerValueOrDefault', 'setBoolData', 'setIntData',
            'setUnsignedIntData', 'setStringData', 'setDoubleData', 'setPointerData', 'setConstPointerData',
            'setFunctionPointerData', 'setDataObject', 'setDataConstObject', 'getData', 'disable', 'enable',
            'ignoreOtherCalls', 'checkExpectations', 'expectedCallsLeft', 'clear', 'crashOnFailure', 'installComparator',
            'installCopier', 'removeAllComparatorsAndCopiers']
_EXPECTED = ['withBoolParameters', 'withIntParameters', 'withUnsignedIntParameters', 'withLongIntParameters',
             'withUnsignedLongIntParameters', 'withLongLongIntParameters', 'withUnsignedLongLongIntParameters',
             'withDoubleParameters', 'withDoubleParametersAndTolerance', 'withStringParameters', 'withPointerParameters',
             'withConstPointerParameters', 'withFunctionPointerParameters', 'withMemoryBufferParameter', 'withParameterOfType',
             'withOutputParameterReturning', 'withOutputParameterOfTypeReturning', 'withUnmodifiedOutputParameter',
             'ignoreOtherParameters', 'andReturnBoolValue', 'andReturnUnsignedIntValue', 'andReturnIntValue',
             'andReturnLongIntValue', 'andReturnUnsignedLongIntValue', 'andReturnLongLongIntValue',
             'andReturnUnsignedLongLongIntValue', 'andReturnDoubleValue', 'andReturnStringValue', 'andReturnPointerValue',
             'andReturnConstPointerValue', 'andReturnFunctionPointerValue']
_ACTUAL = ['withBoolParameters', 'withIntParameters', 'withUnsignedIntParameters', 'withLongIntParameters',
           'withUnsignedLongIntParameters', 'withLongLongIntParameters', 'withUnsignedLongLongIntParameters',
           'withDoubleParameters', 'withStringParameters', 'withPointerParameters', 'withConstPointerParameters',
           'withFunctionPointerParameters', 'withMemoryBufferParameter', 'withParameterOfType', 'withOutputParameter',
           'withOutputParameterOfType', 'hasReturnValue', 'returnValue', 'boolReturnValue', 'returnBoolValueOrDefault',
           'intReturnValue', 'returnIntValueOrDefault', 'unsignedIntReturnValue', 'returnUnsignedIntValueOrDefault',
           'longIntReturnValue', 'returnLongIntValueOrDefault', 'unsignedLongIntReturnValue',
           'returnUnsignedLongIntValueOrDefault', 'longLongIntReturnValue', 'returnLongLongIntValueOrDefault',
           'unsignedLongLongIntReturnValue', 'returnUnsignedLongLongIntValueOrDefault', 'stringReturnValue',
           'returnStringValueOrDefault', 'doubleReturnValue', 'returnDoubleValueOrDefault', 'pointerReturnValue',
           'returnPointerValueOrDefault', 'constPointerReturnValue', 'returnConstPointerValueOrDefault',
           'functionPointerReturnValue', 'returnFunctionPointerValueOrDefault']
# every member of the three C function tables (52 + 31 + 42; the harness static_asserts the counts against the structs)
# must have been called through its table slot, most of them often
_SLOTS = ['slot:support.' + n for n in _SUPPORT] + ['slot:expected.' + n for n in _EXPECTED] + ['slot:actual.' + n for n in _ACTUAL]
_FLOOR_Q = dict((s, 20) for s in _SLOTS)
_ADAPT = ['c_equal_fn_call:%s:%s:%s' % (m, rel, res) for m, rel, res in [
    ('structural', 'same-object', 'equal'), ('structural', 'distinct-objects', 'equal'), ('structural', 'distinct-objects', 'unequal'),
    ('nonreflexive', 'same-object', 'unequal'), ('nonreflexive', 'same-object', 'equal'), ('identity', 'distinct-objects', 'unequal'),
    ('ordered', 'distinct-objects', 'equal'), ('ordered', 'distinct-objects', 'unequal'), ('never', 'same-object', 'unequal'),
    ('always', 'distinct-objects', 'equal')]] + ['c_copy_fn_call:memcpy:dst-differs', 'c_copy_fn_call:xor:dst-differs', 'c_copy_fn_call:xor:dst-is-src',
    'c_copy_fn_call:memcpy:dst-is-src']
_FLOOR_Q.update(execution_pairs=30000, pairs_agree_passing=8000, pairs_agree_failing=8000, output_buffers_compared=4000, data_readbacks_compared=5000)
_FLOOR_Q.update((k, 20) for k in _ADAPT)
_FLOOR_Q.update(c_equal_fn_same_object_judged_unequal=200, c_equal_fn_distinct_objects_judged_equal=200)
_FLOOR_T = dict((s, 200) for s in _SLOTS)
_FLOOR_T.update((k, 20) for k in _ADAPT)
_FLOOR_T.update(c_equal_fn_same_object_judged_unequal=200, c_equal_fn_distinct_objects_judged_equal=200)
_FLOOR_T.update(execution_pairs=500000, pairs_agree_passing=100000, pairs_agree_failing=100000, output_buffers_compared=20000, data_readbacks_compared=20000)

P = dict(
    harness='c19_mockc.cpp',
    variants=['asan'],
    level='exploration',
    technique='runtime monitoring: differential oracle - every generated mocking scenario is executed twice in fresh fixture tests of identical '
              'identity, once through mock(scope) and once through mock_c()/mock_scope_c(scope) and the three C function tables; verdict, failure '
              'text, returned values with type tag, OrDefault results, output-parameter bytes, expectedCallsLeft and data-store read-back are '
              'compared event by event; ASan/UBSan build',
    rule='case = one scenario (list of statements: expectations with typed parameters / output parameters / return value, actual calls with '
         'return-value getters at call level and support level, strict order, ignore/disable/enable, data store, check, clear, comparators and '
         'copiers drawn from the function families of custom_type_adaptor_table, the actual call passing the expectation\'s own object or its twin, typed outputs received into the returned object, crashOnFailure) executed through both interfaces. Sections: forwarder_table (enumerated: every parameter / return type x '
         'boundary lattice x getter x level, output-parameter kinds, tolerance, support-table operations), data_store_table (enumerated), '
         'support_getters_after_ignored_call (enumerated; defect D19, repaired in /repo, its reversal must fire here), custom_type_adaptor_table (enumerated: every member of a '
         'family of user equality functions - structural, non-reflexive, address identity, ordered/asymmetric, never, always with a zero low byte - x every ordered pair of '
         'pool objects including the same object on both sides x one / two candidate expectations x scope; every member of a family of copy functions - memcpy, converting - x '
         'source object, the receiving buffer itself included), random_scenarios (seeded, about half of them failing), random_custom_type_scenarios (the same generator with comparators and copiers always in play and object parameters / typed outputs dominating). '
         'Non-trivial = scenario with an integer value outside int range, or an output parameter, or a failing verdict; distinct by the full '
         'scenario text. Check counters and milliseconds are masked (C returnValue() converts through the checked getters).',
    floor=dict(quick=15000, thorough=250000),
    counter_floor=dict(quick=_FLOOR_Q, thorough=_FLOOR_T),
    assumptions=['LP64 (long = 64 bit, so the long / long long columns are distinct types of equal width)',
                 'C-interface calls for two scopes are never interleaved inside one call chain (the C facade keeps one static current expected / actual call)',
                 'return-value getters are only issued right after the actual call they read (the C facade reads its static actual-call pointer, which dangles after clear)',
                 'removeAllComparatorsAndCopiers is only issued on the root scope while no expectation holds a C comparator node (the C facade owns one global node list)',
                 'C booleans are compared by truth value', 'NULL C strings and NULL object pointers are not generated',
                 'check counters are not compared'],
)
