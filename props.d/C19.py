_SUPPORT = ['strictOrder', 'expectOneCall', 'expectNoCall', 'expectNCalls', 'actualCall', 'hasReturnValue', 'returnValue',
            'boolReturnValue', 'returnBoolValueOrDefault', 'intReturnValue', 'returnIntValueOrDefault', 'unsignedIntReturnValue',
            'returnUnsignedIntValueOrDefault', 'longIntReturnValue', 'returnLongIntValueOrDefault', 'unsignedLongIntReturnValue',
            'returnUnsignedLongIntValueOrDefault', 'longLongIntReturnValue', 'returnLongLongIntValueOrDefault',
            'unsignedLongLongIntReturnValue', 'returnUnsignedLongLongIntValueOrDefault', 'stringReturnValue',
            'returnStringValueOrDefault', 'doubleReturnValue', 'returnDoubleValueOrDefault', 'pointerReturnValue',
            'returnPointerValueOrDefault', 'constPointerReturnValue', 'returnConstPointerValueOrDefault',
            'functionPointerReturnValue', 'returnFunctionPointerValueOrDefault', 'setBoolData', 'setIntData',
            'setUnsignedIntData', 'setStringData', 'setDoubleData', 'setPointerData', 'setConstPointerData',
            'setFunctionPointerData', 'setDataObject', 'setDataConstObject', 'getData', 'disable', 'enable',
            'ignoreOtherCalls', 'checkExpectations', 'expectedCallsLeft', 'clear', 'crashOnFailure', 'installComparator',
            'installCopier', 'removeAllComparatorsAndCopiers']
_EXPECTED = ['withBoolParameters', 'withIntParameters', 'withUnsignedIntParameters', 'withLongIntParameters',
             'withUnsignedLongIntParameters', 'withLongLongIntParameters', 'withUnsignedLongLongIntParameters',
             'withDoubleParameters', 'withDoubleParametersAndTolerance', 'withStringParameters', 'withPointerParameters',
             'withConstPointerParameters', 'withFunctionPointerParameters', 'withMemoryBufferParameter', 'withParameterOfType',
             'withOutputParameterReturning', 'withOutputParameterOfTypeReturning', 'withUnmodifiedOutputParameter',
             'ignoreOtherParameters', 'andReturnBoolValue', 'andReturnUnsignedIntValue', 'andReturnIntValue',
             'andReturnLongIntValue', 'andReturnUnsignedLongIntValue', 'andReturnLongLongIntValue',
             'andReturnUnsignedLongLongIntValue', 'andReturnDoubleValue', 'andReturnStringValue', 'andReturnPointerValue',
             'andReturnConstPointerValue', 'andReturnFunctionPointerValue']
_ACTUAL = ['withBoolParameters', 'withIntParameters', 'withUnsignedIntParameters', 'withLongIntParameters',
           'withUnsignedLongIntParameters', 'withLongLongIntParameters', 'withUnsignedLongLongIntParameters',
           'withDoubleParameters', 'withStringParameters', 'withPointerParameters', 'withConstPointerParameters',
           'withFunctionPointerParameters', 'withMemoryBufferParameter', 'withParameterOfType', 'withOutputParameter',
           'withOutputParameterOfType', 'hasReturnValue', 'returnValue', 'boolReturnValue', 'returnBoolValueOrDefault',
           'intReturnValue', 'returnIntValueOrDefault', 'unsignedIntReturnValue', 'returnUnsignedIntValueOrDefault',
           'longIntReturnValue', 'returnLongIntValueOrDefault', 'unsignedLongIntReturnValue',
           'returnUnsignedLongIntValueOrDefault', 'longLongIntReturnValue', 'returnLongLongIntValueOrDefault',
           'unsignedLongLongIntReturnValue', 'returnUnsignedLongLongIntValueOrDefault', 'stringReturnValue',
           'returnStringValueOrDefault', 'doubleReturnValue', 'returnDoubleValueOrDefault', 'pointerReturnValue',
           'returnPointerValueOrDefault', 'constPointerReturnValue', 'returnConstPointerValueOrDefault',
           'functionPointerReturnValue', 'returnFunctionPointerValueOrDefault']
# every member of the three C function tables (52 + 31 + 42; the harness static_asserts the counts against the structs)
# must have been called through its table slot, most of them often
_SLOTS = ['slot:support.' + n for n in _SUPPORT] + ['slot:expected.' + n for n in _EXPECTED] + ['slot:actual.' + n for n in _ACTUAL]
_FLOOR_Q = dict((s, 20) for s in _SLOTS)
_ADAPT = ['c_equal_fn_call:%s:%s:%s' % (m, rel, res) for m, rel, res in [
    ('structural', 'same-object', 'equal'), ('structural', 'distinct-objects', 'equal'), ('structural', 'distinct-objects', 'unequal'),
    ('nonreflexive', 'same-object', 'unequal'), ('nonreflexive', 'same-object', 'equal'), ('identity', 'distinct-objects', 'unequal'),
    ('ordered', 'distinct-objects', 'equal'), ('ordered', 'distinct-objects', 'unequal'), ('never', 'same-object', 'unequal'),
    ('always', 'distinct-objects', 'equal')]] + ['c_copy_fn_call:memcpy:dst-differs', 'c_copy_fn_call:xor:dst-differs', 'c_copy_fn_call:xor:dst-is-src',
    'c_copy_fn_call:memcpy:dst-is-src']
_FLOOR_Q.update(execution_pairs=30000, pairs_agree_passing=8000, pairs_agree_failing=8000, output_buffers_compared=4000, data_readbacks_compared=5000)
_FLOOR_Q.update((k, 20) for k in _ADAPT)
_FLOOR_Q.update(c_equal_fn_same_object_judged_unequal=200, c_equal_fn_distinct_objects_judged_equal=200)
# kept handles: support-level operations of another scope issued inside an actual-call chain, and what was then read through the handle
_KEPT = {'kept_handle_getters_judged_after_other_scope_selected': 5000, 'kept_handle_returnValue_judged:call-with-return-value': 1500,
         'kept_handle_returnValue_judged:empty-value': 500, 'kept_handle_typed_getter_judged:non-zero': 1000,
         'getter_observed:actual.returnValue:other-scope-selected': 2000,
         'handle_kept_across:getData:other-scope:before-getter': 2000, 'handle_kept_across:getData:other-scope:before-parameter': 500,
         'handle_kept_across:setData:other-scope:before-getter': 1000, 'handle_kept_across:setData:other-scope:before-parameter': 300,
         'handle_kept_across:expectedCallsLeft:other-scope:before-getter': 1000, 'handle_kept_across:expectedCallsLeft:other-scope:before-parameter': 300,
         'handle_kept_across:getData:own-scope:before-getter': 200}
_KEPT.update(('getter_observed:actual.typed.%s:other-scope-selected' % t, 50) for t in
             ['bool', 'int', 'uint', 'long', 'ulong', 'llong', 'ullong', 'double', 'string', 'ptr', 'cptr', 'fptr'])
_FLOOR_Q.update(_KEPT)
# NULL passed as the actual output pointer (C execution), what the user's copy functions saw of it, and what became of those scenarios
_NULLOUT = {'actual_output_pointer_null:raw': 600, 'actual_output_pointer_null:typed': 600, 'null_output_pointer_pairs:agree_passing': 400,
            'null_output_pointer_pairs:agree_failing': 800, 'c_copy_fn_call:memcpy:dst-null': 150, 'c_copy_fn_call:xor:dst-null': 100}
_FLOOR_Q.update(_NULLOUT)
_FLOOR_Q.update({'crash_method_invocations_with_crashOnFailure_left_on:c': 150, 'crash_method_invocations_with_crashOnFailure_left_on:cpp': 150, 'scenarios_with_crash_method_invoked_by_both_after_crashOnFailure_through_a_scope': 100})
_FLOOR_T = dict((s, 200) for s in _SLOTS)
_FLOOR_T.update({'crash_method_invocations_with_crashOnFailure_left_on:c': 1500, 'crash_method_invocations_with_crashOnFailure_left_on:cpp': 1500, 'scenarios_with_crash_method_invoked_by_both_after_crashOnFailure_through_a_scope': 1000})
_FLOOR_T.update((k, 2 * v) for k, v in _KEPT.items())
_FLOOR_T.update((k, 2 * v) for k, v in _NULLOUT.items())
_FLOOR_T.update((k, 20) for k in _ADAPT)
_FLOOR_T.update(c_equal_fn_same_object_judged_unequal=200, c_equal_fn_distinct_objects_judged_equal=200)
_FLOOR_T.update(execution_pairs=500000, pairs_agree_passing=100000, pairs_agree_failing=100000, output_buffers_compared=20000, data_readbacks_compared=20000)

P = dict(
    harness='c19_mockc.cpp',
    variants=['asan', 'memcheck'],
    memcheck_stride=dict(quick=40, thorough=40),
    level='exploration',
    technique='runtime monitoring: differential oracle - every generated mocking scenario is executed twice in fresh fixture tests of identical '
              'identity, once through mock(scope) and once through mock_c()/mock_scope_c(scope) and the three C function tables; verdict, failure '
              'text, returned values with type tag, OrDefault results, output-parameter bytes, expectedCallsLeft and data-store read-back are '
              'compared event by event; the C execution keeps MockActualCall_c handles across support-level operations of other scopes exactly where the C++ execution '
              'keeps the MockActualCall reference; NULL is a boundary value of the actual output pointer wherever the framework itself writes nothing through it; ASan/UBSan build + every 40th case under valgrind memcheck',
    rule='case = one scenario (list of statements: expectations with typed parameters / output parameters / return value, actual calls with '
         'return-value getters at call level and support level, strict order, ignore/disable/enable, data store, check, clear, comparators and '
         'copiers drawn from the function families of custom_type_adaptor_table, actual-call chains in which the handle is kept while the data store / expectedCallsLeft '
         'of another (or the same) scope is consulted before a further parameter or before a return-value getter, the actual call passing the expectation\'s own object or its twin, typed outputs received into the returned object, NULL passed as the actual output pointer (45 % of the output parameters under whose name no expectation of the scenario returns bytes), crashOnFailure switched off, switched on and off again, or switched on through any scope and LEFT on - every execution runs with a counting crash method that returns, and its invocations are events of the compared logs) executed through both interfaces. Sections: forwarder_table (enumerated: every parameter / return type x '
         'boundary lattice x getter x level, output-parameter kinds, tolerance, support-table operations), data_store_table (enumerated), '
         'support_getters_after_ignored_call (enumerated; defect D19, repaired in /repo, its reversal must fire here), custom_type_adaptor_table (enumerated: every member of a '
         'family of user equality functions - structural, non-reflexive, address identity, ordered/asymmetric, never, always with a zero low byte - x every ordered pair of '
         'pool objects including the same object on both sides x one / two candidate expectations x scope; every member of a family of copy functions - memcpy, converting - x '
         'source object, the receiving buffer itself included), kept_handle_table (enumerated: scope of the call x scope of the operation issued in mid-chain - every other scope, '
         'the own scope as control - x getData / set*Data / expectedCallsLeft x before a parameter / before the getter x no return value / every return type x returnValue / typed getter / '
         'hasReturnValue (observed, not judged, while another scope is selected) / support-level returnValue, each followed by one more returnValue() through the handle), null_output_pointer_table (enumerated: the actual call passes NULL as the output pointer - raw / typed of the expected type / typed of another type - x '
         'what the expectation declares under that name: unmodified / returning 0 bytes from a real source / typed returning a pool object / typed returning the object in a receiving buffer / nothing but '
         'ignoreOtherParameters / nothing x copier installed x an input parameter before / after it x scope x one expectation / a rival expectation of the same function without that output and with another return value, '
         'declared first or second / expectNCalls(2) with two calls / a second, real output buffer in the same call; return value and expectedCallsLeft read after every call), random_scenarios (seeded, about half of them failing), random_custom_type_scenarios (the same generator with comparators and copiers always in play and object parameters / typed outputs dominating). '
         'Non-trivial = scenario with an integer value outside int range, or an output parameter, or a failing verdict; distinct by the full '
         'scenario text. Check counters and milliseconds are masked (C returnValue() converts through the checked getters).',
    floor=dict(quick=15000, thorough=250000),
    counter_floor=dict(quick=_FLOOR_Q, thorough=_FLOOR_T),
    assumptions=['LP64 (long = 64 bit, so the long / long long columns are distinct types of equal width)',
                 'C-interface calls for two scopes are never interleaved inside one call chain (the C facade keeps one static current expected / actual call), except for the '
                 'data-store / expectedCallsLeft operations above, which create no expected or actual call',
                 'return-value getters are only issued on the most recent actual call and before anything that creates or destroys an actual call (the C facade reads its static '
                 'actual-call pointer, which moves with the next actualCall and dangles after clear); in between, the handle is kept across getData / set*Data / expectedCallsLeft of any scope',
                 'while another scope than the call\'s is the selected one (mock_c() / mock_scope_c() called for it after the actual call), only returnValue() and the typed getters are read through '
                 'the kept handle and judged: hasReturnValue() and the ...OrDefault getters of MockActualCall_c ask the currently selected mock support in the unchanged tree (they answer for '
                 'the other scope\'s last call: counter unjudged:kept_handle_hasReturnValue_after_other_scope_selected:c-differs), which is the stateful-facade scoping of DESIGN section 5',
                 'removeAllComparatorsAndCopiers is only issued on the root scope while no expectation holds a C comparator node (the C facade owns one global node list)',
                 'C booleans are compared by truth value', 'NULL C strings and NULL object pointers are not generated',
                 'a NULL actual output pointer is only generated for a parameter name under which no expectation of the scenario returns > 0 bytes (withOutputParameterReturning with a non-zero size '
                 'memcpys into the actual pointer through either interface: a crash of the shared core, not a difference); the copy functions of the family ignore a NULL destination, as a user copier '
                 'serving optional outputs must (they are still called with it through both interfaces: counters c_copy_fn_call:*:dst-null); that the adaptor hands the NULL destination to the user\'s copy function is counted, not judged',
                 'check counters are not compared'],
)
