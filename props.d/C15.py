P = dict(
    harness='c15_oominject.cpp',
    variants=dict(quick=['asan', 'memcheck'], thorough=['asan', 'asan-noexc', 'memcheck']),
    memcheck_stride=dict(quick=40, thorough=40),
    level='fault_enumeration',
    technique='runtime monitoring with fault enumeration: set-membership reference model (global index / location x local index / countdown) against FailableMemoryAllocator used directly and installed behind new, new[], malloc/calloc/strdup/strndup, and against the C-level countdown; every allocation point of fixed workloads designated in turn; ASan/UBSan build',
    rule='cases: (a) fault enumeration - 4 fixed workloads x {direct, installed behind all three families} x every single designation (each global index 1..N+2, each (location, local index) incl. one beyond the last) and, for the two 12-allocation workloads, every ordered pair of designations; '
         '(a2) confusable location names - for every position p in 0..272 a pair of file names (designated X / other Y, same line) whose first difference is at p (other character, case of one letter, Y proper prefix of X, X proper prefix of Y; names of 1..282 characters), n in {1,2}, Y designated too or not, direct and installed, fixed interleaving of 4+4 allocations, check, clear, 2 more; '
         '(b) C level - 6 fixed workloads x every countdown 0..N+2 and the direct out-of-memory switch, then set_not_out_of_memory; (b2) three out-of-memory episodes (expiring countdown / direct switch) x each under the standard malloc allocator or one of two failable malloc allocators installed by the test, all 216 combinations; (c) realloc(NULL) while out-of-memory is simulated (child process); '
         '(d) random histories: 0..4 global and 0..4 location designations per allocator in every registration order (duplicates, coincidences, deferred registration), 5..40 allocations over 1..4 of 7 locations (one reachable through two different file pointers, two of them 96/97-character build-tree paths that agree in their first 90 characters), '
         '1..2 allocator instances routed to the three families or used directly, 1..3 phases with checkAllFailedAllocsWereDone / clearFailedAllocs and re-designation after clear; (e) random C-level rounds of countdown / out-of-memory / restore mixed with realloc and free; (f) the same with 2..4 rounds between/before which the test installs another malloc allocator (standard / failable-1 / failable-2 with 0..2 global and 0..1 location designations): every request not answered by the simulated out-of-memory must be answered by the allocator the test put in effect, and by that allocator\'s own designations. '
         'Non-trivial = a history in which one allocator sees >= 2 locations and carries a location designation, or carries >= 2 designations on one location; a C-level history in which a request failed as designated after earlier requests succeeded under the countdown or with realloc mixed in; '
         'distinct by the complete step list',
    floor=dict(quick=4000, thorough=100000),
    counter_floor=dict(
        quick=dict(fault_points_single=150, fault_points_pairs=3000, c_fault_points=80, name_pair_cases=17000, name_pair_common_prefix_64_127=4000, name_pair_common_prefix_128_255=8000, c_allocator_switch_points=216,
                   c_restore_of_episode_under_other_allocator_than_an_earlier_episode=3000, c_request_served_by_failable_in_effect_after_restore=8000, c_failable_in_effect_designation_fired=2000, designated_hit_global=2000, designated_hit_location=2000, designated_hit_both=50,
                   check_reported_unfired=2000, check_report_names_a_pending_designation=2000, check_silent=3000, clears=5000, failed_by_bad_alloc=500, failed_by_null=2000, c_requests_failed_as_designated=2000),
        thorough=dict(fault_points_single=150, fault_points_pairs=3000, c_fault_points=80, name_pair_cases=17000, c_allocator_switch_points=216, c_restore_of_episode_under_other_allocator_than_an_earlier_episode=50000, designated_hit_both=1000, check_reported_unfired=50000, c_requests_failed_as_designated=50000),
    ),
    assumptions=[
        'global designations are registered only while the allocator has seen no request since construction / clearFailedAllocs, location designations only for locations without a request so far (n-th since registration and n-th since clear coincide)',
        'a source location is (file text, line); failed requests count towards the indices',
        'realloc is not part of the FailableMemoryAllocator histories (it never reaches a TestMemoryAllocator); at C level both readings of whether realloc counts towards the countdown are accepted',
        'no free / realloc of a live block while out-of-memory is simulated (cpputest reports an allocator type mismatch there; releases are outside the statement)',
        'the test changes the malloc allocator only while no out-of-memory injection is armed; a failable malloc allocator\'s index is accepted under both readings (requests that reach it / requests made while it is in effect) where they differ',
        'clearing an injection that never reached the out-of-memory state (unexpired countdown, nothing set) while a non-standard malloc allocator is in effect is observed and counted, not judged (unchanged cpputest installs the standard allocator there)',
        'an empty file name is not a source location',
        'throwing forms of new may throw bad_alloc or return NULL',
        'quick tier: exceptions enabled build; thorough tier adds the -fno-exceptions build (throwing forms of new return NULL there)',
    ],
)
