P = dict(
    harness='c02_selection.cpp',
    variants=['asan', 'memcheck'],
    memcheck_stride=dict(quick=50, thorough=40),
    level='exploration',
    technique='runtime monitoring: scripted test shells with per-test execution counters, an independent std::string model of filter acceptance and of the selection rule, '
              'TestResult counters, a recording TestOutput parsed against the callback grammar, and a walk of the registry list after every reverse/shuffle; histories of several CommandLineTestRunner invocations on one registry, each judged against its own command line; ASan/UBSan build',
    rule='cases: a registry (0..60 tests, thorough up to 400; group/name strings from a 16-word alphabet with many substring/equality/case relations; ignored and failing tests mixed) '
         'driven through 1..3 repetitions with group/name filter lists (0..3 each, independent strict/invert flags), run-ignored, reverse, shuffle (boundary and random seeds, real rand() '
         'and hostile rand() values through the PlatformSpecificRand seam), either directly on TestRegistry or through CommandLineTestRunner with an argv, '
         'or through a history of 2..5 CommandLineTestRunner invocations on the same registry (each with its own argv: group / name filter lists present or absent, -ri, -b, -s, -r; '
         'each runner destroyed before the next one as RunAllTests does, or all kept alive), every repetition of every invocation judged against the filters of that invocation only; '
         'three filter tables (one filter x target, two filters x target, group filter x name filter) are enumerated completely. '
         'Non-trivial = at least one filter that accepts some and rejects some tests of the registry, or a reverse/shuffle of >= 3 tests (table cases: every cell); '
         'distinct by (number of tests, filter lists with flags, sequence of order operations / run-ignored; for runner histories the sequence of these per invocation)',
    floor=dict(quick=20000, thorough=200000),
    counter_floor=dict(
        quick={'ops_shuffle': 10000, 'ops_reverse': 3000, 'configurations_with_discriminating_filter': 10000, 'repetitions_with_run_ignored': 3000, 'runner_invocations': 3000,
               'runner_history_later_invocations': 8000, 'later_invocations_without_group_filters_after_one_with': 2000, 'later_invocations_without_name_filters_after_one_with': 2000,
               'later_invocation_repetitions_where_leftover_filters_would_change_the_selection': 3000},
        thorough={'ops_shuffle': 150000, 'ops_reverse': 45000, 'configurations_with_discriminating_filter': 150000, 'repetitions_with_run_ignored': 45000, 'runner_invocations': 45000,
                  'runner_history_later_invocations': 96000, 'later_invocations_without_group_filters_after_one_with': 24000, 'later_invocations_without_name_filters_after_one_with': 24000,
                  'later_invocation_repetitions_where_leftover_filters_would_change_the_selection': 36000},
    ),
    assumptions=[
        'group notifications: balance and nesting of start/end and "a test starts inside a group opened for its own group name" are judged; '
        'the number of group segments (one per maximal run of equal group names) is recorded as evidence only',
        'shuffle: any permutation is accepted (bias, or an element that never moves, is not a violation)',
        'command-line section uses only -g/-sg/-xg/-xsg/-n/-sn/-xn/-xsn/-ri/-b/-s<seed>/-r<n> with non-empty values that do not start with "-" (the parse itself is C12)',
        'separate-process mode (-p) is not exercised here (C11)',
        'runner histories: run-ignored is treated as sticky (once an invocation gave -ri, ignored tests of later invocations on that registry are expected to run: '
        'TestRegistry offers no way to switch it off and the property does not ask for one); the list order is carried over from invocation to invocation; '
        'the same runner object is never asked to run twice',
    ],
)
