P = dict(
    harness='c02_selection.cpp',
    variants=['asan', 'memcheck'],
    memcheck_stride=dict(quick=50, thorough=40),
    level='exploration',
    technique='runtime monitoring: scripted test shells with per-test execution counters, an independent std::string model of filter acceptance and of the selection rule, '
              'TestResult counters, a recording TestOutput parsed against the callback grammar, and a walk of the registry list after every reverse/shuffle; histories of several CommandLineTestRunner invocations on one registry, each judged against its own command line; histories of runs on one live registry driven through its own setters (setGroupFilters / setNameFilters independently of each other, unDoLastAddTest / addTest, reverse / shuffle, setRunIgnored), each run judged against the lists installed and the tests registered at that moment; filter modes requested once or repeatedly on the same TestFilter object, with a differential diagnosis against a filter on which each mode was requested once; the string alphabet is a dimension: ASCII words, or words with bytes >= 0x80 (UTF-8 sequences, single Latin-1 bytes) built so that many filter / name pairs agree up to and including such a byte and differ after it - the (filter, target) pairs of that class that were judged are counted; ASan/UBSan build',
    rule='cases: a registry (0..60 tests, thorough up to 400; group/name strings from a 20-word ASCII-centred alphabet with many substring/equality/case relations or - a quarter of the cases of the filter sections - from a 27-word non-ASCII alphabet ("caf\\xC3\\xA9" / "caf\\xC3\\xA8" / "caf\\xC3" / "caf", "\\xE2\\x82\\xAC" / "\\xE2\\x82\\xAD", "AB\\xFF" / "AB\\xFFA" / "AB\\xFFB", "\\xC3\\xA9" / "C)", 0x7F / 0x80 / 0xFF ...: pairs that share a prefix through a byte >= 0x80, or differ in a top bit only); ignored and failing tests mixed) '
         'driven through 1..3 repetitions with group/name filter lists (0..3 each, independent strict/invert flags), run-ignored, reverse, shuffle (boundary and random seeds, real rand() '
         'and hostile rand() values through the PlatformSpecificRand seam), either directly on TestRegistry or through CommandLineTestRunner with an argv, '
         'or through a history of 2..5 CommandLineTestRunner invocations on the same registry (each with its own argv: group / name filter lists present or absent, -ri, -b, -s, -r; '
         'each runner destroyed before the next one as RunAllTests does, or all kept alive), every repetition of every invocation judged against the filters of that invocation only; '
         'or through a setter history: 2..5 runs on one registry, before each run 0..3 operations out of {setGroupFilters(new non-empty list / NULL / the same list object again / the installed list after a mode was requested again on one of its filters or a filter was put in front), the same for setNameFilters, reverse, shuffle, unDoLastAddTest, addTest of a test that is not registered, setRunIgnored} - the two filter setters are called independently of each other; a quarter of the filters built for the direct sections get strictMatching() / invertMatching() called 1..3 times each in random interleaving; '
         'six filter tables (one filter x target, two filters x target, group filter x name filter, one filter x target x {strictMatching() 0..3 times} x {invertMatching() 0..3 times} x 4 interleavings; one filter x target over all 27 x 27 pairs of the non-ASCII alphabet x 4 modes x group/name role, two filters x target over its 8-word UTF-8 core) are enumerated completely. '
         'Non-trivial = at least one filter that accepts some and rejects some tests of the registry, or a reverse/shuffle of >= 3 tests (table cases: every cell); '
         'distinct by (number of tests, filter lists with flags and mode-request counts, sequence of order operations / run-ignored; for runner histories the sequence of these per invocation; for setter histories the sequence of operations and runs)',
    floor=dict(quick=20000, thorough=200000),
    counter_floor=dict(
        quick={'ops_shuffle': 10000, 'ops_reverse': 3000, 'configurations_with_discriminating_filter': 10000, 'repetitions_with_run_ignored': 3000, 'runner_invocations': 3000,
               'runner_history_later_invocations': 8000, 'later_invocations_without_group_filters_after_one_with': 2000, 'later_invocations_without_name_filters_after_one_with': 2000,
               'later_invocation_repetitions_where_leftover_filters_would_change_the_selection': 3000,
               'setter_history_later_runs': 25000, 'later_runs_after_group_filter_setter_alone:list_to_list': 6000, 'later_runs_after_name_filter_setter_alone:list_to_list': 2500,
               'later_runs_after_group_filter_setter_alone_where_the_previous_list_decides_differently_for_the_first_test': 3000,
               'later_runs_after_name_filter_setter_alone_where_the_previous_list_decides_differently': 2500,
               'setter_group_list_replaced_by_NULL': 1500, 'setter_group_same_list_object_set_again': 1500, 'undo_last_add_between_runs': 2000, 'add_test_between_runs': 700,
               'mode_requested_on_a_filter_of_the_installed_list_and_list_set_again': 2000,
               'filters_with_invertMatching_requested_an_even_number_of_times': 5000, 'filters_with_strictMatching_requested_more_than_once': 10000,
               'cases_drawing_strings_from_the_non_ascii_alphabet': 12000, 'non_ascii_filter_x_target_pairs': 600000, 'non_ascii_filter_x_target_pairs:filter_text_occurs_in_target': 200000,
               'non_ascii_substring_filter_x_target_pairs:diverge_after_a_shared_non_ascii_byte': 20000, 'group_or_name_strings_with_a_byte_above_0x7f_judged': 500000},
        thorough={'ops_shuffle': 150000, 'ops_reverse': 45000, 'configurations_with_discriminating_filter': 150000, 'repetitions_with_run_ignored': 45000, 'runner_invocations': 45000,
                  'runner_history_later_invocations': 96000, 'later_invocations_without_group_filters_after_one_with': 24000, 'later_invocations_without_name_filters_after_one_with': 24000,
                  'later_invocation_repetitions_where_leftover_filters_would_change_the_selection': 36000,
                  'setter_history_later_runs': 300000, 'later_runs_after_group_filter_setter_alone:list_to_list': 80000, 'later_runs_after_name_filter_setter_alone:list_to_list': 30000,
                  'later_runs_after_group_filter_setter_alone_where_the_previous_list_decides_differently_for_the_first_test': 40000,
                  'later_runs_after_name_filter_setter_alone_where_the_previous_list_decides_differently': 30000,
                  'setter_group_list_replaced_by_NULL': 20000, 'setter_group_same_list_object_set_again': 20000, 'undo_last_add_between_runs': 25000, 'add_test_between_runs': 9000,
                  'mode_requested_on_a_filter_of_the_installed_list_and_list_set_again': 25000,
                  'filters_with_invertMatching_requested_an_even_number_of_times': 70000, 'filters_with_strictMatching_requested_more_than_once': 140000,
                  'cases_drawing_strings_from_the_non_ascii_alphabet': 200000, 'non_ascii_filter_x_target_pairs': 15000000, 'non_ascii_filter_x_target_pairs:filter_text_occurs_in_target': 6000000,
                  'non_ascii_substring_filter_x_target_pairs:diverge_after_a_shared_non_ascii_byte': 500000, 'group_or_name_strings_with_a_byte_above_0x7f_judged': 15000000},
    ),
    assumptions=[
        'group notifications: balance and nesting of start/end and "a test starts inside a group opened for its own group name" are judged; '
        'the number of group segments (one per maximal run of equal group names) is recorded as evidence only',
        'shuffle: any permutation is accepted (bias, or an element that never moves, is not a violation)',
        'command-line section uses only -g/-sg/-xg/-xsg/-n/-sn/-xn/-xsn/-ri/-b/-s<seed>/-r<n> with non-empty values that do not start with "-" (the parse itself is C12)',
        'strings are byte strings: "substring" and "exact match" are judged byte-wise (std::string::find / ==) also for bytes >= 0x80; invalid UTF-8 (a lone 0xC3, 0xFF) is an ordinary byte string for the model '
        'as it is for cpputest (no normalisation, no case folding); the string primitives themselves (StrNCmp / StrStr results, signs) are C03/C13 - here only what a filter accepts is judged',
        'separate-process mode (-p) is not exercised here (C11)',
        'runner histories: run-ignored is treated as sticky (once an invocation gave -ri, ignored tests of later invocations on that registry are expected to run: '
        'TestRegistry offers no way to switch it off and the property does not ask for one); the list order is carried over from invocation to invocation; '
        'the same runner object is never asked to run twice',
        'filter modes: TestFilter offers strictMatching() and invertMatching() and nothing that takes a mode back, asString() / operator== report them as modes: '
        '"as requested" is read as: a mode is on iff it was requested at least once, so requesting negation (or exact matching) twice on the same object is still negation (exact matching), '
        'as in the unchanged code; a toggle reading of invertMatching() is flagged under its own key (filter-mode-requested-repeatedly-differs-from-requested-once:...)',
        'setter histories: "registered" means reachable from getFirstTest() - after unDoLastAddTest exactly one test less (which one is taken from the list walk, not demanded), '
        'after addTest the added one more; a filter list is only modified while installed if the setter is called with it again before the next run '
        '(lists changed behind the registry\'s back without a setter call are not generated); every list stays alive until the registry is gone',
    ],
)
