P = dict(
    harness='c03_checks.cpp',
    variants=['asan', 'memcheck'],
    memcheck_stride=dict(quick=100, thorough=40),
    level='exploration',
    technique='runtime monitoring: one check macro per fresh TestTestingFixture; getFailureCount()/getCheckCount() compared with an independently evaluated predicate '
              '(__int128 integer values, libc strcmp/strncmp/strstr/memcmp, ASCII fold, unbounded two\'s-complement AND, exact TwoSum comparison for doubles in extended-real order, i.e. an infinite distance is within an infinite tolerance only; the exported predicate doubles_equal() is called on the special-class triples as a second observation, counted not judged); '
              '8-bit checks enumerated over all 256x256 pairs, every other integer/relational/double/string/pointer/bit check over the complete boundary lattice or table; '
              'macro-hygiene sections: every check macro and C-interface macro is also handed operands spelled as unparenthesised loosely binding expressions, judged by the same oracles on the values of the expressions; ASan/UBSan build',
    rule='case = (check macro incl. _TEXT and C-language variants and operand type, operand values); 200 distinct check instantiations. '
         'Exhaustive sections: 6 byte checks x 256^2; 59 integer checks x all pairs of the boundary lattice of their type (0, +-1, +-2, 2^k-1..2^k+1 for k=7,8,15,16, 2^k-2..2^k+2 for k=31,32,63,64, negatives, type min/max); '
         'CHECK_COMPARE x 6 operators x lattice pairs (integers and doubles); doubles 25 values^2 x 17 tolerances; double classes (+-0, +-subnormal, +-1, +-DBL_MAX, +-inf, NaN)^2 x tolerance classes (0, subnormal, 1, DBL_MAX, +inf, NaN, -1, -inf) x all 5 tolerance-taking checks incl. _TEXT, C and float variants as a complete cross product (section doubles_special); 29 C strings (NULL, "", case/prefix/high-bit variants)^2 x 13 string checks (STRNCMP with 8 lengths incl. SIZE_MAX); '
         'memory blocks NULL/equal/differing x size 0,1,n in exact-size heap blocks; masked bits 17 checks x patterns x flipped bit x 24 masks; pointer/function-pointer value tables; boolean conditions of 5 operand kinds, FAIL*, CHECK_THROWS x 6 thrown kinds. '
         'Random sections add related operand pairs (equal, adjacent, same low bytes, one flipped bit, case flips, prefixes, needle-in-haystack, tolerance at/next to the distance). '
         'Macro-hygiene sections (hygiene_int/bits/doubles/pointers, random): each operand of each of 104 check instantiations (all integer, BYTES, ENUMS, boolean, relational, bits, doubles, string, memory, pointer, function-pointer macros and every CHECK_*_C* macro) is written as a comma-free expression '
         'x | y, x ^ y, x & y, s ? x : y, x + y, x - y (doubles), x || y, x && y, x == y, x < y, p + offset (pointers), one operand at a time and mixed, incl. the mask / length / tolerance operand; components are generated so that the expression has a chosen value (related pairs: equal, same low bytes, one bit, adjacent; ~55% predicate true), '
         'the value is cross-checked by evaluating the same expression text outside the macro, and the verdict must be the predicate on those values (key <verdict>:<check>:expression-operand). '
         'Verdict judged: failures == [predicate false], failures <= 1, check count == 1 (0 for a passing CHECK_COMPARE). Infinitely distant operands (opposite infinities, infinity vs finite) are judged as the statement reads: they differ by +inf, which is no more than a tolerance of +inf (must pass) and more than any finite tolerance (must fail). Not judged (counted as *_unjudged): negative/NaN tolerance, '
         '|a-b| rounding onto the tolerance, NULL operands of the contains checks, NULL vs non-NULL at STRNCMP length 0. '
         'Non-trivial = operand pair on a class boundary: integers equal at a type edge/outside int range, or differing by <= 2 or by a multiple of 256; doubles with inf/NaN/signed zeros or distance within [tol/2, 2 tol] or adjacent; '
         'strings with NULL/""/case-only difference/proper prefix/length at or inside the common prefix; blocks with NULL/size 0/difference at first or last byte or only beyond the size; bit pairs differing in one bit, zero masks, differences masked out; '
         'relational operands equal/adjacent/unordered; every table entry of the boolean/throw/pointer-null tables. Distinct by (check, operands).',
    floor=dict(quick=40000, thorough=150000),
    counter_floor=dict(quick={'observed_pass': 30000, 'observed_fail': 100000, 'infinite_tolerance_judged': 450, 'infinite_tolerance_opposite_infinities_judged': 10, 'infinite_tolerance_infinite_vs_finite_judged': 150, 'doubles_equal_fn:true': 1000},
                       thorough={'observed_pass': 100000, 'observed_fail': 300000, 'infinite_tolerance_judged': 450, 'infinite_tolerance_opposite_infinities_judged': 10, 'infinite_tolerance_infinite_vs_finite_judged': 150, 'doubles_equal_fn:true': 1000}),
    assumptions=['LP64 (long = 64 bit), char signed', 'case-insensitive means ASCII case folding (bytes >= 0x80 compare exactly)',
                 'operands are generated inside the parameter type of each check (conversions done by the caller, e.g. a 64-bit value passed to CHECK_EQUAL_C_BITS or LONGS_EQUAL, are outside the check)',
                 'doubles: negative or NaN tolerances, and distances whose rounded value equals the tolerance while the exact value does not, are executed but their verdict is not judged',
                 'doubles: "differ by no more than the tolerance" is read in the extended reals (|(+inf) - (-inf)| = |inf - finite| = +inf <= +inf): under an infinite tolerance every pair of non-NaN operands is equal'],
)
