_EPS = ['new', 'new[]', 'new(nothrow)', 'new[](nothrow)', 'new(file,line)', 'new[](file,line)', 'malloc', 'calloc', 'realloc(NULL)', 'realloc(live)', 'strdup', 'strndup']
# requests per entry point with the thread-safe overload set active (the default set gets the other half of every section)
TS_REQ = ['requests:threadsafe-overloads:' + e for e in _EPS]
# requests issued while the C interface simulates out-of-memory, per overload set: the exhaustive c_out_of_memory section alone gives 4 sizes x 2 allocator modes x 2 sanitizer builds
OOM_FLOOR = {'c_oom_request:%s-overloads:%s:null' % (o, e): 16 for o in ('default', 'threadsafe') for e in ('malloc', 'calloc', 'strdup', 'strndup', 'realloc(NULL)', 'realloc(live)')}
P = dict(
    harness='c05_allocsound.cpp',
    variants=['asan', 'asan-noguard', 'memcheck'],
    memcheck_stride=dict(quick=40, thorough=40),
    level='fault_enumeration',
    technique='runtime monitoring: the real new/new[]/nothrow/malloc/calloc/realloc/strdup/strndup entry points against a private detector, with recording PlatformSpecificMalloc/Realloc/Free seams (request sizes, 64 MiB refusal, NULL injected at every call index in turn), recording TestMemoryAllocators, an id-pattern block model and ASan/UBSan, on builds with and without guard bytes; the active overload set (default / thread-safe new-delete-malloc overloads) is a dimension of every section, including simulated out-of-memory through the C interface',
    rule='cases: every size 0..4096 through all 12 entry points; 2^k+-3 (k<=63) and the top 64 sizes, one entry point per case; calloc (count, size) lattice around 2^64; strndup (length, limit) lattice; requests (8 entry points incl. realloc of NULL and of a live block x 4 sizes x recording allocators x overload set) under cpputest_malloc_set_out_of_memory; '
         'seeded scripts of 45-70 allocate/realloc/release steps run once per fault point (platform malloc/realloc returns NULL once; TestMemoryAllocator returns NULL once; C-level countdown, the 1-3 following steps - realloc of live blocks included - run while it has expired; platform realloc + next call fail), workloads alternate between the two overload sets; random scripts with one hostile size. '
         'Non-trivial (one signature per case) = a sweep size within 64 of a power of two or of SIZE_MAX (signature: entry point or "all entry points", size class), a calloc pair with an overflowing / boundary product, '
         'every strndup (length, limit) lattice point, every request under simulated out-of-memory, a fault case whose injected NULL was consumed (signature: entry point, size class, workload, fault kind, fault index), '
         'a random script with a hostile or near-power-of-two request (signature: entry point, size class of that request)',
    floor=dict(quick=8000, thorough=30000),
    counter_floor=dict(
        quick={'blocks_filled': 50000, 'extent_checked_against_seam_request': 50000, 'fault_points_taken:kind0': 200, 'fault_points_taken:kind1': 100, 'realloc_prefixes_checked': 5000, 'calloc_blocks_checked_for_zero': 4000, 'string_copies_compared_with_libc': 5000, **OOM_FLOOR, **{k: 10000 for k in TS_REQ}},
        thorough={'blocks_filled': 100000, 'extent_checked_against_seam_request': 100000, 'fault_points_taken:kind0': 800, 'fault_points_taken:kind1': 400, 'realloc_prefixes_checked': 10000, 'calloc_blocks_checked_for_zero': 4000, 'string_copies_compared_with_libc': 5000, **OOM_FLOOR, **{k: 20000 for k in TS_REQ}},
    ),
    assumptions=['Gcc/LP64, exceptions enabled', 'the platform seam refuses requests above 64 MiB and behaves like glibc for realloc(p, 0) (frees p, returns NULL)',
                 'blocks above 4 MiB are written/verified at both ends and on a 4093-byte stride, not completely',
                 'releases are not issued while cpputest_malloc_set_out_of_memory() is in force (the current allocator differs from the allocating one: C06 territory)',
                 'strdup/strndup of a NULL string is not generated',
                 'thread-safe overloads are driven from one thread only (legal use; C10 decides concurrency); no misuse is generated in that mode, only allocation failure'],
    stall_s=120,
    confirm_s=60,
)
