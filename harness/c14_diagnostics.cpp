// C14 — diagnostics are safe to build, bounded, and say what happened.
//
// Part 1 (failure objects): every *Failure class of TestFailure.cpp is constructed directly and
// through its macro (inside a TestTestingFixture) on operand pairs held in exact-size malloc blocks
// (so ASan sees a one byte overread). Oracle: independent first-difference index (exact, case-folded,
// byte index), reference renderings of both operands.
// Part 2 (detector text buffer): histories of misuse reports / leaks / reports on a private
// MemoryLeakDetector; after every operation the canary hook, termination and length of the text
// are checked; a report begun on an empty buffer is parsed against the model of live blocks.
//
// VERIF_C14_EXT=1 additionally judges things the design lists but the property text does not state
// (marker window placement, report tail cut at the buffer end). Default off: counted only.
#include "verif.h"
#include <cmath>
#include <cfloat>
#include <climits>
#include <new>
#include <stdexcept>
#include <cctype>

#include "CppUTest/TestHarness.h"
#include "CppUTest/TestFailure.h"
#include "CppUTest/TestTestingFixture.h"
#include "CppUTest/MemoryLeakDetector.h"
#include "CppUTest/TestMemoryAllocator.h"
#include "CppUTest/MemoryLeakWarningPlugin.h"
#undef new

static bool g_ext = false;

// ---------------------------------------------------------------- per-case violation de-duplication
struct Once {
    vf::Ctx& c; std::set<std::string> seen;
    Once(vf::Ctx& cc) : c(cc) {}
    void v(const std::string& key, const std::string& detail) { if (seen.insert(key).second) c.violation(key, detail); }
};

// exact-size malloc copy: ASan sees a one byte overread of an operand
struct HeapStr {
    char* p = nullptr;
    void set(const std::string& s) { release(); p = (char*) malloc(s.size() + 1); memcpy(p, s.data(), s.size()); p[s.size()] = 0; }
    void setbin(const std::string& s) { release(); p = (char*) malloc(s.size() ? s.size() : 1); memcpy(p, s.data(), s.size()); }
    void release() { free(p); p = nullptr; }
    ~HeapStr() { release(); }
};

// ---------------------------------------------------------------- reference renderings
static bool needs_escape(unsigned char c) { return c < 0x20 || c == 0x7f || c >= 0x80; }
static std::string ref_escape(unsigned char c) {
    static const char* SHORT[] = { "\\a", "\\b", "\\t", "\\n", "\\v", "\\f", "\\r" };
    if (c >= 7 && c <= 13) return SHORT[c - 7];
    char b[8]; snprintf(b, sizeof b, "\\x%02X", c); return b;
}
static std::string ref_printable(const std::string& s) {
    std::string o;
    for (unsigned char c : s) { if (needs_escape(c)) o += ref_escape(c); else o += (char) c; }
    return o;
}
static char fold(char c) { return (c >= 'A' && c <= 'Z') ? (char) (c + 32) : c; }
static std::string folded(const std::string& s) { std::string o = s; for (char& c : o) c = fold(c); return o; }
// first index at which two C strings differ (terminator included); == both sizes when equal
static size_t first_diff(const std::string& e, const std::string& a, bool nocase) {
    size_t i = 0;
    while (i < e.size() && i < a.size() && (nocase ? fold(e[i]) == fold(a[i]) : e[i] == a[i])) i++;
    return i;
}
static bool ci_contains(const std::string& hay, const std::string& needle) {
    std::string h = hay, n = needle;
    for (char& c : h) c = (char) toupper((unsigned char) c);
    for (char& c : n) c = (char) toupper((unsigned char) c);
    return h.find(n) != std::string::npos;
}
// flexible matcher: every byte raw, or as short escape, or as \xHH (any hex case)
static bool flex_match_at(const std::string& msg, size_t j, const std::string& op) {
    for (unsigned char c : op) {
        if (j < msg.size() && (unsigned char) msg[j] == c && c != '\\') { j++; continue; }
        if (c == '\\') { if (j < msg.size() && msg[j] == '\\') { j++; continue; } return false; }
        if (c >= 7 && c <= 13) { std::string e = ref_escape(c); if (msg.compare(j, 2, e) == 0) { j += 2; continue; } }
        if (j + 4 <= msg.size() && msg[j] == '\\' && msg[j + 1] == 'x') {
            char hx[3] = { msg[j + 2], msg[j + 3], 0 }; char* end;
            unsigned long v = strtoul(hx, &end, 16);
            if (end == hx + 2 && v == c) { j += 4; continue; }
        }
        return false;
    }
    return true;
}
static bool shows_printable(const std::string& msg, const std::string& op) {
    if (msg.find(ref_printable(op)) != std::string::npos) return true;
    if (msg.find(op) != std::string::npos) return true;
    for (size_t i = 0; i + 1 <= msg.size(); i++) if (flex_match_at(msg, i, op)) return true;
    return false;
}
static bool shows_raw(const std::string& msg, const std::string& op) { return msg.find(op) != std::string::npos || shows_printable(msg, op); }
static bool shows_integer(const std::string& msg, const std::string& dec) {
    size_t i = 0;
    while ((i = msg.find(dec, i)) != std::string::npos) {
        bool okl = i == 0 || !(isdigit((unsigned char) msg[i - 1]) || msg[i - 1] == '-');
        bool okr = i + dec.size() >= msg.size() || !isdigit((unsigned char) msg[i + dec.size()]);
        if (okl && okr) return true;
        i++;
    }
    return false;
}
static bool shows_double(const std::string& msg, double v) {
    size_t i = 0;
    while ((i = msg.find('<', i)) != std::string::npos) {
        size_t j = msg.find('>', i + 1);
        if (j == std::string::npos) break;
        std::string tok = msg.substr(i + 1, j - i - 1);
        i++;
        if (std::isnan(v)) { if (ci_contains(tok, "nan")) return true; continue; }
        if (std::isinf(v)) { if (ci_contains(tok, "inf")) return true; continue; }
        char* end; double p = strtod(tok.c_str(), &end);
        if (end == tok.c_str() || *end != 0 || std::isnan(p) || std::isinf(p)) continue;
        if (p == v || fabs(p - v) <= fabs(v) * 2e-6 + 5e-324) return true;
    }
    return false;
}
static std::string ref_bits(unsigned long value, unsigned long mask, size_t byteCount) {
    size_t bits = (byteCount > sizeof(unsigned long) ? sizeof(unsigned long) : byteCount) * 8;
    std::string s;
    for (size_t i = 0; i < bits; i++) {
        size_t bit = bits - 1 - i;
        bool m = (mask >> bit) & 1, v = (value >> bit) & 1;
        s += m ? (v ? '1' : '0') : 'x';
        if (i % 8 == 7 && i != bits - 1) s += ' ';
    }
    return s;
}
static std::string ref_hex(const std::string& bytes) {
    std::string o; char b[4];
    for (size_t i = 0; i < bytes.size(); i++) { snprintf(b, sizeof b, "%02X", (unsigned char) bytes[i]); if (i) o += ' '; o += b; }
    return o;
}
static bool parse_position(const std::string& msg, unsigned long& n, size_t* after = nullptr) {
    static const std::string P = "difference starts at position ";
    size_t k = msg.rfind(P);
    if (k == std::string::npos) return false;
    k += P.size();
    if (k >= msg.size() || !isdigit((unsigned char) msg[k])) return false;
    char* end; n = strtoul(msg.c_str() + k, &end, 10);
    if (after) *after = (size_t) (end - msg.c_str());
    return true;
}
// the 20 character window printed after "at: <" (only judged with VERIF_C14_EXT=1)
static bool parse_window(const std::string& msg, size_t after, std::string& w) {
    if (msg.compare(after, 6, " at: <") != 0) return false;
    size_t b = after + 6, e = msg.rfind(">\n\t");
    if (e == std::string::npos || e < b) return false;
    w = msg.substr(b, e - b); return true;
}
static std::string char_class(const std::string& e, const std::string& a) {
    bool ctrl = false, high = false;
    for (const std::string* s : { &e, &a }) for (unsigned char c : *s) { if (c >= 0x80) high = true; else if (c < 0x20 || c == 0x7f) ctrl = true; }
    return high ? "highbit" : ctrl ? "control" : "plain";
}

// ---------------------------------------------------------------- string generators
static size_t gen_len(vf::Rng& r) {
    unsigned k = (unsigned) r.below(200);
    if (k < 110) return (size_t) r.below(13);
    if (k < 170) return 13 + (size_t) r.below(33);
    if (k < 195) return 46 + (size_t) r.below(255);
    if (k < 198) return 1000 + (size_t) r.below(1000);
    return 10240;
}
static const char CTRL[] = { 7, 8, 9, 10, 11, 12, 13, 1, 27, 31, 127 };
static const unsigned char HIGH[] = { 0x80, 0x81, 0xfe, 0xff, 0xc3, 0xa9 };
static std::string gen_str(vf::Rng& r, size_t len) {
    int mix = (int) r.below(8);
    std::string s; s.reserve(len);
    for (size_t i = 0; i < len; i++) {
        char ch;
        switch (mix) {
        case 0: ch = "ab"[r.below(2)]; break;
        case 1: ch = "aAbB"[r.below(4)]; break;
        case 2: ch = r.chance(70) ? "ab"[r.below(2)] : CTRL[r.below(sizeof CTRL)]; break;
        case 3: ch = r.chance(70) ? "ab"[r.below(2)] : (char) HIGH[r.below(sizeof HIGH)]; break;
        case 4: ch = "\\nx01F a"[r.below(8)]; break;
        case 5: ch = "<>%sdn ^"[r.below(8)]; break;
        case 6: ch = (char) (1 + r.below(255)); break;
        default: ch = r.chance(90) ? "abcXY"[r.below(5)] : r.chance(50) ? CTRL[r.below(sizeof CTRL)] : (char) HIGH[r.below(sizeof HIGH)]; break;
        }
        s += ch;
    }
    return s;
}
enum Rel { R_INDEP, R_MUT1, R_PREFIX, R_COINCIDE, R_CASE, R_EMPTY, R_IDENT, R_N };
static const char* REL_NAME[] = { "independent", "one-byte", "prefix", "coinciding-printable", "case-variant", "empty", "identical" };
static size_t pick_pos(vf::Rng& r, size_t n) {
    if (n == 0) return 0;
    switch (r.below(4)) { case 0: return 0; case 1: return n - 1; case 2: return n > 25 ? 21 + r.below(n - 21) : r.below(n); default: return r.below(n); }
}
static char other_char(vf::Rng& r, char c, bool nocase) {
    for (;;) {
        char d;
        switch (r.below(4)) { case 0: d = "abAB"[r.below(4)]; break; case 1: d = CTRL[r.below(sizeof CTRL)]; break; case 2: d = (char) HIGH[r.below(sizeof HIGH)]; break; default: d = (char) (1 + r.below(255)); }
        if (nocase ? fold(d) != fold(c) : d != c) return d;
    }
}
static void gen_pair(vf::Rng& r, int rel, bool nocase, std::string& e, std::string& a) {
    e = gen_str(r, gen_len(r));
    switch (rel) {
    case R_INDEP: a = gen_str(r, gen_len(r)); break;
    case R_MUT1: { if (e.empty()) e = "a"; a = e; size_t p = pick_pos(r, a.size()); a[p] = other_char(r, a[p], nocase); if (r.chance(30)) for (size_t i = p + 1; i < a.size(); i++) if (r.chance(30)) a[i] = other_char(r, a[i], false); break; }
    case R_PREFIX: { a = e + gen_str(r, 1 + r.below(30)); if (r.chance(50)) std::swap(a, e); break; }
    case R_COINCIDE: {
        bool any = false; for (unsigned char c : e) if (needs_escape(c)) any = true;
        if (!any) e.insert(pick_pos(r, e.size() + 1) % (e.size() + 1), 1, r.chance(50) ? CTRL[r.below(sizeof CTRL)] : (char) HIGH[r.below(sizeof HIGH)]);
        a.clear(); bool did = false;
        for (unsigned char c : e) { if (needs_escape(c) && r.chance(60)) { a += ref_escape(c); did = true; } else a += (char) c; }
        if (!did) { a.clear(); bool first = true; for (unsigned char c : e) { if (needs_escape(c) && first) { a += ref_escape(c); first = false; } else a += (char) c; } }
        if (r.chance(50)) std::swap(a, e);
        break; }
    case R_CASE: { if (e.empty()) e = "aB"; a = e; for (char& c : a) if (r.chance(50)) { if (c >= 'a' && c <= 'z') c = (char) (c - 32); else if (c >= 'A' && c <= 'Z') c = (char) (c + 32); }
        size_t p = pick_pos(r, a.size()); a[p] = other_char(r, a[p], true); break; }
    case R_EMPTY: { a = ""; if (e.empty()) e = "x"; if (r.chance(50)) std::swap(a, e); break; }
    default: a = e; break;
    }
}
static void force_unequal(std::string& e, std::string& a, bool nocase) {
    if (nocase ? folded(e) == folded(a) : e == a) a += "~";
}

static const char* TEXTS[] = { "", "", "my message", "LONGS_EQUAL(x, y) failed", "text with <angle> %s %n" };

// ---------------------------------------------------------------- judging string-like failures
enum SK { SK_STRCMP, SK_NOCASE, SK_CHECKEQ, SK_N };
static const char* SK_CLASS[] = { "StringEqualFailure", "StringEqualNoCaseFailure", "CheckEqualFailure" };

static void judge_string_failure(vf::Ctx& c, Once& o, int sk, const std::string& msg, bool eNull, const std::string& e, bool aNull, const std::string& a, const char* via) {
    const char* cls = SK_CLASS[sk];
    bool nocase = sk == SK_NOCASE;
    std::string cc = char_class(e, a);
    std::string pe = ref_printable(e), pa = ref_printable(a);
    bool coincide = !eNull && !aNull && (nocase ? folded(pe) == folded(pa) : pe == pa);
    std::string icls = coincide ? "coinciding-printable" : cc;
    if (eNull ? false : !shows_printable(msg, e)) o.v(std::string("operand-missing:") + cls + ":expected:" + icls, std::string(via) + ": message does not show the expected operand; message=" + vf::jstr(msg.substr(0, 400)));
    if (aNull ? false : !shows_printable(msg, a)) o.v(std::string("operand-missing:") + cls + ":actual:" + icls, std::string(via) + ": message does not show the actual operand; message=" + vf::jstr(msg.substr(0, 400)));
    c.count("operand_renderings_checked", 2);
    if (eNull || aNull) { c.count("null_operand_failures"); return; }
    unsigned long n; size_t after = 0;
    bool identical = nocase ? folded(e) == folded(a) : e == a;
    if (parse_position(msg, n, &after)) {
        if (identical) c.count("position_unjudged_identical_operands");
        else {
            size_t want = first_diff(e, a, nocase);
            c.count("position_lines_checked");
            if (n != want) o.v(std::string("position-wrong:") + cls + ":" + icls, std::string(via) + ": printed position " + std::to_string(n) + " but the operands first differ at index " + std::to_string(want));
        }
        std::string w;
        if (parse_window(msg, after, w)) {
            size_t pd = first_diff(pe, pa, nocase);
            std::string padded = std::string(10, ' ') + pa + std::string(10, ' ');
            std::string want = padded.substr(pd, 20);
            c.count("windows_compared");
            if (w != want) { c.count("window_differs_from_reference"); if (g_ext) o.v(std::string("ext:window-misplaced:") + cls + ":" + icls, std::string(via) + ": window " + vf::jstr(w) + " expected " + vf::jstr(want)); }
        }
    } else c.count("position_line_absent");
    if (coincide || identical) c.nontrivial(std::string(cls) + ":" + std::to_string(vf::fnv(e)) + ":" + std::to_string(vf::fnv(a)));
}

static std::string build_string_failure(int sk, UtestShell* sh, const char* e, const char* a, const char* text) {
    switch (sk) {
    case SK_STRCMP: { StringEqualFailure f(sh, "f.cpp", 7, e, a, text); return f.getMessage().asCharString(); }
    case SK_NOCASE: { StringEqualNoCaseFailure f(sh, "f.cpp", 7, e, a, text); return f.getMessage().asCharString(); }
    default: { CheckEqualFailure f(sh, "f.cpp", 7, SimpleString(e), SimpleString(a), text); return f.getMessage().asCharString(); }
    }
}

static void run_string_case(vf::Ctx& c, int sk, const std::string& e, const std::string& a, bool eNull, bool aNull, const char* text, const char* rel) {
    c.begin([=] { return vf::J().k("class", SK_CLASS[sk]).k("relation", rel).k("expected_hex", eNull ? std::string("NULL") : vf::hexbytes(e.data(), std::min<size_t>(e.size(), 200))).k("actual_hex", aNull ? std::string("NULL") : vf::hexbytes(a.data(), std::min<size_t>(a.size(), 200)))
                      .k("expected_len", (unsigned long) e.size()).k("actual_len", (unsigned long) a.size()).k("text", text).str(); });
    Once o(c);
    HeapStr he, ha; if (!eNull) he.set(e); if (!aNull) ha.set(a);
    UtestShell sh("grp", "name", "test.cpp", 3);
    std::string msg = build_string_failure(sk, &sh, he.p, ha.p, text);
    c.count(std::string("built_") + SK_CLASS[sk]);
    judge_string_failure(c, o, sk, msg, eNull, e, aNull, a, "direct");
}

// section: random string pairs
static void sec_fail_strings(vf::Ctx& c) {
    vf::Rng& r = c.rng;
    int sk = (int) r.below(SK_N);
    bool nocase = sk == SK_NOCASE;
    int rel = (int) r.below(R_N);
    if (rel == R_IDENT && sk != SK_CHECKEQ) rel = R_COINCIDE;
    std::string e, a; gen_pair(r, rel, nocase, e, a);
    if (rel != R_IDENT) force_unequal(e, a, nocase);
    bool eNull = false, aNull = false;
    if (sk != SK_CHECKEQ && r.chance(3)) { if (r.chance(50)) eNull = true; else aNull = true; }
    run_string_case(c, sk, e, a, eNull, aNull, r.pick(TEXTS), REL_NAME[rel]);
}

// section: every byte value x position x class x (other byte | its escape text)   [exhaustive]
static const uint64_t CTRL_CASES = 255ull * 3 * 3 * 2;
static void sec_fail_ctrl(vf::Ctx& c) {
    uint64_t i = c.idx;
    unsigned char b = (unsigned char) (1 + i % 255); i /= 255;
    int posk = (int) (i % 3); i /= 3; int sk = (int) (i % 3); i /= 3; int how = (int) (i % 2);
    std::string base = posk == 0 ? "" : posk == 1 ? "abcdefg" : "abcdefghijklmnopqrstuvwxy";
    std::string e = base + (char) b + (posk == 1 ? "tail" : ""), a;
    if (how == 0) { unsigned char d = (unsigned char) (b == 255 ? 1 : b + 1); if (sk == SK_NOCASE && fold((char) d) == fold((char) b)) d = (unsigned char) (d + 1); a = base + (char) d + (posk == 1 ? "tail" : ""); }
    else a = base + (needs_escape(b) ? ref_escape(b) : std::string(1, (char) b) + "+") + (posk == 1 ? "tail" : "");
    force_unequal(e, a, sk == SK_NOCASE);
    run_string_case(c, sk, e, a, false, false, "", how ? "byte-vs-escape-text" : "byte-vs-next-byte");
}

// ---------------------------------------------------------------- section: binary
static void judge_binary(vf::Ctx& c, Once& o, const std::string& msg, bool eNull, const std::string& e, bool aNull, const std::string& a, const char* via) {
    if (eNull ? false : !ci_contains(msg, ref_hex(e))) o.v("operand-missing:BinaryEqualFailure:expected", std::string(via) + ": hex rendering of expected not in message " + vf::jstr(msg.substr(0, 300)));
    if (aNull ? false : !ci_contains(msg, ref_hex(a))) o.v("operand-missing:BinaryEqualFailure:actual", std::string(via) + ": hex rendering of actual not in message " + vf::jstr(msg.substr(0, 300)));
    c.count("operand_renderings_checked", 2);
    if (eNull || aNull) { c.count("null_operand_failures"); return; }
    unsigned long n; size_t after = 0;
    if (parse_position(msg, n, &after)) {
        size_t want = 0; while (want < e.size() && e[want] == a[want]) want++;
        c.count("position_lines_checked");
        if (n != want) o.v("position-wrong:BinaryEqualFailure", std::string(via) + ": printed position " + std::to_string(n) + " but the buffers first differ at byte " + std::to_string(want));
        std::string w;
        if (parse_window(msg, after, w)) {
            std::string hx = ref_hex(a), padded = std::string(10, ' ') + hx + std::string(10, ' ');
            c.count("windows_compared");
            std::string w1 = padded.substr(want * 3 + 1, 20), w0 = padded.substr(want * 3, 20);
            std::string wu = w; for (char& ch : wu) ch = (char) toupper((unsigned char) ch);
            if (wu != w1 && wu != w0) { c.count("window_differs_from_reference"); if (g_ext) o.v("ext:window-misplaced:BinaryEqualFailure", std::string(via) + ": window " + vf::jstr(w) + " expected " + vf::jstr(w1)); }
        }
    } else c.count("position_line_absent");
}
static void gen_binary(vf::Rng& r, std::string& e, std::string& a) {
    size_t n; unsigned k = (unsigned) r.below(1000);
    if (k < 750) n = 1 + r.below(24); else if (k < 975) n = 25 + r.below(200); else if (k < 996) n = 1000 + r.below(1000); else n = 10240;
    e.resize(n);
    int mode = (int) r.below(3);
    for (char& ch : e) ch = mode == 0 ? (char) r.below(256) : mode == 1 ? (char) (r.chance(80) ? 0 : r.below(256)) : "ab"[r.below(2)];
    a = e; size_t p = pick_pos(r, n); a[p] = (char) (a[p] ^ (1 + r.below(255)));
    if (r.chance(40)) for (size_t i = p + 1; i < n; i++) if (r.chance(30)) a[i] = (char) r.below(256);
}
static void sec_fail_binary(vf::Ctx& c) {
    vf::Rng& r = c.rng;
    std::string e, a; gen_binary(r, e, a);
    bool eNull = false, aNull = false;
    if (r.chance(3)) { if (r.chance(50)) eNull = true; else aNull = true; }
    const char* text = r.pick(TEXTS);
    c.begin([=] { return vf::J().k("class", "BinaryEqualFailure").k("size", (unsigned long) e.size()).k("expected_hex", eNull ? std::string("NULL") : vf::hexbytes(e.data(), std::min<size_t>(e.size(), 100))).k("actual_hex", aNull ? std::string("NULL") : vf::hexbytes(a.data(), std::min<size_t>(a.size(), 100))).str(); });
    Once o(c);
    HeapStr he, ha; if (!eNull) he.setbin(e); if (!aNull) ha.setbin(a);
    UtestShell sh("grp", "name", "test.cpp", 3);
    BinaryEqualFailure f(&sh, "f.cpp", 9, (const unsigned char*) he.p, (const unsigned char*) ha.p, e.size(), text);
    c.count("built_BinaryEqualFailure");
    judge_binary(c, o, f.getMessage().asCharString(), eNull, e, aNull, a, "direct");
}

// ---------------------------------------------------------------- section: numeric failures
static long long boundary_ll(vf::Rng& r) {
    switch (r.below(5)) {
    case 0: return (long long) r.range(-20, 20);
    case 1: { static const long long B[] = { LLONG_MIN, LLONG_MAX, INT_MIN, INT_MAX, (long long) UINT_MAX, -1, 0, 127, -128, 255, 256 }; return r.pick(B); }
    case 2: return (long long) ((1ull << r.below(64)) + (uint64_t) r.range(-2, 2));
    default: return (long long) r.next();
    }
}
static double gen_double(vf::Rng& r) {
    static const double D[] = { 0.0, -0.0, 1.0, -1.0, 1e-320, 4.9406564584124654e-324, DBL_MIN, DBL_MAX, -DBL_MAX, 1e300, 1e-9, 123456.7, 0.1,
                                std::numeric_limits<double>::infinity(), -std::numeric_limits<double>::infinity(), std::numeric_limits<double>::quiet_NaN() };
    if (r.chance(40)) return r.pick(D);
    double m = (double) (int64_t) r.next() / 9.2e18;
    return ldexp(m, r.range(-60, 60));
}
static std::string fmtg(double v, int prec) { char b[64]; snprintf(b, sizeof b, "%.*g", prec, v); return b; }
static void judge_doubles(vf::Ctx& c, Once& o, const std::string& msg, double e, double a, const char* via) {
    if (!shows_double(msg, e)) o.v("operand-missing:DoublesEqualFailure:expected", std::string(via) + ": " + fmtg(e, 17) + " not shown in " + vf::jstr(msg));
    if (!shows_double(msg, a)) o.v("operand-missing:DoublesEqualFailure:actual", std::string(via) + ": " + fmtg(a, 17) + " not shown in " + vf::jstr(msg));
    c.count("operand_renderings_checked", 2);
    if ((std::isinf(e) && e < 0) || (std::isinf(a) && a < 0)) c.count("negative_infinity_operands_seen");
    bool same_bits = memcmp(&e, &a, sizeof e) == 0;
    if (!same_bits && !std::isnan(e) && !std::isnan(a) && fmtg(e, 7) == fmtg(a, 7)) c.nontrivial("dbl:" + fmtg(e, 17) + ":" + fmtg(a, 17));
}
static void sec_fail_numeric(vf::Ctx& c) {
    vf::Rng& r = c.rng;
    int kind = (int) r.below(7);
    const char* text = r.pick(TEXTS);
    if (strchr(text, '(')) text = "";      // keep digits/brackets of the user text out of the token checks
    UtestShell sh("grp", "name", "test.cpp", 3);
    Once o(c);
    static const char* KN[] = { "LongsEqualFailure", "UnsignedLongsEqualFailure", "LongLongsEqualFailure", "UnsignedLongLongsEqualFailure", "SignedBytesEqualFailure", "DoublesEqualFailure", "BitsEqualFailure" };
    if (kind <= 4) {
        long long e = boundary_ll(r), a = boundary_ll(r);
        if (r.chance(30)) a = (long long) ((unsigned long long) e + (unsigned long long) (long long) r.range(-1, 1));
        std::string de, da, msg;
        switch (kind) {
        case 0: { long x = (long) e, y = (long) a; if (x == y) y ^= 1; de = std::to_string(x); da = std::to_string(y); c.begin([=] { return vf::J().k("class", KN[kind]).k("expected", de).k("actual", da).str(); }); LongsEqualFailure f(&sh, "f.cpp", 1, x, y, text); msg = f.getMessage().asCharString(); break; }
        case 1: { unsigned long x = (unsigned long) e, y = (unsigned long) a; if (x == y) y ^= 1; de = std::to_string(x); da = std::to_string(y); c.begin([=] { return vf::J().k("class", KN[kind]).k("expected", de).k("actual", da).str(); }); UnsignedLongsEqualFailure f(&sh, "f.cpp", 1, x, y, text); msg = f.getMessage().asCharString(); break; }
        case 2: { long long x = e, y = a; if (x == y) y ^= 1; de = std::to_string(x); da = std::to_string(y); c.begin([=] { return vf::J().k("class", KN[kind]).k("expected", de).k("actual", da).str(); }); LongLongsEqualFailure f(&sh, "f.cpp", 1, x, y, text); msg = f.getMessage().asCharString(); break; }
        case 3: { unsigned long long x = (unsigned long long) e, y = (unsigned long long) a; if (x == y) y ^= 1; de = std::to_string(x); da = std::to_string(y); c.begin([=] { return vf::J().k("class", KN[kind]).k("expected", de).k("actual", da).str(); }); UnsignedLongLongsEqualFailure f(&sh, "f.cpp", 1, x, y, text); msg = f.getMessage().asCharString(); break; }
        default: { signed char x = (signed char) e, y = (signed char) a; if (x == y) y = (signed char) (y ^ 1); de = std::to_string((int) x); da = std::to_string((int) y); c.begin([=] { return vf::J().k("class", KN[kind]).k("expected", de).k("actual", da).str(); }); SignedBytesEqualFailure f(&sh, "f.cpp", 1, x, y, text); msg = f.getMessage().asCharString(); break; }
        }
        c.count(std::string("built_") + KN[kind]);
        if (!shows_integer(msg, de)) o.v(std::string("operand-missing:") + KN[kind] + ":expected", de + " not shown in " + vf::jstr(msg));
        if (!shows_integer(msg, da)) o.v(std::string("operand-missing:") + KN[kind] + ":actual", da + " not shown in " + vf::jstr(msg));
        c.count("operand_renderings_checked", 2);
    } else if (kind == 5) {
        double e = gen_double(r), a = gen_double(r), th = r.chance(20) ? gen_double(r) : 0.001;
        if (r.chance(40) && std::isfinite(e)) a = e * (1.0 + (r.chance(50) ? 1e-9 : 1e-12)) + (e == 0 ? 1e-300 : 0);     // differs beyond the printed precision
        c.begin([=] { return vf::J().k("class", KN[kind]).k("expected", e).k("actual", a).k("threshold", th).str(); });
        DoublesEqualFailure f(&sh, "f.cpp", 1, e, a, th, text);
        c.count("built_DoublesEqualFailure");
        judge_doubles(c, o, f.getMessage().asCharString(), e, a, "direct");
    } else {
        static const size_t BC[] = { 1, 2, 4, 8 };
        size_t bc = r.pick(BC);
        unsigned long e = (unsigned long) boundary_ll(r), a = (unsigned long) boundary_ll(r), mask = r.chance(30) ? ~0ul : (unsigned long) r.next() >> r.below(60);
        if (((e ^ a) & mask) == 0) { if (!mask) mask = 1; a ^= mask & (~mask + 1); }      // flip the lowest masked bit
        c.begin([=] { return vf::J().k("class", KN[kind]).k("expected", e).k("actual", a).k("mask", mask).k("bytes", (unsigned long) bc).str(); });
        BitsEqualFailure f(&sh, "f.cpp", 1, e, a, mask, bc, text);
        std::string msg = f.getMessage().asCharString();
        c.count("built_BitsEqualFailure");
        std::string re = ref_bits(e, mask, bc), ra = ref_bits(a, mask, bc);
        if (msg.find(re) == std::string::npos) o.v("operand-missing:BitsEqualFailure:expected", re + " not shown in " + vf::jstr(msg));
        if (msg.find(ra) == std::string::npos) o.v("operand-missing:BitsEqualFailure:actual", ra + " not shown in " + vf::jstr(msg));
        c.count("operand_renderings_checked", 2);
        if (re == ra) c.nontrivial("bits:" + std::to_string(e) + ":" + std::to_string(a) + ":" + std::to_string(mask) + ":" + std::to_string(bc));
    }
}

// ---------------------------------------------------------------- section: text-carrying failures
static void sec_fail_text(vf::Ctx& c) {
    vf::Rng& r = c.rng;
    int kind = (int) r.below(8);
    static const char* KN[] = { "EqualsFailure(cstr)", "EqualsFailure(SimpleString)", "ContainsFailure", "CheckFailure", "ComparisonFailure", "FailFailure", "FeatureUnsupportedFailure", "UnexpectedExceptionFailure" };
    std::string e, a; gen_pair(r, (int) r.below(R_IDENT), false, e, a);
    bool eNull = false, aNull = false;
    if (kind == 0 && r.chance(10)) { if (r.chance(50)) eNull = true; else aNull = true; }
    const char* text = r.pick(TEXTS);
    c.begin([=] { return vf::J().k("class", KN[kind]).k("a_hex", eNull ? std::string("NULL") : vf::hexbytes(e.data(), std::min<size_t>(e.size(), 200))).k("b_hex", aNull ? std::string("NULL") : vf::hexbytes(a.data(), std::min<size_t>(a.size(), 200))).k("a_len", (unsigned long) e.size()).k("b_len", (unsigned long) a.size()).str(); });
    Once o(c);
    HeapStr he, ha; if (!eNull) he.set(e); if (!aNull) ha.set(a);
    UtestShell sh("grp", "name", "test.cpp", 3);
    std::string msg; bool two = true;
    switch (kind) {
    case 0: { EqualsFailure f(&sh, "f.cpp", 1, (const char*) he.p, (const char*) ha.p, text); msg = f.getMessage().asCharString(); break; }
    case 1: { EqualsFailure f(&sh, "f.cpp", 1, SimpleString(he.p), SimpleString(ha.p), text); msg = f.getMessage().asCharString(); break; }
    case 2: { ContainsFailure f(&sh, "f.cpp", 1, SimpleString(he.p), SimpleString(ha.p), text); msg = f.getMessage().asCharString(); break; }
    case 3: { CheckFailure f(&sh, "f.cpp", 1, SimpleString(he.p), SimpleString(ha.p), text); msg = f.getMessage().asCharString(); break; }
    case 4: { ComparisonFailure f(&sh, "f.cpp", 1, SimpleString(he.p), SimpleString(ha.p), text); msg = f.getMessage().asCharString(); break; }
    case 5: { FailFailure f(&sh, "f.cpp", 1, SimpleString(he.p)); msg = f.getMessage().asCharString(); two = false; break; }
    case 6: { FeatureUnsupportedFailure f(&sh, "f.cpp", 1, SimpleString(he.p), text); msg = f.getMessage().asCharString(); two = false; break; }
    default: { std::runtime_error ex(he.p); UnexpectedExceptionFailure f(&sh, ex); msg = f.getMessage().asCharString(); two = false; break; }
    }
    c.count(std::string("built_") + KN[kind]);
    if (eNull ? false : !shows_raw(msg, e)) o.v(std::string("operand-missing:") + KN[kind] + ":first", "first operand not shown in " + vf::jstr(msg.substr(0, 300)));
    if (two && (aNull ? false : !shows_raw(msg, a))) o.v(std::string("operand-missing:") + KN[kind] + ":second", "second operand not shown in " + vf::jstr(msg.substr(0, 300)));
    c.count("operand_renderings_checked", two ? 2 : 1);
}

// ---------------------------------------------------------------- section: the same through the macros
enum MK { M_STRCMP, M_STRNCMP, M_NOCASE, M_CONTAINS, M_NOCASE_CONTAINS, M_CHECK_EQUAL_STR, M_CHECK_EQUAL_DBL, M_CHECK_EQUAL_LONG, M_LONGS, M_ULONGS, M_LL, M_ULL, M_BYTES, M_SBYTES,
          M_POINTERS, M_FUNCPTRS, M_DOUBLES, M_MEMCMP, M_BITS, M_FAIL, M_THROW, M_N };
static const char* MK_NAME[] = { "STRCMP_EQUAL", "STRNCMP_EQUAL", "STRCMP_NOCASE_EQUAL", "STRCMP_CONTAINS", "STRCMP_NOCASE_CONTAINS", "CHECK_EQUAL(SimpleString)", "CHECK_EQUAL(double)", "CHECK_EQUAL(long)", "LONGS_EQUAL", "UNSIGNED_LONGS_EQUAL",
                                 "LONGLONGS_EQUAL", "UNSIGNED_LONGLONGS_EQUAL", "BYTES_EQUAL", "SIGNED_BYTES_EQUAL", "POINTERS_EQUAL", "FUNCTIONPOINTERS_EQUAL", "DOUBLES_EQUAL", "MEMCMP_EQUAL", "BITS_EQUAL", "FAIL", "throw std::runtime_error" };
struct MacroArgs {
    int kind; const char* e; const char* a; size_t len; double d1, d2, th; long long i1, i2; unsigned long mask; int bits_width;
    const void* p1; const void* p2;
};
static MacroArgs g_m;
static void fp1() {} static void fp2() {}
static void macro_body() {
    const MacroArgs& m = g_m;
    switch (m.kind) {
    case M_STRCMP: STRCMP_EQUAL(m.e, m.a); break;
    case M_STRNCMP: STRNCMP_EQUAL(m.e, m.a, m.len); break;
    case M_NOCASE: STRCMP_NOCASE_EQUAL(m.e, m.a); break;
    case M_CONTAINS: STRCMP_CONTAINS(m.e, m.a); break;
    case M_NOCASE_CONTAINS: STRCMP_NOCASE_CONTAINS(m.e, m.a); break;
    case M_CHECK_EQUAL_STR: { SimpleString x(m.e), y(m.a); CHECK_EQUAL(x, y); break; }
    case M_CHECK_EQUAL_DBL: CHECK_EQUAL(m.d1, m.d2); break;
    case M_CHECK_EQUAL_LONG: { long x = (long) m.i1, y = (long) m.i2; CHECK_EQUAL(x, y); break; }
    case M_LONGS: LONGS_EQUAL(m.i1, m.i2); break;
    case M_ULONGS: UNSIGNED_LONGS_EQUAL(m.i1, m.i2); break;
    case M_LL: LONGLONGS_EQUAL(m.i1, m.i2); break;
    case M_ULL: UNSIGNED_LONGLONGS_EQUAL(m.i1, m.i2); break;
    case M_BYTES: BYTES_EQUAL(m.i1, m.i2); break;
    case M_SBYTES: SIGNED_BYTES_EQUAL((signed char) m.i1, (signed char) m.i2); break;
    case M_POINTERS: POINTERS_EQUAL(m.p1, m.p2); break;
    case M_FUNCPTRS: FUNCTIONPOINTERS_EQUAL(fp1, fp2); break;
    case M_DOUBLES: DOUBLES_EQUAL(m.d1, m.d2, m.th); break;
    case M_MEMCMP: MEMCMP_EQUAL(m.e, m.a, m.len); break;
    case M_BITS:
        switch (m.bits_width) {
        case 1: { unsigned char x = (unsigned char) m.i1, y = (unsigned char) m.i2; BITS_EQUAL(x, y, m.mask); break; }
        case 2: { unsigned short x = (unsigned short) m.i1, y = (unsigned short) m.i2; BITS_EQUAL(x, y, m.mask); break; }
        case 4: { unsigned int x = (unsigned int) m.i1, y = (unsigned int) m.i2; BITS_EQUAL(x, y, m.mask); break; }
        default: { unsigned long x = (unsigned long) m.i1, y = (unsigned long) m.i2; BITS_EQUAL(x, y, m.mask); break; }
        }
        break;
    case M_FAIL: FAIL(m.e); break;
    default: throw std::runtime_error(m.e);
    }
}

static void sec_fail_macros(vf::Ctx& c) {
    vf::Rng& r = c.rng;
    MacroArgs m; memset(&m, 0, sizeof m);
    m.kind = (int) r.below(M_N);
    if (r.chance(35)) m.kind = (int) r.below(M_CHECK_EQUAL_DBL + 1);          // string kinds and the double CHECK_EQUAL more often
    bool nocase = m.kind == M_NOCASE || m.kind == M_NOCASE_CONTAINS;
    std::string e, a;
    bool eNull = false, aNull = false;
    int rel = (int) r.below(R_IDENT);
    if (m.kind == M_MEMCMP) gen_binary(r, e, a);
    else { gen_pair(r, rel, nocase, e, a); force_unequal(e, a, nocase); }
    if ((m.kind == M_STRCMP || m.kind == M_STRNCMP || m.kind == M_NOCASE || m.kind == M_CONTAINS || m.kind == M_MEMCMP) && r.chance(3)) { if (r.chance(50)) eNull = true; else aNull = true; }
    size_t fd = first_diff(e, a, false);
    m.len = m.kind == M_MEMCMP ? e.size() : fd + 1 + (r.chance(50) ? 0 : r.below(40));      // STRNCMP: the difference lies inside the compared length
    m.i1 = boundary_ll(r); m.i2 = r.chance(30) ? (long long) ((unsigned long long) m.i1 + (unsigned long long) (long long) r.range(-1, 1)) : boundary_ll(r);
    m.d1 = gen_double(r); m.d2 = gen_double(r); m.th = 0.0001;
    if (r.chance(50) && std::isfinite(m.d1)) m.d2 = m.d1 * (1.0 + 1e-9) + (m.d1 == 0 ? 1e-300 : 0);
    static const int BW[] = { 1, 2, 4, 8 }; m.bits_width = r.pick(BW);
    m.mask = r.chance(30) ? ~0ul : (unsigned long) r.next() >> r.below(60);
    static char anchor[64]; m.p1 = &anchor[r.below(32)]; m.p2 = &anchor[32 + r.below(32)];
    if (r.chance(20)) m.p1 = nullptr;
    HeapStr he, ha;
    if (m.kind == M_MEMCMP) { if (!eNull) he.setbin(e); if (!aNull) ha.setbin(a); } else { if (!eNull) he.set(e); if (!aNull) ha.set(a); }
    m.e = he.p; m.a = ha.p;
    c.begin([=] { return vf::J().k("macro", MK_NAME[m.kind]).k("relation", REL_NAME[rel]).k("e_hex", eNull ? std::string("NULL") : vf::hexbytes(e.data(), std::min<size_t>(e.size(), 200))).k("a_hex", aNull ? std::string("NULL") : vf::hexbytes(a.data(), std::min<size_t>(a.size(), 200)))
                      .k("len", (unsigned long) m.len).k("i1", m.i1).k("i2", m.i2).k("d1", m.d1).k("d2", m.d2).k("mask", m.mask).k("width", m.bits_width).str(); });
    Once o(c);
    g_m = m;
    std::string out; size_t failures;
    {
        TestTestingFixture fx;
        fx.setTestFunction(macro_body);
        fx.runAllTests();
        failures = fx.getFailureCount();
        out = fx.getOutput().asCharString();
    }
    c.count(std::string("macro_") + MK_NAME[m.kind]);
    if (failures == 0) { c.count("macro_check_passed"); return; }
    c.count("macro_check_failed");
    const char* via = MK_NAME[m.kind];
    switch (m.kind) {
    case M_STRCMP: case M_STRNCMP: judge_string_failure(c, o, SK_STRCMP, out, eNull, e, aNull, a, via); break;
    case M_NOCASE: judge_string_failure(c, o, SK_NOCASE, out, eNull, e, aNull, a, via); break;
    case M_CHECK_EQUAL_STR: judge_string_failure(c, o, SK_CHECKEQ, out, false, e, false, a, via); break;
    case M_CONTAINS: case M_NOCASE_CONTAINS:
        if (eNull ? false : !shows_raw(out, e)) o.v("operand-missing:ContainsFailure:first", std::string(via) + ": expected operand not shown");
        if (aNull ? false : !shows_raw(out, a)) o.v("operand-missing:ContainsFailure:second", std::string(via) + ": actual operand not shown");
        c.count("operand_renderings_checked", 2);
        break;
    case M_CHECK_EQUAL_DBL: {
        // operands of the failure object are the printed forms (default precision): they may coincide
        std::string pe = fmtg(m.d1, 6), pa = fmtg(m.d2, 6);
        if (!std::isnan(m.d1) && !std::isinf(m.d1) && !std::isnan(m.d2) && !std::isinf(m.d2)) {
            if (!shows_double(out, m.d1) && out.find(pe) == std::string::npos) o.v("operand-missing:CheckEqualFailure:expected:double", std::string(via) + ": " + pe + " not shown in " + vf::jstr(out));
            if (!shows_double(out, m.d2) && out.find(pa) == std::string::npos) o.v("operand-missing:CheckEqualFailure:actual:double", std::string(via) + ": " + pa + " not shown in " + vf::jstr(out));
            c.count("operand_renderings_checked", 2);
            if (pe == pa) c.nontrivial("CHECK_EQUAL-dbl:" + fmtg(m.d1, 17) + ":" + fmtg(m.d2, 17));
        }
        break; }
    case M_CHECK_EQUAL_LONG: case M_LONGS: case M_ULONGS: case M_LL: case M_ULL: case M_BYTES: case M_SBYTES: {
        std::string de, da;
        switch (m.kind) {
        case M_CHECK_EQUAL_LONG: case M_LONGS: de = std::to_string((long) m.i1); da = std::to_string((long) m.i2); break;
        case M_ULONGS: de = std::to_string((unsigned long) m.i1); da = std::to_string((unsigned long) m.i2); break;
        case M_LL: de = std::to_string(m.i1); da = std::to_string(m.i2); break;
        case M_ULL: de = std::to_string((unsigned long long) m.i1); da = std::to_string((unsigned long long) m.i2); break;
        case M_BYTES: de = std::to_string((long) (m.i1 & 0xff)); da = std::to_string((long) (m.i2 & 0xff)); break;
        default: de = std::to_string((int) (signed char) m.i1); da = std::to_string((int) (signed char) m.i2); break;
        }
        if (!shows_integer(out, de)) o.v(std::string("operand-missing:") + via + ":expected", de + " not shown in " + vf::jstr(out));
        if (!shows_integer(out, da)) o.v(std::string("operand-missing:") + via + ":actual", da + " not shown in " + vf::jstr(out));
        c.count("operand_renderings_checked", 2);
        break; }
    case M_POINTERS: {
        char b1[40], b2[40]; snprintf(b1, sizeof b1, "0x%lx", (unsigned long) m.p1); snprintf(b2, sizeof b2, "0x%lx", (unsigned long) m.p2);
        if (!ci_contains(out, b1)) o.v("operand-missing:POINTERS_EQUAL:expected", std::string(b1) + " not shown in " + vf::jstr(out));
        if (!ci_contains(out, b2)) o.v("operand-missing:POINTERS_EQUAL:actual", std::string(b2) + " not shown in " + vf::jstr(out));
        c.count("operand_renderings_checked", 2);
        break; }
    case M_FUNCPTRS: {
        char b1[40], b2[40]; snprintf(b1, sizeof b1, "0x%lx", (unsigned long) (void*) fp1); snprintf(b2, sizeof b2, "0x%lx", (unsigned long) (void*) fp2);
        if (!ci_contains(out, b1) || !ci_contains(out, b2)) o.v("operand-missing:FUNCTIONPOINTERS_EQUAL", "function pointer values not shown in " + vf::jstr(out));
        c.count("operand_renderings_checked", 2);
        break; }
    case M_DOUBLES: judge_doubles(c, o, out, m.d1, m.d2, via); break;
    case M_MEMCMP: judge_binary(c, o, out, eNull, e, aNull, a, via); break;
    case M_BITS: {
        std::string re = ref_bits((unsigned long) m.i1, m.mask, (size_t) m.bits_width), ra = ref_bits((unsigned long) m.i2, m.mask, (size_t) m.bits_width);
        if (out.find(re) == std::string::npos) o.v("operand-missing:BitsEqualFailure:expected", std::string(via) + ": " + re + " not shown in " + vf::jstr(out));
        if (out.find(ra) == std::string::npos) o.v("operand-missing:BitsEqualFailure:actual", std::string(via) + ": " + ra + " not shown in " + vf::jstr(out));
        c.count("operand_renderings_checked", 2);
        if (re == ra) c.nontrivial("BITS_EQUAL:" + re + ":" + std::to_string(m.i1) + ":" + std::to_string(m.i2));
        break; }
    default:
        if (!shows_raw(out, e)) o.v(std::string("operand-missing:") + (m.kind == M_FAIL ? "FailFailure" : "UnexpectedExceptionFailure") + ":first", std::string(via) + ": text not shown in " + vf::jstr(out.substr(0, 300)));
        c.count("operand_renderings_checked", 1);
        break;
    }
}

// ================================================================ part 2: the detector's fixed text buffer
enum { BUFCAP = SimpleStringBuffer::SIMPLE_STRING_BUFFER_LEN };      // 4096: text length must stay <= 4095
enum Per { P_ALL = mem_leak_period_all, P_DISABLED = mem_leak_period_disabled, P_ENABLED = mem_leak_period_enabled, P_CHECKING = mem_leak_period_checking };
static const char* PER_NAME[] = { "all", "disabled", "enabled", "checking" };

struct Leak { char* mem; size_t size; unsigned number; const char* file; int line; TestMemoryAllocator* alloc; int period; bool sep; };

struct DetCase;
struct Rep : public MemoryLeakFailure {
    DetCase* owner = nullptr;
    void fail(char* s) override;
};

static char g_bogus[256];

struct DetCase {
    vf::Ctx& c; Once o; Rep rep;
    void* raw = nullptr; MemoryLeakDetector* d = nullptr;
    std::vector<Leak> live; std::vector<char*> strings;
    int period = P_DISABLED;
    bool dead = false;                 // canary damaged / text unterminated: the object is not trustworthy any more
    bool crossed = false;              // some text reached the write limit (non-trivial rule)
    uint64_t callbacks = 0;
    std::string shape;                 // history shape for the signature

    DetCase(vf::Ctx& cc) : c(cc), o(cc) {
        rep.owner = this;
        raw = malloc(sizeof(MemoryLeakDetector));
        d = new (raw) MemoryLeakDetector(&rep);
    }
    const char* keep(const std::string& s) { char* p = (char*) malloc(s.size() + 1); memcpy(p, s.c_str(), s.size() + 1); strings.push_back(p); return p; }

    char* text() { return const_cast<SimpleStringBuffer&>(d->verifOutputBuffer()).toString(); }

    // invariant monitor: called after every operation and inside every callback
    void monitor(const char* after, const char* handed = nullptr) {
        if (dead) return;
        const SimpleStringBuffer& b = d->verifOutputBuffer();
        c.count("canary_consulted");
        if (!b.verifCanaryIntact()) { o.v(std::string("buffer:canary-damaged:after=") + after, "the 32 guard bytes directly behind the 4096 byte text buffer were overwritten"); dead = true; return; }
        const char* t = handed ? handed : text();
        size_t n = strnlen(t, BUFCAP);
        c.count(handed ? "callback_texts_measured" : "buffer_texts_measured");
        if (n >= BUFCAP) { o.v(std::string("buffer:text-unterminated:after=") + after, "no terminator within the 4096 bytes of the buffer"); dead = true; return; }
        if (n == BUFCAP - 1) { c.count("texts_at_full_capacity_4095"); crossed = true; }
        size_t filled = b.verifPositionsFilled();
        if (filled != strnlen(text(), BUFCAP)) c.count("obs_fill_position_differs_from_strlen");
        if (filled > BUFCAP - 1) c.count("obs_fill_position_beyond_buffer");
        if (b.verifWriteLimit() > BUFCAP - 1) c.count("obs_write_limit_beyond_buffer");
    }

    void set_period(int how) {
        switch (how) {
        case 0: d->startChecking(); period = P_CHECKING; c.count("op_startChecking"); shape += "S"; monitor("startChecking"); if (!dead && text()[0] != 0) c.count("obs_text_not_empty_after_startChecking"); break;
        case 1: d->stopChecking(); period = P_ENABLED; shape += "s"; break;
        case 2: d->enable(); period = P_ENABLED; shape += "e"; break;
        default: d->disable(); period = P_DISABLED; shape += "d"; break;
        }
    }

    Leak* alloc(TestMemoryAllocator* al, size_t size, const char* file, int line, bool sep, vf::Rng& r) {
        Leak l; l.number = d->getCurrentAllocationNumber();
        l.mem = d->allocMemory(al, size, file, (size_t) line, sep);
        if (!l.mem) return nullptr;
        l.size = size; l.file = file; l.line = line; l.alloc = al; l.period = period; l.sep = sep;
        int mode = (int) r.below(4);
        for (size_t i = 0; i < size; i++) l.mem[i] = mode == 0 ? (char) ('a' + i % 26) : mode == 1 ? (char) r.below(256) : mode == 2 ? 0 : "<>%|.\n"[r.below(6)];
        live.push_back(l);
        c.count("op_leak_allocated");
        return &live.back();
    }
    void release(size_t i) {
        Leak l = live[i]; live.erase(live.begin() + (long) i);
        d->deallocMemory(l.alloc, l.mem, "rel.cpp", 1, l.sep);
    }

    // one misuse report: 0 non-allocated, 1 type mismatch, 2 corruption
    void misuse(int kind, const char* fa, int la, const char* ff, int lf, size_t size, TestMemoryAllocator* A, TestMemoryAllocator* B, bool sep) {
        if (dead) return;
        uint64_t before = callbacks;
        switch (kind) {
        case 0: d->deallocMemory(A, (void*) &g_bogus[(size + (size_t) lf) % sizeof g_bogus], ff, (size_t) lf, sep); c.count("op_misuse_non_allocated"); shape += "n"; break;
        case 1: { char* m = d->allocMemory(A, size, fa, (size_t) la, sep); if (m) d->deallocMemory(B, m, ff, (size_t) lf, sep); c.count("op_misuse_type_mismatch"); shape += "m"; break; }
        default: { char* m = d->allocMemory(A, size, fa, (size_t) la, sep); if (m) { m[size] = (char) (m[size] ^ 0x5a); d->deallocMemory(A, m, ff, (size_t) lf, sep); } c.count("op_misuse_corruption"); shape += "c"; break; }
        }
        if (callbacks == before) c.count("obs_misuse_without_callback");
        monitor("misuse-report");
    }

    size_t model_count(int p) const {
        size_t n = 0;
        for (const Leak& l : live) if (p == P_ALL || l.period == p || (l.period != P_DISABLED && p == P_ENABLED)) n++;
        return n;
    }
    const Leak* by_number(unsigned num, int p) const {
        for (const Leak& l : live) if (l.number == num && (p == P_ALL || l.period == p || (l.period != P_DISABLED && p == P_ENABLED))) return &l;
        return nullptr;
    }

    void report(int p);
    void judge_cleared_report(const std::string& t, int p);

    void finish() {
        if (!dead) {
            while (!live.empty()) release(live.size() - 1);
            monitor("cleanup");
        }
        if (!dead) { d->~MemoryLeakDetector(); free(raw); }
        for (char* s : strings) free(s);
        if (crossed) c.nontrivial(shape);
    }
};

void Rep::fail(char* s) {
    owner->callbacks++;
    owner->c.count("misuse_callbacks");
    owner->monitor("misuse-callback", s);
}

// independent rendering of one report entry (header line + hex dump)
static std::string render_entry(const Leak& l) {
    std::string o;
    int n = snprintf(nullptr, 0, "Alloc num (%u) Leak size: %lu Allocated at: %s and line: %d. Type: \"%s\"\n\tMemory: <%p> Content:\n", l.number, (unsigned long) l.size, l.file, l.line, l.alloc->alloc_name(), (void*) l.mem);
    o.resize((size_t) n + 1);
    snprintf(&o[0], o.size(), "Alloc num (%u) Leak size: %lu Allocated at: %s and line: %d. Type: \"%s\"\n\tMemory: <%p> Content:\n", l.number, (unsigned long) l.size, l.file, l.line, l.alloc->alloc_name(), (void*) l.mem);
    o.resize((size_t) n);
    char b[32];
    for (size_t pos = 0; pos < l.size; pos += 16) {
        size_t k = std::min<size_t>(16, l.size - pos);
        snprintf(b, sizeof b, "    %04lx: ", (unsigned long) pos); o += b;
        for (size_t i = 0; i < k; i++) { snprintf(b, sizeof b, "%02x ", (unsigned) (unsigned char) l.mem[pos + i]); o += b; if (i == 7) o += ' '; }
        for (size_t i = k; i < 16; i++) o += "   ";
        if (16 - k > 8) o += ' ';
        o += '|';
        for (size_t i = 0; i < k; i++) { unsigned char ch = (unsigned char) l.mem[pos + i]; o += (ch >= 0x20 && ch <= 0x7e) ? (char) ch : '.'; }
        o += "|\n";
    }
    return o;
}

void DetCase::judge_cleared_report(const std::string& t, int p) {
    size_t N = model_count(p);
    c.count("reports_on_cleared_buffer");
    static const std::string FOOT = "Total number of leaks:";
    size_t ft = t.rfind(FOOT);
    bool have_total = false; unsigned long total = 0;
    if (ft != std::string::npos) {
        size_t k = ft + FOOT.size(); while (k < t.size() && t[k] == ' ') k++;
        if (k < t.size() && isdigit((unsigned char) t[k])) { have_total = true; total = strtoul(t.c_str() + k, nullptr, 10); }
    }
    std::string cls = std::string("period=") + PER_NAME[p];
    if (N == 0) {
        if (t.find("Alloc num (") != std::string::npos) o.v("report:cleared:entries-without-leaks", "report lists entries although no block is live in the period: " + vf::jstr(t.substr(0, 300)));
        if (have_total && total != 0) o.v("report:cleared:total-wrong:zero-leaks", cls + ": footer says " + std::to_string(total) + " leaks, true count 0");
        c.count("cleared_reports_zero_leaks");
        return;
    }
    if (!have_total) o.v("report:cleared:total-missing", "no 'Total number of leaks: N' in a report of " + std::to_string(N) + " leaks (text length " + std::to_string(t.size()) + "): ..." + vf::jstr(t.substr(t.size() > 200 ? t.size() - 200 : 0)));
    else if (total != N) o.v("report:cleared:total-wrong", cls + ": footer says " + std::to_string(total) + ", true count " + std::to_string(N));
    else c.count("cleared_report_totals_correct");
    // entries
    static const std::string HEAD = "Memory leak(s) found.\n", AN = "Alloc num (";
    if (t.compare(0, HEAD.size(), HEAD) != 0) { c.count("obs_cleared_report_unparsed"); return; }
    size_t cur = HEAD.size(), complete = 0; bool unknown = false;
    std::set<unsigned> seen;
    for (;;) {
        if (t.compare(cur, AN.size(), AN) != 0) break;
        size_t k = cur + AN.size(), k0 = k; while (k < t.size() && isdigit((unsigned char) t[k])) k++;
        if (k == k0 || k >= t.size() || t[k] != ')') break;                  // fragment cut inside the number
        unsigned num = (unsigned) strtoul(t.c_str() + k0, nullptr, 10);
        const Leak* l = by_number(num, p);
        if (!l) { unknown = true; break; }
        std::string E = render_entry(*l);
        size_t common = 0; while (common < E.size() && cur + common < t.size() && t[cur + common] == E[common]) common++;
        if (common == E.size()) {
            if (!seen.insert(num).second) o.v("report:cleared:entry-duplicated", "allocation " + std::to_string(num) + " listed twice");
            complete++; cur += common; continue;
        }
        cur += common; break;                                                   // truncated (or differently formatted) entry
    }
    std::string tail = t.substr(cur);
    if (unknown || tail.find("\n" + AN) != std::string::npos) { c.count("obs_cleared_report_unparsed"); return; }     // format disagreement: no verdict on dropped entries
    c.count("cleared_reports_fully_parsed");
    c.count("cleared_report_entries_matched", complete);
    bool notice = tail.find("Too many memory leaks") != std::string::npos;
    if (complete < N) {
        c.count("cleared_reports_with_dropped_entries"); crossed = true;
        if (!notice) o.v("report:cleared:dropped-without-notice", std::to_string(N - complete) + " of " + std::to_string(N) + " leaks not (fully) listed and no 'Too many memory leaks' notice; tail=" + vf::jstr(tail.substr(0, 200)));
    } else { c.count("cleared_reports_all_listed"); if (notice) { c.count("cleared_reports_exact_fit_with_notice"); crossed = true; } }
    // tail cut at the very end of the buffer (design mutant: footer reservation too small) — outside the property text
    if (!t.empty() && t[t.size() - 1] != '\n') { c.count("obs_cleared_report_tail_cut"); if (g_ext) o.v("ext:report:cleared:tail-cut-at-buffer-end", "report does not end with a complete line: ..." + vf::jstr(t.substr(t.size() > 120 ? t.size() - 120 : 0))); }
}

void DetCase::report(int p) {
    if (dead) return;
    bool cleared = text()[0] == 0;
    shape += cleared ? "R" : "r"; shape += PER_NAME[p][0];
    const char* t = d->report((MemLeakPeriod) p);
    c.count("op_report");
    if (dead) return;
    size_t n = strnlen(t, BUFCAP);
    c.count("report_texts_measured");
    c.count("canary_consulted");
    if (!d->verifOutputBuffer().verifCanaryIntact()) { o.v("buffer:canary-damaged:after=report", "the guard bytes behind the text buffer were overwritten by report()"); dead = true; return; }
    if (n >= BUFCAP) { o.v("buffer:text-unterminated:after=report", "report() returned a text without terminator inside the buffer"); dead = true; return; }
    monitor("report");
    if (dead) return;
    if (cleared) judge_cleared_report(std::string(t, n), p); else c.count("reports_on_used_buffer");
}

static TestMemoryAllocator* pick_alloc(vf::Rng& r) {
    switch (r.below(3)) { case 0: return defaultNewAllocator(); case 1: return defaultNewArrayAllocator(); default: return defaultMallocAllocator(); }
}
static std::string gen_file(vf::Rng& r) {
    size_t len; unsigned k = (unsigned) r.below(100);
    if (k < 10) len = 0; else if (k < 60) len = 1 + r.below(30); else if (k < 90) len = 31 + r.below(120); else len = 151 + r.below(150);
    std::string s; static const char AL[] = "abcdefghijklmnopqrstuvwxyz0123456789/._- ";
    int hostile = (int) r.below(10);
    for (size_t i = 0; i < len; i++) s += hostile == 0 ? "%s%n%d%"[r.below(8)] : AL[r.below(sizeof AL - 1)];
    return s;
}
static void one_misuse(DetCase& D, vf::Rng& r) {
    int kind = (int) r.below(3);
    TestMemoryAllocator* A = pick_alloc(r); TestMemoryAllocator* B = A;
    if (kind == 1) { do B = pick_alloc(r); while (B == A); }
    D.misuse(kind, D.keep(gen_file(r)), r.range(0, 100000), D.keep(gen_file(r)), r.range(0, 100000), (size_t) r.below(40), A, B, r.chance(15));
}
static size_t gen_leak_size(vf::Rng& r) { return r.chance(25) ? 0 : r.chance(60) ? r.below(33) : r.below(201); }
static void add_leaks(DetCase& D, vf::Rng& r, size_t n, int allocmode) {
    const char* shared = D.keep(gen_file(r));
    for (size_t i = 0; i < n && !D.dead; i++) {
        TestMemoryAllocator* A = allocmode == 0 ? pick_alloc(r) : allocmode == 1 ? defaultNewAllocator() : defaultMallocAllocator();
        D.alloc(A, gen_leak_size(r), r.chance(20) ? D.keep(gen_file(r)) : shared, r.range(0, 2000000), r.chance(10), r);
    }
    D.shape += "L" + std::to_string(n);
}

// section: many misuse reports (no clearing), then a report — the history of D12
static void sec_det_flood(vf::Ctx& c) {
    vf::Rng& r = c.rng;
    size_t nm = r.chance(20) ? r.below(30) : r.below(401), nl = r.chance(30) ? 0 : r.chance(70) ? 1 + r.below(40) : 1 + r.below(400);
    int per = r.chance(70) ? P_ALL : (int) r.below(4);
    bool again = r.chance(40);
    c.begin([=] { return vf::J().k("shape", "flood").k("misuse_reports", (unsigned long) nm).k("leaks", (unsigned long) nl).k("report_period", PER_NAME[per]).k("second_report", again).str(); });
    DetCase D(c);
    if (r.chance(50)) D.set_period(2);
    for (size_t i = 0; i < nm && !D.dead; i++) one_misuse(D, r);
    add_leaks(D, r, nl, (int) r.below(3));
    D.report(per);
    if (again) { if (r.chance(50)) one_misuse(D, r); D.report(P_ALL); }
    D.finish();
}

// section: report begun on a cleared buffer
static void sec_det_cleared(vf::Ctx& c) {
    vf::Rng& r = c.rng;
    size_t nm = r.chance(50) ? 0 : r.below(60);
    size_t nl; unsigned k = (unsigned) r.below(100);
    if (k < 8) nl = 0; else if (k < 50) nl = 1 + r.below(12); else if (k < 90) nl = 13 + r.below(60); else nl = 73 + r.below(300);
    size_t pre = r.chance(40) ? r.below(6) : 0;
    int per = r.chance(60) ? P_CHECKING : (int) r.below(4);
    bool stop = r.chance(50);
    int allocmode = (int) r.below(3);
    c.begin([=] { return vf::J().k("shape", "cleared").k("misuse_before_clear", (unsigned long) nm).k("older_blocks", (unsigned long) pre).k("leaks", (unsigned long) nl).k("report_period", PER_NAME[per]).k("stopChecking", stop).k("allocators", allocmode).str(); });
    DetCase D(c);
    if (pre) { D.set_period(r.chance(50) ? 2 : 3); add_leaks(D, r, pre, 0); }
    for (size_t i = 0; i < nm && !D.dead; i++) one_misuse(D, r);
    D.set_period(0);
    add_leaks(D, r, nl, allocmode);
    if (r.chance(30) && !D.live.empty()) D.release(r.below(D.live.size()));
    if (stop) D.set_period(1);
    D.report(per);
    if (r.chance(20)) D.report(per);
    D.finish();
}

static size_t probe_report_limit() {
    static size_t cached = 0;
    if (cached) return cached;
    struct Nop : MemoryLeakFailure { void fail(char*) override {} } nop;
    void* raw = malloc(sizeof(MemoryLeakDetector));
    MemoryLeakDetector* d = new (raw) MemoryLeakDetector(&nop);
    d->report(mem_leak_period_all);                                  // no leaks: the lowered limit stays in place
    size_t l = d->verifOutputBuffer().verifWriteLimit();
    d->~MemoryLeakDetector(); free(raw);
    cached = (l >= 1000 && l < BUFCAP - 1) ? l : 3600;
    return cached;
}

// section: cleared-buffer reports whose full text length is limit+delta, delta = -160..160 byte by byte
static const uint64_t STRADDLE_CASES = 321ull * 2 * 2;
static void sec_det_straddle(vf::Ctx& c) {
    vf::Rng& r = c.rng;
    int delta = (int) (c.idx % 321) - 160; int am = (int) (c.idx / 321 % 2); size_t lastsize = (c.idx / 642 % 2) ? 24 : 0;
    size_t limit = probe_report_limit();
    c.begin([=] { return vf::J().k("shape", "straddle").k("limit_probed", (unsigned long) limit).k("delta", delta).k("allocator", am ? "malloc" : "new").k("last_leak_size", (unsigned long) lastsize).str(); });
    DetCase D(c);
    D.set_period(0);
    TestMemoryAllocator* A = am ? defaultMallocAllocator() : defaultNewAllocator();
    size_t target = (size_t) ((long) limit + delta), total = 22;
    static const size_t SZ[] = { 0, 5, 16, 33 };
    while (!D.dead) {
        size_t before = D.live.size();
        Leak* l = D.alloc(A, r.pick(SZ), D.keep(gen_file(r).substr(0, 40)), r.range(1, 9999), false, r);
        if (!l) break;
        size_t el = render_entry(*l).size();
        if (total + el + 700 > target) { D.release(before); break; }
        total += el;
    }
    char* fbuf = (char*) malloc(1200); memset(fbuf, 'f', 1199); fbuf[1199] = 0; D.strings.push_back(fbuf);
    Leak* last = D.alloc(A, lastsize, fbuf, 4242, false, r);
    if (last && !D.dead) {
        fbuf[0] = 0; size_t base = render_entry(*last).size(); fbuf[0] = 'f';
        long need = (long) target - (long) total - (long) base;
        if (need < 0) need = 0; if (need > 1198) need = 1198;
        fbuf[need] = 0;
        total += base + (size_t) need;
        c.count(total == target ? "straddle_target_hit_exactly" : "straddle_target_missed");
    }
    D.shape = "straddle:" + std::to_string(delta) + ":" + std::to_string(am) + ":" + std::to_string(lastsize);
    D.report(P_CHECKING);
    D.finish();
}

// section: free mixture of operations, several reports on one buffer
static void sec_det_mixed(vf::Ctx& c) {
    vf::Rng& r = c.rng;
    size_t nops = 5 + r.below(r.chance(20) ? 300 : 60);
    c.begin([=] { return vf::J().k("shape", "mixed").k("operations", (unsigned long) nops).str(); });
    DetCase D(c);
    for (size_t i = 0; i < nops && !D.dead; i++) {
        unsigned k = (unsigned) r.below(100);
        if (k < 40) one_misuse(D, r);
        else if (k < 65) add_leaks(D, r, 1 + r.below(r.chance(10) ? 80 : 6), 0);
        else if (k < 75) { if (!D.live.empty()) D.release(r.below(D.live.size())); }
        else if (k < 83) D.set_period((int) r.below(4));
        else D.report((int) r.below(4));
    }
    D.report(P_ALL);
    D.finish();
}

// section: up to thousands of leaks
static void sec_det_many(vf::Ctx& c) {
    vf::Rng& r = c.rng;
    size_t nl = 300 + r.below(c.thorough ? 4701 : 2201);
    if (r.chance(15)) nl = 5000;
    bool cleared = r.chance(70);
    size_t nm = cleared ? 0 : r.below(50);
    c.begin([=] { return vf::J().k("shape", "many").k("leaks", (unsigned long) nl).k("cleared", cleared).k("misuse_reports", (unsigned long) nm).str(); });
    DetCase D(c);
    for (size_t i = 0; i < nm && !D.dead; i++) one_misuse(D, r);
    if (cleared) D.set_period(0);
    add_leaks(D, r, nl, (int) r.below(3));
    D.report(cleared ? P_CHECKING : P_ALL);
    D.finish();
}

static void init() {
    const char* e = getenv("VERIF_C14_EXT");
    g_ext = e && *e && strcmp(e, "0") != 0;
    MemoryLeakWarningPlugin::turnOffNewDeleteOverloads();       // harness bookkeeping (and SimpleString buffers) straight from malloc: exact ASan redzones
}

int main(int argc, char** argv) {
    std::vector<vf::Section> S = {
        { "fail_ctrl_bytes", CTRL_CASES, CTRL_CASES, sec_fail_ctrl, true },
        { "fail_strings", 30000, 1200000, sec_fail_strings, false },
        { "fail_binary", 6000, 200000, sec_fail_binary, false },
        { "fail_numeric", 8000, 300000, sec_fail_numeric, false },
        { "fail_text", 6000, 200000, sec_fail_text, false },
        { "fail_macros", 8000, 150000, sec_fail_macros, false },
        { "det_straddle", STRADDLE_CASES, STRADDLE_CASES, sec_det_straddle, false },
        { "det_flood", 700, 25000, sec_det_flood, false },
        { "det_cleared", 1200, 40000, sec_det_cleared, false },
        { "det_mixed", 900, 20000, sec_det_mixed, false },
        { "det_many", 40, 1200, sec_det_many, false },
    };
    return vf::harness_main(argc, argv, S, init);
}
