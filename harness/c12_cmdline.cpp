// C12 — command line: every argv is parsed safely and means what the help text says.
//
// Oracle: an independent reference parser of the grammar printed by the help text. It does not dispatch
// on prefixes in some order: it enumerates *all* ways an argument vector can be read as a sequence of
// documented options (exact flags; value options in attached or separated form with values from the
// option's documented domain; [IGNORE_]TEST(group, name)) and only speaks when there is exactly ONE
// such reading. Then the documented configuration is unambiguous and is compared with every getter of
// CommandLineArguments, and applied: CommandLineTestRunner(ac, av, probeRegistry).runAllTestsMain() with
// console / file / separate-process seams captured; the executed tests must be what the reference
// configuration selects by the rule C02 states (a test runs iff some group filter and some name filter
// accept it). Vectors with no such reading (hostile bytes, mutations, unknown options, values outside the
// documented domain) are judged for memory safety (ASan/UBSan, exact-size argv blocks), termination and
// for the rejection clause only: parse() == false  =>  usage or help printed and no test ran.
//
// Scoping (DESIGN.md section 5): filter lists are compared as multisets (OR-ed, order is not documented);
// a scalar option given several times with different values may yield any of the given values (the help
// text does not say which occurrence wins; which one won is recorded as an evidence counter); for -o the runner must
// then apply the kind the getters settled on (every sequence of 1..3 -o options is enumerated in its own section);
// unknown options / out-of-domain values are not *required* to be rejected (the property does not say so).
//
// Environment as a workload dimension: the only input of the parser besides argv is the millisecond clock
// (default shuffle seed). Every case runs under a pinned GetPlatformSpecificTimeInMillis seam whose reading is
// part of the case (realistic values, the 32-bit truncation lattice m*2^32+d, 2^k+d, 0, ULONG_MAX; constant or
// advancing by one per read); the lattice is enumerated completely for unseeded -s vectors in its own section.
// A documented vector must be accepted whatever the clock reads.
// Applied verbosity: -vv is judged differentially - the same vector with every -vv replaced by -v, same registry,
// same clock, must print strictly less on the console ("print internal information during test run").
// Applied colour: -c ("colorize output, print green if OK, or red if failed") is judged on every result line ("OK (" /
// "Errors (") of whichever console stream the output kind owns - the plain console, the console next to the junit files
// under -v / -vv, the teamcity console; the format options x output kind x outcome (passing / failing probes) product is
// enumerated in its own section. Without -c no escape sequence may be printed.
#include "verif.h"
#include <climits>
#include <string>
#include <vector>
#include <map>
#include <set>
#include <algorithm>

// ---------------------------------------------------------------- raw argv in exact-size libc blocks
// (defined before any CppUTest header: plain malloc/free, no guard bytes after the strings, no av[ac] slot,
// so that ASan sees a read one byte past a string or one slot past the vector)
struct RawArgv { int ac; char** av; };
static RawArgv raw_make(const std::vector<std::string>& args) {
    RawArgv r; r.ac = (int) args.size() + 1;
    r.av = (char**) malloc(sizeof(char*) * (size_t) r.ac);
    r.av[0] = (char*) malloc(5); memcpy(r.av[0], "prog", 5);
    for (size_t i = 0; i < args.size(); i++) {
        r.av[i + 1] = (char*) malloc(args[i].size() + 1);
        memcpy(r.av[i + 1], args[i].c_str(), args[i].size() + 1);
    }
    return r;
}
static void raw_free(RawArgv& r) { for (int i = 0; i < r.ac; i++) free(r.av[i]); free(r.av); r.av = nullptr; }

#include "CppUTest/TestHarness.h"
#include "CppUTest/TestRegistry.h"
#include "CppUTest/TestOutput.h"
#include "CppUTest/TestFilter.h"
#include "CppUTest/CommandLineArguments.h"
#include "CppUTest/CommandLineTestRunner.h"
#include "CppUTest/PlatformSpecificFunctions.h"

typedef std::vector<std::string> Args;

// ================================================================ reference grammar (from the help text)
static const char* FLAGS[] = { "-h", "-v", "-vv", "-c", "-p", "-b", "-lg", "-ln", "-ll", "-ri", "-f", "-e", "-ci" };
enum Dom { D_IDENT, D_DOTTED, D_REPEAT, D_SEED, D_OUTPUT };
struct ValOpt { const char* name; Dom dom; bool optional; char target; bool strict, invert; };
// target: 'g' group filter, 'n' name filter, 't' group.name, 'r' repeat, 's' shuffle, 'o' output, 'k' package
static const ValOpt VALOPTS[] = {
    { "-g", D_IDENT, false, 'g', false, false }, { "-sg", D_IDENT, false, 'g', true, false }, { "-xg", D_IDENT, false, 'g', false, true }, { "-xsg", D_IDENT, false, 'g', true, true },
    { "-n", D_IDENT, false, 'n', false, false }, { "-sn", D_IDENT, false, 'n', true, false }, { "-xn", D_IDENT, false, 'n', false, true }, { "-xsn", D_IDENT, false, 'n', true, true },
    { "-t", D_DOTTED, false, 't', false, false }, { "-st", D_DOTTED, false, 't', true, false }, { "-xt", D_DOTTED, false, 't', false, true }, { "-xst", D_DOTTED, false, 't', true, true },
    { "-r", D_REPEAT, true, 'r', false, false }, { "-s", D_SEED, true, 's', false, false },
    { "-o", D_OUTPUT, false, 'o', false, false }, { "-k", D_IDENT, false, 'k', false, false },
};
static const size_t NVALOPTS = sizeof(VALOPTS) / sizeof(VALOPTS[0]);

static bool is_ident(const std::string& s) {
    if (s.empty()) return false;
    for (unsigned char ch : s) if (!((ch >= 'a' && ch <= 'z') || (ch >= 'A' && ch <= 'Z') || (ch >= '0' && ch <= '9') || ch == '_')) return false;
    return true;
}
static bool parse_num(const std::string& s, unsigned long long maxv, unsigned long long& out) {
    if (s.empty() || s.size() > 30) return false;
    unsigned long long v = 0;
    for (unsigned char ch : s) { if (ch < '0' || ch > '9') return false; v = v * 10 + (ch - '0'); if (v > maxv) return false; }
    out = v; return v >= 1;                       // 0 is outside the documented domain of both -r and -s
}
static bool is_dotted(const std::string& s, std::string& g, std::string& n) {
    size_t p = s.find('.');
    if (p == std::string::npos || s.find('.', p + 1) != std::string::npos) return false;
    g = s.substr(0, p); n = s.substr(p + 1);
    return is_ident(g) && is_ident(n);
}
static bool is_macro(const std::string& s, const char* prefix, std::string& g, std::string& n) {
    size_t pl = strlen(prefix);
    if (s.compare(0, pl, prefix) != 0 || s.size() < pl + 5 || s.back() != ')') return false;
    size_t comma = s.find(", ", pl);
    if (comma == std::string::npos) return false;
    g = s.substr(pl, comma - pl); n = s.substr(comma + 2, s.size() - 1 - (comma + 2));
    return is_ident(g) && is_ident(n);
}
static int output_kind(const std::string& s) { return s == "normal" || s == "eclipse" ? 0 : s == "junit" ? 1 : s == "teamcity" ? 2 : -1; }
static bool in_domain(Dom d, const std::string& v) {
    unsigned long long n; std::string a, b;
    switch (d) {
    case D_IDENT: return is_ident(v);
    case D_DOTTED: return is_dotted(v, a, b);
    case D_REPEAT: return parse_num(v, INT_MAX, n);
    case D_SEED: return parse_num(v, UINT_MAX, n);
    default: return output_kind(v) >= 0;
    }
}

enum Form { F_FLAG, F_ATTACHED, F_SEPARATED, F_NOVALUE, F_MACRO };
static const char* FORM_NAME[] = { "flag", "attached", "separated", "novalue", "macro" };
struct Item { std::string opt; Form form; std::string value; int consume; const ValOpt* vo; };
static std::string item_tag(const Item& it) { return it.opt + ":" + FORM_NAME[it.form]; }

static std::vector<Item> alternatives(const Args& a, size_t i) {
    std::vector<Item> out;
    const std::string& s = a[i];
    for (const char* f : FLAGS) if (s == f) out.push_back(Item{ f, F_FLAG, "", 1, nullptr });
    for (size_t k = 0; k < NVALOPTS; k++) {
        const ValOpt& o = VALOPTS[k]; size_t nl = strlen(o.name);
        if (s.size() > nl && s.compare(0, nl, o.name) == 0 && in_domain(o.dom, s.substr(nl))) out.push_back(Item{ o.name, F_ATTACHED, s.substr(nl), 1, &o });
        if (s == o.name) {
            if (i + 1 < a.size() && in_domain(o.dom, a[i + 1])) out.push_back(Item{ o.name, F_SEPARATED, a[i + 1], 2, &o });
            if (o.optional) out.push_back(Item{ o.name, F_NOVALUE, "", 1, &o });
        }
    }
    std::string g, n;
    if (is_macro(s, "TEST(", g, n)) out.push_back(Item{ "TEST(", F_MACRO, g + "." + n, 1, nullptr });
    if (is_macro(s, "IGNORE_TEST(", g, n)) out.push_back(Item{ "IGNORE_TEST(", F_MACRO, g + "." + n, 1, nullptr });
    return out;
}

struct RefFilter { std::string text; bool strict, invert; size_t item; };
struct RefCfg {
    int readings = 0;                       // 0, 1, 2 (= two or more)
    std::vector<Item> items;
    bool help = false, verbose = false, veryVerbose = false, color = false, sep = false, reverse = false, lg = false, ln = false, ll = false, ri = false, crash = false, norethrow = false;
    std::vector<unsigned long long> repeats; std::vector<size_t> repeatItems;
    std::vector<long long> seeds;           // -1: occurrence without a seed
    std::vector<int> outputs; std::vector<std::string> packages; std::vector<size_t> packageItems;
    std::vector<RefFilter> gf, nf;
    int valueOpts = 0, attached = 0, separated = 0;
};

static RefCfg ref_parse(const Args& a) {
    RefCfg R; size_t n = a.size();
    std::vector<int> ways(n + 1, 0); ways[n] = 1;
    std::vector<std::vector<Item>> alts(n);
    for (size_t i = n; i-- > 0;) {
        alts[i] = alternatives(a, i);
        int w = 0;
        for (const Item& it : alts[i]) w += ways[i + (size_t) it.consume];
        ways[i] = w > 2 ? 2 : w;
    }
    R.readings = ways[0];
    if (R.readings != 1) return R;
    for (size_t i = 0; i < n;) {
        const Item* pick = nullptr;
        for (const Item& it : alts[i]) if (ways[i + (size_t) it.consume] == 1) pick = &it;
        R.items.push_back(*pick); i += (size_t) pick->consume;
    }
    for (size_t k = 0; k < R.items.size(); k++) {
        const Item& it = R.items[k];
        if (it.form == F_FLAG) {
            if (it.opt == "-h") R.help = true; else if (it.opt == "-v") R.verbose = true; else if (it.opt == "-vv") R.veryVerbose = true;
            else if (it.opt == "-c") R.color = true; else if (it.opt == "-p") R.sep = true; else if (it.opt == "-b") R.reverse = true;
            else if (it.opt == "-lg") R.lg = true; else if (it.opt == "-ln") R.ln = true; else if (it.opt == "-ll") R.ll = true;
            else if (it.opt == "-ri") R.ri = true; else if (it.opt == "-f") R.crash = true; else R.norethrow = true;   // -e, -ci
            continue;
        }
        if (it.form == F_MACRO) {
            std::string g, nm; is_dotted(it.value, g, nm);
            R.gf.push_back(RefFilter{ g, true, false, k }); R.nf.push_back(RefFilter{ nm, true, false, k });
            continue;
        }
        if (it.form != F_NOVALUE) { R.valueOpts++; if (it.form == F_ATTACHED) R.attached++; else R.separated++; }
        unsigned long long num = 0; std::string g, nm;
        switch (it.vo->target) {
        case 'g': R.gf.push_back(RefFilter{ it.value, it.vo->strict, it.vo->invert, k }); break;
        case 'n': R.nf.push_back(RefFilter{ it.value, it.vo->strict, it.vo->invert, k }); break;
        case 't': is_dotted(it.value, g, nm);
            R.gf.push_back(RefFilter{ g, it.vo->strict, it.vo->invert, k }); R.nf.push_back(RefFilter{ nm, it.vo->strict, it.vo->invert, k }); break;
        case 'r': if (it.form == F_NOVALUE) num = 2; else parse_num(it.value, INT_MAX, num);
            R.repeats.push_back(num); R.repeatItems.push_back(k); break;
        case 's': if (it.form == F_NOVALUE) R.seeds.push_back(-1); else { parse_num(it.value, UINT_MAX, num); R.seeds.push_back((long long) num); } break;
        case 'o': R.outputs.push_back(output_kind(it.value)); break;
        default: R.packages.push_back(it.value); R.packageItems.push_back(k); break;
        }
    }
    return R;
}

static bool ref_accepts(const RefFilter& f, const std::string& s) {
    bool m = f.strict ? s == f.text : s.find(f.text) != std::string::npos;
    return f.invert ? !m : m;
}
static bool ref_any(const std::vector<RefFilter>& fs, const std::string& s) {
    if (fs.empty()) return true;
    for (const RefFilter& f : fs) if (ref_accepts(f, s)) return true;
    return false;
}

// ================================================================ probe registry and seams
struct ProbeSpec { std::string group, name; bool ignored; bool fails = false; };     // fails: the body records its execution, then fails a check
static std::vector<int>* g_exec = nullptr;

class ProbeTest : public Utest {
public:
    int id_; bool fails_;
    ProbeTest(int id, bool fails) : id_(id), fails_(fails) {}
    void testBody() CPPUTEST_OVERRIDE { if (g_exec) g_exec->push_back(id_); if (fails_) FAIL("probe failure"); }
};
class ProbeShell : public UtestShell {
public:
    int id_; bool fails_;
    ProbeShell(const char* g, const char* n, const char* f, size_t l, int id, bool fails) : UtestShell(g, n, f, l), id_(id), fails_(fails) {}
    Utest* createTest() CPPUTEST_OVERRIDE { return new ProbeTest(id_, fails_); }
};
class ProbeIgnoredShell : public IgnoredUtestShell {
public:
    int id_; bool fails_;
    ProbeIgnoredShell(const char* g, const char* n, const char* f, size_t l, int id, bool fails) : IgnoredUtestShell(g, n, f, l), id_(id), fails_(fails) {}
    Utest* createTest() CPPUTEST_OVERRIDE { return new ProbeTest(id_, fails_); }
};

static std::string* g_console = nullptr; static std::string* g_filedata = nullptr; static std::vector<std::string>* g_opened = nullptr;
static int g_sepcalls = 0; static int g_fclose = 0;
static char g_fakefile;
static void seam_fputs(const char* s, PlatformSpecificFile f) {
    if (f == PlatformSpecificStdOut) { if (g_console) g_console->append(s); }
    else if (g_filedata) g_filedata->append(s);
}
static PlatformSpecificFile seam_fopen(const char* name, const char*) { if (g_opened) g_opened->push_back(name); return &g_fakefile; }
static void seam_fclose(PlatformSpecificFile) { g_fclose++; }
static void seam_flush() {}
static void seam_sep(UtestShell* shell, TestPlugin* plugin, TestResult* result) { g_sepcalls++; shell->runOneTestInCurrentProcess(plugin, *result); }

struct Seams {
    void (*fputs_)(const char*, PlatformSpecificFile); PlatformSpecificFile (*fopen_)(const char*, const char*);
    void (*fclose_)(PlatformSpecificFile); void (*flush_)(); void (*sep_)(UtestShell*, TestPlugin*, TestResult*);
    Seams() : fputs_(PlatformSpecificFPuts), fopen_(PlatformSpecificFOpen), fclose_(PlatformSpecificFClose), flush_(PlatformSpecificFlush), sep_(PlatformSpecificRunTestInASeperateProcess) {
        PlatformSpecificFPuts = seam_fputs; PlatformSpecificFOpen = seam_fopen; PlatformSpecificFClose = seam_fclose; PlatformSpecificFlush = seam_flush;
        PlatformSpecificRunTestInASeperateProcess = seam_sep;
    }
    ~Seams() {
        PlatformSpecificFPuts = fputs_; PlatformSpecificFOpen = fopen_; PlatformSpecificFClose = fclose_; PlatformSpecificFlush = flush_;
        PlatformSpecificRunTestInASeperateProcess = sep_;
        UtestShell::restoreDefaultTestTerminator(); UtestShell::setRethrowExceptions(false);
    }
};

// ---------------------------------------------------------------- the millisecond clock, pinned per case
static unsigned long g_clk_base = 0, g_clk_step = 0, g_clk_calls = 0;
static unsigned long seam_clock() { return g_clk_base + g_clk_step * g_clk_calls++; }
struct Clock { unsigned long long base; unsigned step; };
struct ClockPin {
    unsigned long (*saved_)();
    explicit ClockPin(const Clock& k) : saved_(GetPlatformSpecificTimeInMillis) { set(k); GetPlatformSpecificTimeInMillis = seam_clock; }
    ~ClockPin() { GetPlatformSpecificTimeInMillis = saved_; g_clk_base = g_clk_step = g_clk_calls = 0; }
    static void set(const Clock& k) { g_clk_base = (unsigned long) k.base; g_clk_step = k.step; g_clk_calls = 0; }
    static void rewind() { g_clk_calls = 0; }           // every parse of a case starts at the first reading
};
static const char* clock_class(unsigned long long v) {
    unsigned long t = (unsigned long) v; unsigned long long lo = (unsigned long long) t & 0xFFFFFFFFull;
    if (t == 0) return "zero";
    if (lo == 0) return "nonzero_multiple_of_2p32";
    if (lo == 0xFFFFFFFFull) return "low32_all_ones";
    if (lo <= 2 && (unsigned long long) t > lo) return "just_above_multiple_of_2p32";
    if (lo >= 0xFFFFFFFDull) return "just_below_multiple_of_2p32";
    if ((unsigned long long) t <= 0xFFFFFFFFull) return "below_2p32";
    return "above_2p32";
}
// the lattice of clock readings around every place where a width/sign conversion of the reading can bite
static std::vector<unsigned long long> clock_lattice() {
    std::set<unsigned long> seen; std::vector<unsigned long long> out;
    auto add = [&](unsigned long long v) { unsigned long t = (unsigned long) v; if (seen.insert(t).second) out.push_back((unsigned long long) t); };
    add(0); add(~0ull); add(1700000000000ull); add(1759500000123ull);
    for (int k = 0; k < 64; k++) for (int d = -1; d <= 1; d++) add((1ull << k) + (unsigned long long) (long long) d);
    const unsigned long long M[] = { 1, 2, 3, 5, 7, 403, 404, 65535, 65536, 65537, 0x7FFFFFFFull, 0x80000000ull, 0x80000001ull, 0xFFFFFFFEull, 0xFFFFFFFFull };
    for (unsigned long long m : M) for (int d = -2; d <= 2; d++) add((m << 32) + (unsigned long long) (long long) d);
    return out;
}
static Clock gen_clock(vf::Rng& r) {
    Clock k; k.step = r.chance(30) ? 1 : 0;
    int w = (int) r.below(100);
    if (w < 35) k.base = 1600000000000ull + r.below(200000000000ull);                   // a real clock
    else if (w < 60) {                                                                   // m * 2^32 + d
        static const unsigned long long M[] = { 0, 1, 1, 2, 3, 403, 65536, 0x7FFFFFFFull, 0x80000000ull, 0xFFFFFFFFull };
        unsigned long long m = r.chance(30) ? r.below(1ull << 32) : M[r.below(sizeof(M) / sizeof(M[0]))];
        static const int D[] = { 0, 0, 0, 0, -1, -1, 1, -2, 2 };
        k.base = (m << 32) + (unsigned long long) (long long) D[r.below(sizeof(D) / sizeof(D[0]))];
    }
    else if (w < 75) k.base = (1ull << r.below(64)) + (unsigned long long) (long long) r.range(-1, 1);
    else if (w < 85) k.base = r.below(4);
    else k.base = r.next();
    k.base = (unsigned long long) (unsigned long) k.base;
    return k;
}

// ================================================================ helpers
static std::string join_args(const Args& a) { std::string s; for (const std::string& x : a) { s += x; s += '\x1f'; } return s; }
static std::string args_json(const Args& a) { std::vector<std::string> v; for (const std::string& x : a) v.push_back(vf::jstr(x)); return vf::jarr(v); }
static std::string reg_json(const std::vector<ProbeSpec>& r) {
    std::vector<std::string> v; for (const ProbeSpec& p : r) v.push_back(vf::jstr(std::string(p.ignored ? "!" : "") + (p.fails ? "FAILS:" : "") + p.group + "." + p.name)); return vf::jarr(v);
}
static std::string ids_str(const std::vector<int>& v) { std::string s; for (int x : v) { if (!s.empty()) s += ","; s += std::to_string(x); } return "[" + s + "]"; }
static bool contains(const std::string& hay, const std::string& needle) { return hay.find(needle) != std::string::npos; }
static std::vector<std::string> split_ws(const std::string& s, bool lines_only) {
    std::vector<std::string> out; std::string cur;
    for (char ch : s) { bool sep = lines_only ? ch == '\n' : (ch == ' ' || ch == '\n'); if (sep) { if (!cur.empty()) out.push_back(cur); cur.clear(); } else cur += ch; }
    if (!cur.empty()) out.push_back(cur);
    return out;
}

// compares the real filter list with the expected multiset through TestFilter::operator== against filters
// built here; returns the indexes of unmatched expected filters and the texts of unmatched real ones
static void compare_filters(const TestFilter* real, const std::vector<RefFilter>& exp, std::vector<size_t>& missing, std::vector<std::string>& extra, std::string& realText) {
    std::vector<bool> used(exp.size(), false);
    int guard = 0;
    for (const TestFilter* f = real; f != NULLPTR && guard < 10000; f = f->getNext(), guard++) {
        realText += std::string(f->asString().asCharString()) + "; ";
        bool found = false;
        for (size_t k = 0; k < exp.size() && !found; k++) {
            if (used[k]) continue;
            TestFilter e(exp[k].text.c_str());
            if (exp[k].strict) e.strictMatching();
            if (exp[k].invert) e.invertMatching();
            if (*f == e) { used[k] = true; found = true; }
        }
        if (!found) extra.push_back(f->asString().asCharString());
    }
    for (size_t k = 0; k < exp.size(); k++) if (!used[k]) missing.push_back(k);
}
static std::string exp_filters_text(const std::vector<RefFilter>& v) {
    std::string s; for (const RefFilter& f : v) s += "\"" + f.text + "\"" + (f.strict ? " strict" : "") + (f.invert ? " invert" : "") + "; "; return s;
}

static bool real_parse_ok(const Args& a) {
    RawArgv raw = raw_make(a);
    bool ok;
    ClockPin::rewind();
    { CommandLineArguments cla(raw.ac, raw.av); ok = cla.parse(NullTestPlugin::instance()); }
    raw_free(raw);
    return ok;
}
static Args items_to_args(const Args& a, const std::vector<Item>& items, size_t first, size_t last /*exclusive*/) {
    Args out; size_t pos = 0;
    for (size_t k = 0; k < items.size(); k++) { if (k >= first && k < last) for (int j = 0; j < items[k].consume; j++) out.push_back(a[pos + (size_t) j]); pos += (size_t) items[k].consume; }
    return out;
}
// names the smallest documented piece the real parser refuses: one option alone, else the shortest refused prefix;
// *blamed = the option at which the refusal appears
static std::string rejection_key(const Args& a, const RefCfg& R, std::string* blamed = nullptr) {
    for (size_t k = 0; k < R.items.size(); k++) if (R.items[k].opt != "-h" && !real_parse_ok(items_to_args(a, R.items, k, k + 1))) { if (blamed) *blamed = item_tag(R.items[k]); return "alone:" + item_tag(R.items[k]); }
    for (size_t k = 1; k < R.items.size(); k++) {
        if (!real_parse_ok(items_to_args(a, R.items, 0, k + 1))) { if (blamed) *blamed = item_tag(R.items[k]); return "after:" + item_tag(R.items[k - 1]) + "->" + item_tag(R.items[k]); }
    }
    if (blamed) *blamed = "whole-vector";
    return "whole-vector";
}

// ================================================================ one run of the real runner on a probe registry, all seams captured
struct RunObs { std::vector<int> executed, listOrder; std::string console, filedata; std::vector<std::string> opened; int sepcalls = 0, fcloses = 0, rc = -1; };
static void run_probe(const RawArgv& raw, const std::vector<ProbeSpec>& reg, RunObs& o) {
    o.executed.reserve(256);
    std::vector<UtestShell*> shells;
    {
        TestRegistry registry;
        for (size_t i = 0; i < reg.size(); i++) {
            UtestShell* s = reg[i].ignored ? (UtestShell*) new ProbeIgnoredShell(reg[i].group.c_str(), reg[i].name.c_str(), "probe_file.cpp", 100 + i, (int) i, reg[i].fails)
                                           : (UtestShell*) new ProbeShell(reg[i].group.c_str(), reg[i].name.c_str(), "probe_file.cpp", 100 + i, (int) i, reg[i].fails);
            shells.push_back(s); registry.addTest(s);
        }
        for (UtestShell* t = registry.getFirstTest(); t; t = t->getNext()) for (size_t i = 0; i < shells.size(); i++) if (shells[i] == t) o.listOrder.push_back((int) i);   // ids in the order of the registry's list
        g_exec = &o.executed; g_console = &o.console; g_filedata = &o.filedata; g_opened = &o.opened; g_sepcalls = 0; g_fclose = 0;
        ClockPin::rewind();
        {
            Seams seams;
            {
                CommandLineTestRunner runner(raw.ac, raw.av, &registry);
                o.rc = runner.runAllTestsMain();
            }
        }
        g_exec = nullptr; g_console = nullptr; g_filedata = nullptr; g_opened = nullptr;
    }
    o.sepcalls = g_sepcalls; o.fcloses = g_fclose;
    for (UtestShell* s : shells) delete s;
}

// ================================================================ the result line(s) of a console text and their colour
// "-c colorize output, print green if OK, or red if failed": the result line of a run starts with "OK (" or "Errors (".
// A line is scanned for the escape sequences (ESC [ parameters final-byte) in front of its first other character; green = an SGR
// sequence with parameter 32 or 92, red = 31 or 91 (the ANSI codes of the two colours the help text names).
struct ResultLine { bool ok; bool anyEscape, green, red; };
static std::vector<ResultLine> scan_result_lines(const std::string& console) {
    std::vector<ResultLine> out;
    for (const std::string& line : split_ws(console, true)) {
        size_t p = 0; bool esc = false, green = false, red = false;
        while (p + 1 < line.size() && line[p] == '\033' && line[p + 1] == '[') {
            size_t q = p + 2; std::string params;
            while (q < line.size() && !(line[q] >= 0x40 && line[q] <= 0x7e)) params += line[q++];
            if (q >= line.size()) break;
            esc = true;
            if (line[q] == 'm') {
                std::string cur; params += ';';
                for (char ch : params) { if (ch == ';') { if (cur == "32" || cur == "92") green = true; if (cur == "31" || cur == "91") red = true; cur.clear(); } else cur += ch; }
            }
            p = q + 1;
        }
        bool isOk = line.compare(p, 4, "OK (") == 0, isErr = line.compare(p, 8, "Errors (") == 0;
        if (isOk || isErr) out.push_back(ResultLine{ isOk, esc, green, red });
    }
    return out;
}

// ================================================================ the judge
enum Cls { CLS_MEANING, CLS_HOSTILE };

// key of a refused documented vector. When the refusal is a function of the clock reading (the same vector is accepted
// under an unremarkable constant clock) the key names the option at which it appears, not the options in front of it:
// which reading of an advancing clock is the fatal one depends on how many clock-reading options precede it.
static std::string refusal_key(const Args& a, const RefCfg& R, const Clock& k) {
    std::string blamed, key = rejection_key(a, R, &blamed);
    Clock benign = { 1700000012345ull, 0 }; ClockPin::set(benign);
    bool okBenign = real_parse_ok(a);
    ClockPin::set(k);
    return okBenign ? "documented-rejected:clock-dependent:" + blamed : "documented-rejected:" + key;
}

static void judge(vf::Ctx& c, const Args& args, const std::vector<ProbeSpec>& reg, Cls cls, const Clock* fixedClock = nullptr) {
    // the clock reading is part of the case; drawn after the generators so that it is a pure function of (seed, section, index) too
    const Clock clk = fixedClock ? *fixedClock : gen_clock(c.rng);
    c.begin([=] { return vf::J().k("class", cls == CLS_MEANING ? "meaning" : "hostile").raw("argv", args_json(args)).raw("registry", reg_json(reg))
                         .k("clock_ms", std::to_string(clk.base)).k("clock_step", (long long) clk.step).str(); });
    ClockPin pin(clk);
    const std::string clkText = " [clock reads " + std::to_string(clk.base) + (clk.step ? " advancing by 1 per reading" : " constant") + ", class " + clock_class(clk.base) + "]";
    c.count(std::string("clock_") + clock_class(clk.base)); if (clk.step) c.count("clock_advancing");
    RefCfg R = ref_parse(args);
    bool refAccept = R.readings == 1 && !R.help, refHelp = R.readings == 1 && R.help;
    c.count(R.readings == 1 ? (R.help ? "ref_help" : "ref_documented_configuration") : R.readings == 0 ? "ref_outside_grammar" : "ref_ambiguous_reading");
    if (R.readings == 1) for (const Item& it : R.items) c.count("opt " + item_tag(it));
    if (R.readings == 1) { bool unseeded = false; for (long long sd : R.seeds) if (sd < 0) unseeded = true; if (unseeded) c.count(std::string("unseeded_shuffle_vectors_clock_") + clock_class(clk.base)); }

    RawArgv raw = raw_make(args);
    bool ok = false; size_t realRepeat = 1;
    bool cfgAgrees = true, helpBlamed = false;
    int realKind = -1; bool realKindGiven = false;          // output kind the getters report / whether it is one of the given ones
    // ------------------------------------------------------------ stage 1: the parser alone, every getter
    {
        CommandLineArguments a(raw.ac, raw.av);
        ok = a.parse(NullTestPlugin::instance());
        realRepeat = a.getRepeatCount();
        c.count(ok ? "real_accepted" : "real_rejected");
        if (refHelp && (ok || !a.needHelp())) {
            // name the root cause: a documented option in front of the first -h that the parser refuses, else -h itself
            size_t h = 0; while (R.items[h].opt != "-h") h++;
            RefCfg P; P.items.assign(R.items.begin(), R.items.begin() + (long) h);
            Args prefix = items_to_args(args, R.items, 0, h);
            helpBlamed = true;
            if (!ok && !real_parse_ok(prefix)) c.violation(refusal_key(prefix, P, clk), "the documented options in front of -h are refused (usage instead of help)" + clkText);
            else c.violation("help-not-requested", std::string("documented vector containing -h: parse()=") + (ok ? "true" : "false") + " needHelp()=" + (a.needHelp() ? "true" : "false"));
        }
        if (refAccept && !ok) { cfgAgrees = false; c.violation(refusal_key(args, R, clk), "every argument is a documented option with a value of its documented domain, but parse() returned false" + clkText); }
        if (refAccept && ok) {
            struct { const char* name; bool real, exp; const char* opt; } fl[] = {
                { "isVerbose", a.isVerbose(), R.verbose, "-v" }, { "isVeryVerbose", a.isVeryVerbose(), R.veryVerbose, "-vv" }, { "isColor", a.isColor(), R.color, "-c" },
                { "runTestsInSeperateProcess", a.runTestsInSeperateProcess(), R.sep, "-p" }, { "isReversing", a.isReversing(), R.reverse, "-b" },
                { "isListingTestGroupNames", a.isListingTestGroupNames(), R.lg, "-lg" }, { "isListingTestGroupAndCaseNames", a.isListingTestGroupAndCaseNames(), R.ln, "-ln" },
                { "isListingTestLocations", a.isListingTestLocations(), R.ll, "-ll" }, { "isRunIgnored", a.isRunIgnored(), R.ri, "-ri" },
                { "isCrashingOnFail", a.isCrashingOnFail(), R.crash, "-f" }, { "isRethrowingExceptions", a.isRethrowingExceptions(), !R.norethrow, "-e/-ci" },
                { "needHelp", a.needHelp(), false, "-h" }, { "isShuffling", a.isShuffling(), !R.seeds.empty(), "-s" },
            };
            for (auto& f : fl) if (f.real != f.exp) { cfgAgrees = false; c.violation(std::string("flag-wrong:") + f.name + (f.exp ? ":not-set" : ":set-without-option"), std::string(f.name) + "()=" + (f.real ? "true" : "false") + ", documented configuration (" + f.opt + (f.exp ? " given" : " not given") + ") says " + (f.exp ? "true" : "false")); }
            // repeat
            if (R.repeats.empty()) { if (a.getRepeatCount() != 1) { cfgAgrees = false; c.violation("repeat-wrong:default", "getRepeatCount()=" + std::to_string(a.getRepeatCount()) + " without -r"); } }
            else {
                bool in = false; for (unsigned long long v : R.repeats) if (v == a.getRepeatCount()) in = true;
                if (!in) { cfgAgrees = false; c.violation("repeat-wrong:" + item_tag(R.items[R.repeatItems.back()]), "getRepeatCount()=" + std::to_string(a.getRepeatCount()) + " is none of the given counts (last given: " + std::to_string(R.repeats.back()) + ")"); }
                else if (std::set<unsigned long long>(R.repeats.begin(), R.repeats.end()).size() > 1) c.count(a.getRepeatCount() == R.repeats.back() ? "conflicting_scalar_last_wins" : "conflicting_scalar_other_wins");
            }
            // seed (when given)
            if (!R.seeds.empty()) {
                bool allGiven = true; for (long long s : R.seeds) if (s < 0) allGiven = false;
                if (allGiven) {
                    bool in = false; for (long long s : R.seeds) if ((size_t) s == a.getShuffleSeed()) in = true;
                    if (!in) { cfgAgrees = false; c.violation("seed-wrong:" + std::string(R.seeds.size() > 1 ? "multiple" : "single"), "getShuffleSeed()=" + std::to_string(a.getShuffleSeed()) + " is none of the given seeds (last given: " + std::to_string(R.seeds.back()) + ")"); }
                    c.count("seed_given_checked");
                } else {
                    // which value the clock yields is not documented; that the vector is accepted whatever it reads is judged above
                    c.count("seed_from_clock_not_judged"); if (a.getShuffleSeed() == 0) c.count("seed_from_clock_zero");
                    c.count(std::string("unseeded_shuffle_accepted_clock_") + clock_class(clk.base));
                    if ((unsigned long long) a.getShuffleSeed() == ((unsigned long long) (unsigned long) clk.base & 0xFFFFFFFFull)) c.count("seed_from_clock_is_low32_of_first_reading");
                }
            }
            // output kind
            {
                int kind = a.isJUnitOutput() ? 1 : a.isTeamCityOutput() ? 2 : 0;
                int nset = (a.isJUnitOutput() ? 1 : 0) + (a.isTeamCityOutput() ? 1 : 0) + (a.isEclipseOutput() ? 1 : 0);
                bool in = R.outputs.empty() ? kind == 0 : false;
                for (int k : R.outputs) if (k == kind) in = true;
                static const char* KN[] = { "normal", "junit", "teamcity" };
                if (nset != 1) { cfgAgrees = false; c.violation("output-kind-getters-inconsistent", "exactly one of isEclipseOutput/isJUnitOutput/isTeamCityOutput must hold, " + std::to_string(nset) + " do"); }
                else if (!in) { cfgAgrees = false; c.violation(std::string("output-kind-wrong:expected=") + (R.outputs.empty() ? "default-normal" : KN[R.outputs.back()]), std::string("getters say ") + KN[kind]); }
                else {
                    realKind = kind; realKindGiven = true;
                    // several -o options naming different kinds: which occurrence decides is not documented (usage shows -o as
                    // a non-repeatable option, the help text has no precedence rule), so it is recorded, not judged
                    if (std::set<int>(R.outputs.begin(), R.outputs.end()).size() > 1) {
                        c.count("output_kind_conflict_vectors");
                        c.count(kind == R.outputs.back() ? "output_kind_conflict_last_given_wins" : kind == R.outputs.front() ? "output_kind_conflict_first_given_wins" : "output_kind_conflict_middle_given_wins");
                        c.count(std::string("output_kind_conflict_parsed_") + KN[kind] + "_last_given_" + KN[R.outputs.back()]);
                    }
                }
            }
            // package
            {
                std::string pk = a.getPackageName().asCharString();
                bool in = R.packages.empty() ? pk.empty() : false;
                for (const std::string& p : R.packages) if (p == pk) in = true;
                if (!in) { cfgAgrees = false; c.violation("package-wrong:" + (R.packages.empty() ? std::string("default") : item_tag(R.items[R.packageItems.back()])), "getPackageName()=\"" + pk + "\", given: " + (R.packages.empty() ? "(none)" : R.packages.back())); }
            }
            // filters (multisets)
            for (int which = 0; which < 2; which++) {
                const std::vector<RefFilter>& exp = which ? R.nf : R.gf;
                std::vector<size_t> missing; std::vector<std::string> extra; std::string realText;
                compare_filters(which ? a.getNameFilters() : a.getGroupFilters(), exp, missing, extra, realText);
                const char* wn = which ? "name" : "group";
                if (!missing.empty()) { cfgAgrees = false; c.violation(std::string("filter-wrong:") + wn + ":" + item_tag(R.items[exp[missing[0]].item]), std::string("expected ") + wn + " filters {" + exp_filters_text(exp) + "} real {" + realText + "}"); }
                else if (!extra.empty()) { cfgAgrees = false; c.violation(std::string("filter-extra:") + wn, std::string("expected ") + wn + " filters {" + exp_filters_text(exp) + "} real {" + realText + "}"); }
                c.count(which ? "name_filters_compared" : "group_filters_compared", exp.size());
            }
            c.count("configurations_compared");
        }
        if (!refAccept && !refHelp && ok) {
            // nothing is demanded of the configuration, but it must be a well-formed object: walk and print both lists
            c.count("outside_grammar_accepted_not_judged");
            size_t nfil = 0;
            for (int which = 0; which < 2; which++)
                for (const TestFilter* f = which ? a.getNameFilters() : a.getGroupFilters(); f != NULLPTR && nfil < 100000; f = f->getNext()) { nfil++; (void) f->asString().size(); }
            if (nfil > args.size() * 2) c.violation("filter-list-longer-than-argv", std::to_string(nfil) + " filters from " + std::to_string(args.size()) + " arguments");
            (void) a.getPackageName().size();
            c.count("outside_grammar_filters_walked", nfil);
        }
    }

    // ------------------------------------------------------------ stage 2: the runner applies it on the probe registry
    // the repeat count is read from the parser even when it rejects: a runner that wrongly went on after a
    // rejection must not be able to spin for 2^64 repetitions inside the harness (that defect is caught on the
    // many rejected vectors with a small count)
    bool runIt = realRepeat <= 8;
    if (!runIt) c.count("runner_skipped_large_repeat");
    if (runIt) {
        RunObs obs; run_probe(raw, reg, obs);
        std::vector<int>& executed = obs.executed; std::string& console = obs.console; std::string& filedata = obs.filedata;
        std::vector<std::string>& opened = obs.opened; std::vector<int>& listOrder = obs.listOrder;
        std::string usageText, helpText;
        { CommandLineArguments t(1, raw.av); usageText = t.usage(); helpText = t.help(); }
        int sepcalls = obs.sepcalls;
        c.count("runner_runs"); c.count("probe_tests_executed", executed.size());
        bool printedUsage = contains(console, usageText), printedHelp = contains(console, helpText);

        if (!ok) {
            // the rejection clause — holds for EVERY vector
            if (!executed.empty() || sepcalls) c.violation("rejected-but-test-ran", "parse() rejects the vector but the runner executed " + ids_str(executed));
            if (!printedUsage && !printedHelp) c.violation("rejected-without-usage", "parse() rejects the vector but neither usage nor help was printed; console=\"" + console.substr(0, 200) + "\"");
            if (refHelp && !printedHelp && !helpBlamed) c.violation("help-not-printed", "documented vector containing -h: the help text was not printed");
            if (!opened.empty()) c.violation("rejected-but-file-written", "rejected vector opened " + opened[0]);
            c.count(printedHelp ? "rejections_with_help" : "rejections_with_usage");
        } else if (refAccept) {
            bool anyList = R.lg || R.ln || R.ll;
            // the kind the runner has to apply: the only kind given (or the default); when several different kinds are given, the
            // one the parser's getters settled on (judged above to be one of the given ones) - the runner applies the configuration
            bool kindConflict = std::set<int>(R.outputs.begin(), R.outputs.end()).size() > 1;
            int expKindSingle = R.outputs.empty() ? 0 : !kindConflict ? R.outputs[0] : (cfgAgrees && realKindGiven ? realKind : -1);
            if (printedUsage || printedHelp) c.violation("accepted-but-usage-printed", "parse() accepts the documented vector but the runner printed usage/help");
            // reference selection, C02 rule on the reference configuration
            std::vector<bool> sel(reg.size());
            size_t nsel = 0;
            for (size_t i = 0; i < reg.size(); i++) { sel[i] = ref_any(R.gf, reg[i].group) && ref_any(R.nf, reg[i].name); if (sel[i]) nsel++; }
            if (anyList) {
                c.count("list_mode_runs");
                if (!executed.empty() || sepcalls) c.violation("list-mode-ran-tests", "a list option was given but tests executed: " + ids_str(executed));
                if (expKindSingle == 0 || expKindSingle == 2) {
                    std::multiset<std::string> got, gotLines;
                    for (const std::string& t : split_ws(console, false)) got.insert(t);
                    for (const std::string& t : split_ws(console, true)) gotLines.insert(t);
                    std::set<std::string> eg, en; std::multiset<std::string> el;
                    for (size_t i = 0; i < reg.size(); i++) {
                        eg.insert(reg[i].group);
                        if (sel[i]) en.insert(reg[i].group + "." + reg[i].name);
                        el.insert(reg[i].group + "." + reg[i].name + ".probe_file.cpp." + std::to_string(100 + i));
                    }
                    bool okList = false;
                    if (R.lg && got == std::multiset<std::string>(eg.begin(), eg.end())) okList = true;
                    if (R.ln && got == std::multiset<std::string>(en.begin(), en.end())) okList = true;
                    if (R.ll && gotLines == el) okList = true;
                    if (!okList) c.violation(std::string("list-output-wrong:") + (R.lg ? "-lg" : "") + (R.ln ? "-ln" : "") + (R.ll ? "-ll" : ""), "console=\"" + console.substr(0, 300) + "\"");
                    c.count("list_outputs_compared");
                }
            } else if (cfgAgrees) {
                c.count("selection_runs");
                c.count(nsel == 0 ? "selection_empty" : nsel == reg.size() ? "selection_all" : "selection_partial");
                std::vector<int> once;
                std::vector<int> order = listOrder; if (R.reverse) std::reverse(order.begin(), order.end());
                for (int id : order) if (sel[(size_t) id] && (!reg[(size_t) id].ignored || R.ri)) once.push_back(id);
                std::vector<int> expect; for (size_t r = 0; r < realRepeat; r++) expect.insert(expect.end(), once.begin(), once.end());
                bool shuffled = !R.seeds.empty();
                std::vector<int> es = expect, gs = executed;
                std::sort(es.begin(), es.end()); std::sort(gs.begin(), gs.end());
                if (es != gs) {
                    // classify
                    std::set<int> eset(once.begin(), once.end()), gset(executed.begin(), executed.end());
                    std::string key = "apply:selection-wrong";
                    bool ignoredRan = false, ignoredMissing = false, extra = false, missing = false;
                    for (int id : gset) if (!eset.count(id)) { if (reg[(size_t) id].ignored && sel[(size_t) id] && !R.ri) ignoredRan = true; else extra = true; }
                    for (int id : eset) if (!gset.count(id)) { if (reg[(size_t) id].ignored) ignoredMissing = true; else missing = true; }
                    if (eset == gset) key = "apply:repeat-count-not-applied";
                    else if (ignoredRan && !extra && !missing) key = "apply:ignored-test-ran-without-ri";
                    else if (ignoredMissing && !extra && !missing) key = "apply:run-ignored-not-applied";
                    else key += extra && missing ? ":extra+missing" : extra ? ":extra" : ":missing";
                    c.violation(key, "executed " + ids_str(executed) + " expected (x" + std::to_string(realRepeat) + ") " + ids_str(once) + " group filters {" + exp_filters_text(R.gf) + "} name filters {" + exp_filters_text(R.nf) + "}");
                } else if (!shuffled && expect != executed) {
                    c.violation(R.reverse ? "apply:order-wrong:reverse-not-applied" : "apply:order-wrong:reversed-without-b", "executed " + ids_str(executed) + " expected " + ids_str(expect));
                }
                if (R.sep ? sepcalls != (int) executed.size() : sepcalls != 0)
                    c.violation(R.sep ? "apply:separate-process-not-applied" : "apply:separate-process-without-p", "separate-process seam calls=" + std::to_string(sepcalls) + " executed tests=" + std::to_string(executed.size()));
                if (R.sep) c.count("separate_process_runs");
                // output kind as applied
                if (!reg.empty() && expKindSingle >= 0) {
                    int seen = !opened.empty() ? 1 : contains(console, "##teamcity[") ? 2 : 0;
                    static const char* KN[] = { "normal", "junit", "teamcity" };
                    if (seen != expKindSingle) c.violation(std::string(kindConflict ? "apply:output-kind-differs-from-parsed:several-o-kinds:parsed=" : "apply:output-kind-wrong:expected=") + KN[expKindSingle], std::string("observed ") + KN[seen] + " (files opened: " + std::to_string(opened.size()) + ")");
                    if (!opened.empty() && contains(console, "##teamcity[")) c.violation("apply:output-kind-wrong:both", "files written and teamcity messages printed");
                    c.count(std::string("output_kind_applied_") + KN[expKindSingle]);
                    if (kindConflict) { c.count("output_kind_applied_with_several_o_kinds"); c.count(std::string("output_kind_applied_with_several_o_kinds_") + KN[expKindSingle]); }
                    if (expKindSingle == 1) {
                        if ((int) opened.size() != obs.fcloses) c.count("junit_open_close_mismatch");
                        bool pkSingle = std::set<std::string>(R.packages.begin(), R.packages.end()).size() <= 1;
                        if (pkSingle) {
                            std::string prefix = "cpputest_" + (R.packages.empty() ? std::string() : R.packages[0] + "_");
                            for (const std::string& fn : opened) {
                                bool good = fn.compare(0, prefix.size(), prefix) == 0 && fn.size() >= 4 && fn.compare(fn.size() - 4, 4, ".xml") == 0;
                                if (good && R.packages.empty()) {   // cpputest_<group>.xml: <group> is a probe group (or empty when the group had no selected test)
                                    std::string g = fn.substr(9, fn.size() - 13); bool known = g.empty();
                                    for (const ProbeSpec& p : reg) if (p.group == g) known = true;
                                    good = known;
                                }
                                if (!good) { c.violation(R.packages.empty() ? "apply:junit-file-name-wrong:no-package" : "apply:package-not-applied", "junit file \"" + fn + "\" expected prefix \"" + prefix + "\""); break; }
                            }
                            if (!R.packages.empty() && !executed.empty() && !contains(filedata, "classname=\"" + R.packages[0] + ".")) c.violation("apply:package-not-applied:classname", "no testcase classname starts with the package name");
                            c.count("junit_file_names_checked", opened.size());
                        }
                    }
                    // verbosity as applied: on the console, which also exists next to the junit files when -v / -vv is given
                    if ((expKindSingle == 0 || expKindSingle == 1) && (R.verbose || R.veryVerbose) && !executed.empty()) {
                        const std::string where = expKindSingle == 1 ? " (console next to the junit files)" : "";
                        for (int id : once) {
                            std::string nm = "TEST(" + reg[(size_t) id].group + ", " + reg[(size_t) id].name + ")";
                            if (!contains(console, nm)) { c.violation(std::string(R.verbose ? "apply:verbose-not-applied" : "apply:very-verbose-not-applied"), "test name " + nm + " not printed" + where); break; }
                        }
                        c.count("verbose_output_checked"); if (expKindSingle == 1) c.count("verbose_output_checked_junit_composite");
                        if (R.veryVerbose) {
                            // -vv: "print internal information during test run", whatever else is given (-v included). Judged without
                            // knowing the wording of that information: the same vector with every -vv replaced by -v (the same
                            // documented configuration one verbosity level down), same registry, same clock readings, must print strictly less.
                            Args lower = args; for (std::string& x : lower) if (x == "-vv") x = "-v";
                            RawArgv lraw = raw_make(lower); RunObs lo; run_probe(lraw, reg, lo); raw_free(lraw);
                            std::vector<int> le = lo.executed, ge = executed; std::sort(le.begin(), le.end()); std::sort(ge.begin(), ge.end());
                            if (le == ge) {
                                if (console.size() <= lo.console.size())
                                    c.violation(std::string("apply:very-verbose-no-internal-information:") + (R.verbose ? "-v-and--vv-given" : "-vv-alone"),
                                                "console output of the -vv run (" + std::to_string(console.size()) + " bytes) is not longer than that of the same vector with -v in place of -vv (" + std::to_string(lo.console.size()) + " bytes)" + where);
                                c.count("very_verbose_differential_checked"); if (R.verbose) c.count("very_verbose_differential_checked_with_v_too");
                                if (expKindSingle == 1) c.count("very_verbose_differential_checked_junit_composite");
                            } else c.count("very_verbose_differential_runs_differ_not_judged");
                            c.count(contains(console, "before runTest") ? "very_verbose_internal_info_seen" : "very_verbose_internal_info_not_seen");
                        }
                    }
                    // colour as applied: "-c colorize output, print green if OK, or red if failed". Judged on every result line the
                    // console shows, whichever output kind put it there: the plain console, the console that accompanies the junit
                    // files under -v / -vv, the teamcity console. Without -c no escape sequence may appear (all probe names, package
                    // names and filter values of a documented vector are identifiers).
                    {
                        static const char* WHERE[] = { "", ":console-next-to-junit-files", ":teamcity-console" };
                        static const char* WNAME[] = { "console", "junit_composite_console", "teamcity_console" };
                        const std::string where = WHERE[expKindSingle];
                        std::vector<ResultLine> rl = scan_result_lines(console);
                        bool anyFailing = false; for (int id : once) if (reg[(size_t) id].fails) anyFailing = true;
                        if (R.color) {
                            c.count("color_output_checked");
                            if (expKindSingle == 0 && !contains(console, "\033[")) c.violation("apply:color-not-applied", "no ANSI colour sequence in the console output");
                            else for (const ResultLine& l : rl) {
                                const std::string what = std::string("result line \"") + (l.ok ? "OK (" : "Errors (") + "...\" on the " + WNAME[expKindSingle];
                                if (!l.anyEscape) { c.violation("apply:color-not-applied" + where, "-c given, but the " + what + " carries no escape sequence"); break; }
                                if (l.ok && !l.green) { c.violation("apply:color-wrong:ok-line-not-green" + where, "-c given, the " + what + " is not switched to green (SGR 32/92)"); break; }
                                if (!l.ok && !l.red) { c.violation("apply:color-wrong:errors-line-not-red" + where, "-c given, the " + what + " is not switched to red (SGR 31/91)"); break; }
                            }
                            if (rl.empty()) c.count(std::string("color_given_no_result_line_on_") + WNAME[expKindSingle]);
                            else {
                                c.count(std::string("color_result_lines_checked_") + WNAME[expKindSingle], rl.size());
                                for (const ResultLine& l : rl) c.count(l.ok ? "color_ok_lines_checked_green" : anyFailing ? "color_errors_lines_checked_red_failed_test" : "color_errors_lines_checked_red_ran_nothing");
                                if ((R.verbose || R.veryVerbose)) c.count(std::string("color_with_verbosity_checked_") + WNAME[expKindSingle]);
                                if (contains(console, "\033[m")) c.count("color_reset_seen");
                            }
                            if (contains(filedata, "\033")) c.count("color_escape_in_junit_file_not_judged");
                        } else {
                            if (contains(console, "\033")) c.violation("apply:color-without-c" + where, "-c not given, but the " + std::string(WNAME[expKindSingle]) + " output contains an escape sequence");
                            c.count("no_color_output_checked"); if (!rl.empty()) c.count(std::string("no_color_result_lines_seen_") + WNAME[expKindSingle], rl.size());
                        }
                    }
                    if (expKindSingle == 0) {
                        if (realRepeat > 1 && !contains(console, "Test run " + std::to_string(realRepeat) + " of " + std::to_string(realRepeat))) c.count("repeat_banner_not_seen");
                    }
                }
                if (shuffled) c.count("shuffled_runs");
                if (R.reverse) c.count("reversed_runs");
                if (R.ri) c.count("run_ignored_runs");
                if (realRepeat > 1) c.count("repeated_runs");
            }
        } else {
            c.count("outside_grammar_accepted_runs");
        }
    }
    raw_free(raw);

    // non-trivial rule
    if (refAccept && R.valueOpts >= 2 && R.attached >= 1 && R.separated >= 1) c.nontrivial("M" + join_args(args));
    else if (R.readings != 1 && !ok) c.nontrivial("H" + join_args(args));
}

// ================================================================ generators
// "NNNet" / "ooopen": substrings such as "NNe" / "oop" occur only inside a failed partial match (self-overlapping prefix)
static const char* GROUPS[] = { "Net", "NetIO", "IONet", "Disk", "Dis", "net", "NNNet" };
static const char* NAMES[] = { "open", "reopen", "openAll", "close", "clos", "Open", "x1", "ooopen" };
static const size_t NGROUPS = sizeof(GROUPS) / sizeof(GROUPS[0]), NNAMES = sizeof(NAMES) / sizeof(NAMES[0]);

static std::vector<ProbeSpec> fixed_registry() {
    std::vector<ProbeSpec> r;
    const char* g[] = { "Net", "Net", "NetIO", "IONet", "Disk", "Dis", "net", "Net", "Disk" };
    const char* n[] = { "open", "close", "reopen", "openAll", "open", "clos", "Open", "x1", "close" };
    for (int i = 0; i < 9; i++) r.push_back(ProbeSpec{ g[i], n[i], i == 2 || i == 8 });
    return r;
}
static std::vector<ProbeSpec> gen_registry(vf::Rng& r) {
    std::vector<ProbeSpec> v; int n = r.chance(3) ? 0 : r.range(3, 14);
    for (int i = 0; i < n; i++) v.push_back(ProbeSpec{ GROUPS[r.below(NGROUPS)], NAMES[r.below(NNAMES)], r.chance(20) });
    return v;
}
static std::string rand_ident(vf::Rng& r, int lo, int hi) {
    static const char A[] = "abcdefghijklmnopqrstuvwxyzABCDEFGHIJKLMNOPQRSTUVWXYZ0123456789_";
    std::string s; int n = r.range(lo, hi); for (int i = 0; i < n; i++) s += A[r.below(sizeof(A) - 1)]; return s;
}
static std::string gen_ident(vf::Rng& r, bool group) {
    std::string base = group ? GROUPS[r.below(NGROUPS)] : NAMES[r.below(NNAMES)];
    int k = (int) r.below(100);
    if (k < 45) return base;
    if (k < 65) { size_t st = r.below(base.size()); size_t len = 1 + r.below(base.size() - st); return base.substr(st, len); }
    if (k < 75) { size_t p = r.below(base.size()); char ch = base[p]; base[p] = (ch >= 'a' && ch <= 'z') ? (char) (ch - 32) : (ch >= 'A' && ch <= 'Z') ? (char) (ch + 32) : ch; return base; }
    if (k < 85) return base + rand_ident(r, 1, 1);
    // identifiers that look like option letters, so that an attached value collides with other option names
    if (k < 92) { static const char* T[] = { "g", "sg", "n", "t", "s", "r", "ri", "v", "vv", "p", "k", "o", "ojunit", "x", "xg", "h", "lg", "TEST", "e", "ci", "b", "c", "f", "st", "xst", "1", "007" }; return T[r.below(sizeof(T) / sizeof(T[0]))]; }
    return rand_ident(r, 1, 8);
}
static std::string gen_number(vf::Rng& r, bool small, unsigned long long maxv) {
    unsigned long long v;
    if (small) v = (unsigned long long) r.range(1, 4);
    else switch (r.below(5)) {
        case 0: v = (unsigned long long) r.range(1, 9); break;
        case 1: v = maxv - r.below(3); break;
        case 2: v = (1ull << r.below(31)) + r.below(2); break;
        case 3: v = 1 + r.below(maxv); break;
        default: v = (unsigned long long) r.range(5, 100000); break;
    }
    if (v < 1) v = 1; if (v > maxv) v = maxv;
    std::string s = std::to_string(v);
    if (r.chance(10)) s = std::string((size_t) r.range(1, 3), '0') + s;
    return s;
}
static void emit(Args& a, vf::Rng& r, const std::string& opt, const std::string& val) {
    if (r.chance(50)) a.push_back(opt + val); else { a.push_back(opt); a.push_back(val); }
}
static const char* UNKNOWN[] = { "-z", "-q", "--v", "-", "foo", "-a1", "-l", "-x", "-xs", "-lz", "-i", "-d", "-u", "-w", "-y", "-j", "-m", "-hh", "-cc", "-vvv", "-bb", "test(a, b)", "-G", "-V", "--help", "-pfoo", "-lgx", "5" };

// one documented option (with value) appended to a
static void gen_item(Args& a, vf::Rng& r, bool allowReject) {
    int k = (int) r.below(100);
    if (k < 26) { static const char* F[] = { "-v", "-vv", "-c", "-p", "-b", "-ri", "-f", "-e", "-ci", "-v", "-c", "-b", "-ri", "-p" }; a.push_back(F[r.below(sizeof(F) / sizeof(F[0]))]); }
    else if (k < 29) { static const char* L[] = { "-lg", "-ln", "-ll" }; a.push_back(L[r.below(3)]); }
    else if (k < 31) { if (allowReject) a.push_back("-h"); else a.push_back("-v"); }
    else if (k < 40) { int f = (int) r.below(3); std::string n = gen_number(r, r.chance(85), INT_MAX); if (f == 0) a.push_back("-r"); else if (f == 1) a.push_back("-r" + n); else { a.push_back("-r"); a.push_back(n); } }
    else if (k < 46) { int f = (int) r.below(3); std::string n = gen_number(r, false, UINT_MAX); if (f == 0) a.push_back("-s"); else if (f == 1) a.push_back("-s" + n); else { a.push_back("-s"); a.push_back(n); } }
    else if (k < 72) { static const char* O[] = { "-g", "-sg", "-xg", "-xsg", "-n", "-sn", "-xn", "-xsn" }; size_t o = r.below(8); emit(a, r, O[o], gen_ident(r, o < 4)); }
    else if (k < 82) { static const char* O[] = { "-t", "-st", "-xt", "-xst" }; emit(a, r, O[r.below(4)], gen_ident(r, true) + "." + gen_ident(r, false)); }
    else if (k < 88) a.push_back(std::string(r.chance(70) ? "TEST(" : "IGNORE_TEST(") + gen_ident(r, true) + ", " + gen_ident(r, false) + ")");
    else if (k < 94) { static const char* K[] = { "normal", "eclipse", "junit", "teamcity" }; emit(a, r, "-o", K[r.below(4)]); }
    else if (k < 98) emit(a, r, "-k", r.chance(50) ? "pkg" : rand_ident(r, 1, 6));
    else if (allowReject) a.push_back(UNKNOWN[r.below(sizeof(UNKNOWN) / sizeof(UNKNOWN[0]))]);
    else a.push_back("-c");
}
static Args gen_meaning(vf::Rng& r, bool allowReject) {
    Args a; int n = 1 + (int) r.below(3) + (r.chance(50) ? (int) r.below(5) : 0);
    if (r.chance(2)) n = 0;
    for (int i = 0; i < n; i++) gen_item(a, r, allowReject);
    if (r.chance(15) && !a.empty()) { size_t i = r.below(a.size()); a.push_back(a[i]); }        // doubled argument
    if (r.chance(12) && !a.empty()) {
        // a second option that acts on the same applied setting as one already present, at any position
        static const char* SIB[][2] = { { "-v", "-vv" }, { "-vv", "-v" }, { "-e", "-ci" }, { "-ci", "-e" }, { "-b", "-s" }, { "-s", "-b" }, { "-lg", "-ln" }, { "-ln", "-ll" }, { "-ll", "-lg" },
                                        { "-ojunit", "-v" }, { "-ojunit", "-vv" }, { "-p", "-vv" }, { "-ri", "-vv" }, { "-r", "-s" }, { "-c", "-vv" } };
        size_t i = r.below(a.size()); const char* sib = nullptr;
        for (auto& p : SIB) if (a[i] == p[0] && (!sib || r.chance(50))) sib = p[1];
        if (!sib) sib = r.chance(50) ? "-vv" : "-s";
        a.insert(a.begin() + (long) r.below(a.size() + 1), sib);
    }
    return a;
}

static void sec_meaning(vf::Ctx& c) {
    std::vector<ProbeSpec> reg = gen_registry(c.rng);
    Args a = gen_meaning(c.rng, true);
    judge(c, a, reg, CLS_MEANING);
}

// filters only: dense on the selection semantics (substring / strict / exclude / dotted / macro)
static void sec_filters(vf::Ctx& c) {
    std::vector<ProbeSpec> reg = gen_registry(c.rng);
    Args a; int n = c.rng.range(1, 4);
    for (int i = 0; i < n; i++) {
        int k = (int) c.rng.below(100);
        if (k < 55) { static const char* O[] = { "-g", "-sg", "-xg", "-xsg", "-n", "-sn", "-xn", "-xsn" }; size_t o = c.rng.below(8); emit(a, c.rng, O[o], gen_ident(c.rng, o < 4)); }
        else if (k < 80) { static const char* O[] = { "-t", "-st", "-xt", "-xst" }; emit(a, c.rng, O[c.rng.below(4)], gen_ident(c.rng, true) + "." + gen_ident(c.rng, false)); }
        else if (k < 92) a.push_back(std::string(c.rng.chance(70) ? "TEST(" : "IGNORE_TEST(") + gen_ident(c.rng, true) + ", " + gen_ident(c.rng, false) + ")");
        else { static const char* F[] = { "-ri", "-b", "-v", "-r2", "-p", "-ln" }; a.push_back(F[c.rng.below(6)]); }
    }
    judge(c, a, reg, CLS_MEANING);
}

// ---------------------------------------------------------------- finite: every documented option form, alone and in ordered pairs
static std::vector<Args> g_forms;
static void init_forms() {
    for (const char* f : FLAGS) g_forms.push_back(Args{ f });
    g_forms.push_back(Args{ "-r" }); g_forms.push_back(Args{ "-r3" }); g_forms.push_back(Args{ "-r", "3" });
    g_forms.push_back(Args{ "-s" }); g_forms.push_back(Args{ "-s7" }); g_forms.push_back(Args{ "-s", "7" });
    const char* GO[] = { "-g", "-sg", "-xg", "-xsg" }; const char* NO[] = { "-n", "-sn", "-xn", "-xsn" }; const char* TO[] = { "-t", "-st", "-xt", "-xst" };
    for (const char* o : GO) { g_forms.push_back(Args{ std::string(o) + "Net" }); g_forms.push_back(Args{ o, "Net" }); }
    for (const char* o : NO) { g_forms.push_back(Args{ std::string(o) + "open" }); g_forms.push_back(Args{ o, "open" }); }
    for (const char* o : TO) { g_forms.push_back(Args{ std::string(o) + "Net.open" }); g_forms.push_back(Args{ o, "Net.open" }); }
    g_forms.push_back(Args{ "TEST(Net, open)" }); g_forms.push_back(Args{ "IGNORE_TEST(NetIO, reopen)" });
    const char* K[] = { "normal", "eclipse", "junit", "teamcity" };
    for (const char* k : K) { g_forms.push_back(Args{ std::string("-o") + k }); g_forms.push_back(Args{ "-o", k }); }
    g_forms.push_back(Args{ "-kpkg" }); g_forms.push_back(Args{ "-k", "pkg" });
}
static void sec_form_pairs(vf::Ctx& c) {
    size_t n = g_forms.size(); size_t i = (size_t) (c.idx / (n + 1)), j = (size_t) (c.idx % (n + 1));
    Args a = g_forms[i]; if (j < n) a.insert(a.end(), g_forms[j].begin(), g_forms[j].end());
    judge(c, a, fixed_registry(), CLS_MEANING);
}

// ---------------------------------------------------------------- finite: multiplicity of the scalar option -o
// every sequence of 1..3 -o options x every kind word x attached/separated form of each, inside a few contexts
// (other options in front, between and behind). The getters must report one of the given kinds, the runner must apply
// exactly the kind the getters report (files / teamcity messages / console), verbosity and package are judged as usual.
static std::vector<Args> g_oseq;
static void init_oseq() {
    const char* K[] = { "normal", "eclipse", "junit", "teamcity" };
    for (int n = 1; n <= 3; n++) {
        int combos = 1; for (int k = 0; k < n; k++) combos *= 4;
        for (int cmb = 0; cmb < combos; cmb++) for (int forms = 0; forms < (1 << n); forms++) for (int ctx = 0; ctx < 6; ctx++) {
            Args a;
            if (ctx == 1) a.push_back("-v");
            if (ctx == 2) a.push_back("-vv");
            int cc = cmb;
            for (int k = 0; k < n; k++) {
                const char* w = K[cc % 4]; cc /= 4;
                if (forms & (1 << k)) { a.push_back("-o"); a.push_back(w); } else a.push_back(std::string("-o") + w);
                if (k == 0 && ctx == 3) { a.push_back("-g"); a.push_back("Net"); }
            }
            if (ctx == 2 || ctx == 4) a.push_back("-kpkg");
            if (ctx == 5) a.push_back("-c");
            g_oseq.push_back(a);
        }
    }
}
static void sec_oseq(vf::Ctx& c) { judge(c, g_oseq[(size_t) c.idx], fixed_registry(), CLS_MEANING); }

// ---------------------------------------------------------------- finite: output format options x output kind x outcome of the run
// every subset of the format options -c -v -vv (both orders) x every output kind (none given, each kind word in attached and
// separated form, in front of or behind the format options) x a context that shapes the run (filter, nothing selected, repeat,
// package, separate process, run-ignored, reverse+shuffle) x the outcome (every probe passes / some probes fail a check).
// Every output kind owns a console stream under some format options (junit: only next to -v / -vv); the applied format
// (test names, internal information, colour of the result line: green if OK, red if failed) is judged on whichever exists.
struct FmtCase { Args args; bool failing; };
static std::vector<FmtCase> g_fmt;
static std::vector<ProbeSpec> failing_registry() {
    std::vector<ProbeSpec> r = fixed_registry();
    r[1].fails = true; r[4].fails = true; r[8].fails = true;      // Net.close, Disk.open, and the ignored Disk.close (runs only under -ri)
    return r;
}
static void init_fmt() {
    static const char* FMT[] = { "-c", "-v", "-vv" };
    static const char* K[] = { "normal", "eclipse", "junit", "teamcity" };
    const Args CTX[] = { {}, { "-g", "Net" }, { "-sgnosuch" }, { "-r2" }, { "-kpkg" }, { "-p" }, { "-ri" }, { "-b", "-s7" }, { "-n", "close", "-k", "pkg" } };
    std::set<std::string> seen;
    for (int sub = 0; sub < 8; sub++) for (int rev = 0; rev < 2; rev++) for (int kind = 0; kind < 9; kind++) for (int front = 0; front < 2; front++)
        for (const Args& ctx : CTX) for (int failing = 0; failing < 2; failing++) {
            Args f; for (int b = 0; b < 3; b++) if (sub & (1 << b)) f.push_back(FMT[b]);
            if (rev) std::reverse(f.begin(), f.end());
            Args o; if (kind >= 5) { o.push_back("-o"); o.push_back(K[kind - 5]); } else if (kind >= 1) o.push_back(std::string("-o") + K[kind - 1]);
            Args a;
            if (front) { a = o; a.insert(a.end(), f.begin(), f.end()); } else { a = f; a.insert(a.end(), o.begin(), o.end()); }
            a.insert(a.end(), ctx.begin(), ctx.end());
            if (seen.insert(join_args(a) + (failing ? "F" : "P")).second) g_fmt.push_back(FmtCase{ a, failing != 0 });
        }
}
static void sec_fmt(vf::Ctx& c) {
    const FmtCase& f = g_fmt[(size_t) c.idx];
    c.count(f.failing ? "format_x_kind_cases_with_failing_probes" : "format_x_kind_cases_all_passing");
    judge(c, f.args, f.failing ? failing_registry() : fixed_registry(), CLS_MEANING);
}

// ---------------------------------------------------------------- finite: every truncation of every argument of every form
static std::vector<Args> g_trunc;
static void init_trunc() {
    std::vector<Args> bases = g_forms;
    bases.push_back(Args{ "TEST(Net, open)", "-v" }); bases.push_back(Args{ "-v", "IGNORE_TEST(Net, open)" });
    for (const Args& f : g_forms) if (f.size() == 2) { Args b = f; b.push_back("-v"); bases.push_back(b); Args d = f; d.insert(d.begin(), "-c"); bases.push_back(d); }
    for (const Args& b : bases) {
        for (size_t k = 0; k < b.size(); k++) for (size_t cut = 0; cut < b[k].size(); cut++) { Args t = b; t[k] = t[k].substr(0, cut); g_trunc.push_back(t); }
        for (size_t k = 0; k < b.size(); k++) { Args t = b; t.erase(t.begin() + (long) k); g_trunc.push_back(t); }          // dropped argument (option or value)
    }
    // hand-written malformed [IGNORE_]TEST( / group.name shapes
    const char* M[] = { "TEST(foo", "TEST(", "IGNORE_TEST(", "TEST(,", "TEST(,)", "TEST(a,", "TEST(a,)", "TEST(a,b)", "TEST(a, b", "TEST(a b)", "TEST()", "TEST(a,  b)", "TEST(, b)", "TEST(a, )", "TEST(a, b))",
                        "TEST((a, b)", "TEST(a, b)x", "TEST(a), b", "IGNORE_TEST(a", "IGNORE_TEST(,", "IGNORE_TEST(a,)", "-t.", "-t..", "-ta.", "-t.b", "-ta.b.c", "-ta.b.", "-t...", "-st.", "-xt.", "-xst..", "-ta", "-st", "-xst" };
    for (const char* m : M) { g_trunc.push_back(Args{ m }); g_trunc.push_back(Args{ m, "x" }); g_trunc.push_back(Args{ "-v", m }); }
    const char* M2[][2] = { { "-t", "." }, { "-t", ".." }, { "-t", "a." }, { "-t", ".b" }, { "-st", "a.b.c" }, { "-xt", "" }, { "TEST(", "a, b)" }, { "TEST(", "" }, { "IGNORE_TEST(", "x" }, { "-g", "" }, { "-o", "" }, { "-k", "" }, { "-r", "" }, { "-s", "" },
                            { "-r", "0" }, { "-s", "0" }, { "-r", "-1" }, { "-s", "-1" }, { "-r", " 3" }, { "-s", " 7" }, { "-r", "+2" }, { "-g", "-g" }, { "-n", "-sn" }, { "-o", "-ojunit" }, { "-k", "-k" }, { "-t", "-t" } };
    for (auto& m : M2) g_trunc.push_back(Args{ m[0], m[1] });
    const char* M1[] = { "-r0", "-s0", "-r-1", "-s-1", "-r+2", "-r99999999999999999999", "-s99999999999999999999", "-s4294967296", "-s4294967295", "-r2147483647", "-r2147483648", "-r4294967297", "-r 3", "-s 7", "-r3x", "-s7x", "-rx", "-sx",
                         "-ojunitx", "-oJUNIT", "-o ", "-k ", "-g ", "", " ", "-", "--", "-p-p", "-pp" };
    for (const char* m : M1) { g_trunc.push_back(Args{ m }); g_trunc.push_back(Args{ m, "-v" }); }
}
static void sec_trunc(vf::Ctx& c) { judge(c, g_trunc[(size_t) c.idx], fixed_registry(), CLS_HOSTILE); }

// ---------------------------------------------------------------- finite: vectors whose configuration reads the clock x the clock lattice
// (every place where the reading's 64 -> 32 bit truncation, its zero test or its sign could bite, constant and advancing clock)
static std::vector<Args> g_clockvecs; static std::vector<unsigned long long> g_lattice;
static void init_clock() {
    g_lattice = clock_lattice();
    const Args V[] = { { "-s" }, { "-s", "-v" }, { "-v", "-s" }, { "-b", "-r2", "-s" }, { "-s", "-sg", "Net" }, { "-s", "-s" }, { "-s", "-s7" }, { "-s7", "-s" }, { "-s", "-p" },
                       { "-s", "-ojunit" }, { "-vv", "-s", "-v" }, { "-s", "TEST(Net, open)" }, { "-s", "-ln" }, { "-r", "-s" },
                       { "-s", "7" }, { "-s7" }, { "-r3" }, { "-v" } };          // the last four: controls that do not depend on the clock
    for (const Args& v : V) g_clockvecs.push_back(v);
}
static void sec_clock_lattice(vf::Ctx& c) {
    size_t nv = g_clockvecs.size(); uint64_t i = c.idx;
    size_t v = (size_t) (i % nv); i /= nv; unsigned step = (unsigned) (i % 2); i /= 2;
    Clock k = { g_lattice[(size_t) i], step };
    judge(c, g_clockvecs[v], fixed_registry(), CLS_MEANING, &k);
}

// ---------------------------------------------------------------- hostile: arbitrary bytes
static std::string rand_bytes(vf::Rng& r, int lo, int hi) {
    static const char HOT[] = "-(),. TESTIGNORE_gnstxkrpolhvcbfei0123456789+";
    std::string s; int n = r.range(lo, hi);
    for (int i = 0; i < n; i++) s += r.chance(50) ? HOT[r.below(sizeof(HOT) - 1)] : (char) (1 + r.below(255));
    return s;
}
static const char* PREFIXES[] = { "-h", "-v", "-vv", "-c", "-p", "-b", "-lg", "-ln", "-ll", "-ri", "-f", "-e", "-ci", "-r", "-g", "-t", "-st", "-xt", "-xst", "-sg", "-xg", "-xsg", "-n", "-sn", "-xn", "-xsn", "-s", "TEST(", "IGNORE_TEST(", "-o", "-k", "-x", "-l" };
static void sec_hostile_bytes(vf::Ctx& c) {
    std::vector<ProbeSpec> reg = c.rng.chance(50) ? fixed_registry() : gen_registry(c.rng);
    Args a; int n = c.rng.range(1, 8);
    for (int i = 0; i < n; i++) {
        int k = (int) c.rng.below(100);
        if (k < 40) a.push_back(rand_bytes(c.rng, 0, 12));
        else if (k < 80) a.push_back(std::string(PREFIXES[c.rng.below(sizeof(PREFIXES) / sizeof(PREFIXES[0]))]) + rand_bytes(c.rng, 0, 8));
        else if (k < 90) a.push_back(std::string(c.rng.chance(50) ? "TEST(" : "IGNORE_TEST(") + rand_bytes(c.rng, 0, 5) + (c.rng.chance(60) ? "," : "") + (c.rng.chance(60) ? " " : "") + rand_bytes(c.rng, 0, 5) + (c.rng.chance(50) ? ")" : ""));
        else gen_item(a, c.rng, true);
    }
    judge(c, a, reg, CLS_HOSTILE);
}

// ---------------------------------------------------------------- hostile: mutations of valid vectors
static void mutate(Args& a, vf::Rng& r) {
    if (a.empty()) { a.push_back(rand_bytes(r, 0, 4)); return; }
    size_t i = r.below(a.size());
    switch (r.below(16)) {
    case 0: a[i] = a[i].substr(0, r.below(a[i].size() + 1)); break;                                   // truncation
    case 1: a.erase(a.begin() + (long) i); break;                                                     // dropped argument / value
    case 2: a.pop_back(); break;                                                                      // dropped last (often a value)
    case 3: for (std::string& s : a) if (s.compare(0, 5, "TEST(") == 0 || s.compare(0, 12, "IGNORE_TEST(") == 0) { size_t p = s.find(r.chance(50) ? ')' : ','); if (p != std::string::npos) s = s.substr(0, p + r.below(2)); } break;
    case 4: for (std::string& s : a) { size_t p = s.find(", "); if (p != std::string::npos) s.erase(p, r.chance(50) ? 2 : 1); } break;      // missing ", "
    case 5: a.insert(a.begin() + (long) i, a[i]); break;                                              // doubled
    case 6: { static const char* O[] = { "-g", "-sg", "-xsg", "-n", "-xsn", "-t", "-xst", "-o", "-k", "-r", "-s", "TEST(", "IGNORE_TEST(" }; a.insert(a.begin() + (long) i, O[r.below(13)]); } break;   // option takes the next option as its value
    case 7: a.insert(a.begin() + (long) i, ""); break;                                                // empty argument
    case 8: for (std::string& s : a) { size_t p = s.find('.'); if (p != std::string::npos) { switch (r.below(4)) { case 0: s.erase(p, 1); break; case 1: s.insert(p, "."); break; case 2: s += "."; break; default: s += ".x"; } } } break;
    case 9: { static const char* N[] = { "-r0", "-r-1", "-r+3", "-r99999999999999999999", "-s0", "-s4294967296", "-s-5", "-r2147483648", "-s99999999999", "-r00", "-s000" }; a.insert(a.begin() + (long) i, N[r.below(11)]); } break;
    case 10: { static const char* N[][2] = { { "-r", "0" }, { "-r", "-3" }, { "-s", "0" }, { "-s", "12abc" }, { "-r", "3abc" }, { "-s", "-1" }, { "-r", " 2" }, { "-s", "\t9" } }; size_t k = r.below(8); a.insert(a.begin() + (long) i, N[k][1]); a.insert(a.begin() + (long) i, N[k][0]); } break;
    case 11: a[i] += (char) (1 + r.below(255)); break;                                                // trailing byte
    case 12: a[i] = " " + a[i]; break;
    case 13: if (!a[i].empty()) a[i][r.below(a[i].size())] = (char) (1 + r.below(255)); break;          // one byte replaced
    case 14: a.insert(a.begin() + (long) i, UNKNOWN[r.below(sizeof(UNKNOWN) / sizeof(UNKNOWN[0]))]); break;
    default: std::swap(a[i], a[r.below(a.size())]); break;                                            // values and options change places
    }
}
static void sec_hostile_mut(vf::Ctx& c) {
    std::vector<ProbeSpec> reg = c.rng.chance(50) ? fixed_registry() : gen_registry(c.rng);
    Args a = gen_meaning(c.rng, false);
    int n = c.rng.range(1, 2);
    for (int i = 0; i < n; i++) mutate(a, c.rng);
    judge(c, a, reg, CLS_HOSTILE);
}

int main(int argc, char** argv) {
    init_forms(); init_trunc(); init_clock(); init_oseq(); init_fmt();
    uint64_t nf = g_forms.size(), nc = (uint64_t) g_clockvecs.size() * 2 * g_lattice.size();
    std::vector<vf::Section> S = {
        { "option_form_pairs", nf * (nf + 1), nf * (nf + 1), sec_form_pairs, true },
        { "truncations_and_malformed", g_trunc.size(), g_trunc.size(), sec_trunc, true },
        { "output_kind_option_sequences", g_oseq.size(), g_oseq.size(), sec_oseq, true },
        { "clock_lattice_x_clock_reading_vectors", nc, nc, sec_clock_lattice, true },
        { "output_format_x_output_kind_x_outcome", g_fmt.size(), g_fmt.size(), sec_fmt, true },
        { "meaning_random", 60000, 700000, sec_meaning, false },
        { "filters_random", 20000, 300000, sec_filters, false },
        { "hostile_bytes", 30000, 400000, sec_hostile_bytes, false },
        { "hostile_mutations", 30000, 400000, sec_hostile_mut, false },
    };
    return vf::harness_main(argc, argv, S, nullptr);
}
