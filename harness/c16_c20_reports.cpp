// C16 (JUnit XML) and C20 (TeamCity service messages): generated runs, output captured at the
// PlatformSpecificFOpen/FPuts/FClose seams (or by a recording subclass), ground truth + captured
// bytes handed to the offline Python oracle (oracle/reports.py: expat / independent TeamCity tokenizer).
//   -DVF_JUNIT     -> C16        -DVF_TEAMCITY -> C20
#include "verif.h"
#include <deque>
#include <memory>
#include <sys/types.h>
#include <sys/wait.h>

#include "CppUTest/TestHarness.h"
#include "CppUTest/TestRegistry.h"
#include "CppUTest/TestFilter.h"
#include "CppUTest/TestFailure.h"
#include "CppUTest/TestOutput.h"
#include "CppUTest/JUnitTestOutput.h"
#include "CppUTest/TeamCityTestOutput.h"
#include "CppUTest/CommandLineTestRunner.h"
#include "CppUTest/PlatformSpecificFunctions.h"

#if !defined(VF_JUNIT) && !defined(VF_TEAMCITY)
#error "define VF_JUNIT or VF_TEAMCITY"
#endif

// ------------------------------------------------------------------ generated run
struct FailSpec { const char* file; size_t line; const char* text; bool located = true; };   // located=false: reported with TestFailure(test, message), i.e. at the test's own location and without leaving the test (as plugins and mocks do)
struct TestSpec {
    const char* group; const char* name; const char* file; size_t line;
    bool ignored = false;                    // declared with IGNORE_TEST (an IgnoredUtestShell): skipped unless the pass runs ignored tests; its scripted body is what it does when it does run
    bool flagged = false;                    // UtestShell::setRunIgnored() called on this very shell before the first pass (a no-op for an ordinary test)
    std::vector<const char*> names;          // the test's name during each pass (direct mode may rename shells between two passes: UtestShell::setTestName); names[0] == name
    int passing_checks = 0;
    std::vector<const char*> prints;         // printed in the body, before any failure
    std::vector<FailSpec> failures;          // [0] raised in the body, [1] (if any) raised in teardown
    bool selected = true;                    // false: rejected by the run's group/name filters
    // separate-process runs only: how the child ends after the scripted body (0 = as scripted, 1 = _exit(death_arg), 2 = killed by signal death_arg)
    int death = 0, death_arg = 0;
    // observed
    int executed = 0;
    bool fails_in_child() const { return !failures.empty() || death == 2 || (death == 1 && death_arg != 0); }
};
// one filter of the run: the test runs iff (there is no group filter or some group filter accepts its group) and (no name filter or some name filter accepts its name)
struct FilterSpec { bool on_group; bool strict; bool invert; const char* text; };
struct GroupSpec { const char* name; std::vector<TestSpec*> tests; };
struct RunSpec {
    std::deque<std::string> strings;
    std::deque<TestSpec> tests;
    std::vector<GroupSpec> groups;
    const char* package = "";
    int mode = 0;           // 0 = output object driven directly by TestRegistry::runAllTests, 1 = through CommandLineTestRunner (-ojunit/-oteamcity)
    int repeat = 1;
    bool verbose = false;
    int repackage = 0;                          // JUnit, direct mode: setPackageName called 1 + repackage times
    std::vector<FilterSpec> filters;            // empty: unfiltered run
    bool sep_process = false;                   // every test runs in a forked child (registry flag / -p); only the parent's output is judged
    // one entry per pass over the registry (runner: one per repetition): is the run-ignored option (TestRegistry::setRunIgnored / -ri) in force during that pass?
    // direct mode may switch it on between two passes (the option cannot be switched off again)
    std::vector<bool> passes;
    bool renames = false;                       // direct mode: some shells are renamed between two passes
    bool tiny = false;                          // the boundary run: one group with one test
    bool shell_flags = false;                   // direct mode: some shells got setRunIgnored() individually
    bool runs_in_pass(const TestSpec& t, size_t p) const { return t.selected && (!t.ignored || passes[p] || t.flagged); }
    const char* keep(const std::string& s) { strings.push_back(s); return strings.back().c_str(); }
};

static const char SPECIAL_XML[] = "&<>\"'";
static const char SPECIAL_TC[] = "'|[]";
static const char SPECIAL_FN[] = "/\\?%*:|\"<>";
static const char PLAIN[] = "abcABC019 ._-,;=(){}!@$^~+`";

static std::string gen_text(vf::Rng& r, int minlen, int maxlen, int pct_special, int pct_break) {
    int n = r.range(minlen, maxlen);
    std::string s;
    for (int i = 0; i < n; i++) {
        int roll = (int) r.below(100);
        if (roll < pct_break) s += r.chance(50) ? '\n' : '\r';
        else if (roll < pct_break + pct_special) {
            switch (r.below(3)) {
            case 0: s += SPECIAL_XML[r.below(sizeof(SPECIAL_XML) - 1)]; break;
            case 1: s += SPECIAL_TC[r.below(sizeof(SPECIAL_TC) - 1)]; break;
            default: s += SPECIAL_FN[r.below(sizeof(SPECIAL_FN) - 1)]; break;
            }
        } else s += PLAIN[r.below(sizeof(PLAIN) - 1)];
    }
    return s;
}
// adversarial fragments: things that look like escapes / entities / message ends
static const char* const FRAGMENTS[] = { "&amp;", "&lt;", "&#10;", "|n", "|r", "||", "|'", "']", "' x='", "]]>", "<!--", "-->", "<![CDATA[", "&", "'", "\"", "|", "<a b=\"c\">", "\r\n", "\n\n", "%s", "%d%n", "\\n", "&quot;", "|0x0010", "|0xBEEF", "|0x00e9 ", "&apos;", "&#13;", "&#x41;", "&amp;lt;" };
static std::string gen_hostile(vf::Rng& r, int minlen, int maxlen, int pct_break) {
    // 6 %: a long value (100..450 characters) with specials at arbitrary offsets, so that escapes straddle any internal chunk boundary
    if (r.chance(6)) { minlen = 100; maxlen = 450; }
    std::string s = gen_text(r, minlen, maxlen, 30, pct_break);
    int k = r.range(0, 2);
    for (int i = 0; i < k; i++) { size_t pos = r.below(s.size() + 1); s.insert(pos, FRAGMENTS[r.below(sizeof(FRAGMENTS) / sizeof(FRAGMENTS[0]))]); }
    return s;
}

static std::string sanitise_filename(const std::string& s) {      // only used to keep generated group names distinct after sanitising
    std::string o = s;
    for (char& ch : o) if (strchr(SPECIAL_FN, ch)) ch = '_';
    return o;
}

// independent model of the selection rule (plain C string functions, not SimpleString)
static bool model_accepts(const FilterSpec& f, const char* s) {
    bool m = f.strict ? strcmp(s, f.text) == 0 : strstr(s, f.text) != nullptr;
    return f.invert ? !m : m;
}
static bool model_selected(const std::vector<FilterSpec>& fs, const TestSpec& t) {
    bool any_g = false, ok_g = false, any_n = false, ok_n = false;
    for (const FilterSpec& f : fs) {
        if (f.on_group) { any_g = true; ok_g |= model_accepts(f, t.group); }
        else { any_n = true; ok_n |= model_accepts(f, t.name); }
    }
    return (!any_g || ok_g) && (!any_n || ok_n);
}

static void generate(vf::Rng& r, RunSpec& run, bool thorough) {
    // "any number of groups and tests": 8 % of the runs are the smallest run there is, one group with one test (then the same shell is the last
    // one started in a pass and the first one started in the next)
    run.tiny = r.chance(8);
    int ngroups = run.tiny ? 1 : r.range(1, thorough ? 7 : 5);
    std::set<std::string> seen;
    run.mode = r.chance(35) ? 1 : 0;
    run.repeat = (run.mode == 1 && r.chance(20)) ? 2 : 1;
    run.verbose = run.mode == 1 && r.chance(30);
    run.repackage = (run.mode == 0 && r.chance(35)) ? 1 + (int) r.below(2) : 0;
    run.package = run.keep(r.chance(60) ? gen_hostile(r, 1, 8, 2) : std::string());
    // in runner mode the package travels through argv ("-k", value): any value is taken literally
    for (int g = 0; g < ngroups; g++) {
        std::string gname;
        // "any group name": the empty string is a legal boundary value (UtestShell("", ...)); at most one per run (distinct file names)
        do { gname = r.chance(6) ? std::string() : gen_hostile(r, 1, 10, 3); } while (!seen.insert(sanitise_filename(gname)).second);
        GroupSpec gs; gs.name = run.keep(gname);
        int ntests = run.tiny ? 1 : r.range(1, thorough ? 8 : 6);
        std::string gfile = gen_hostile(r, 3, 14, 2) + ".cpp";
        for (int t = 0; t < ntests; t++) {
            run.tests.emplace_back();
            TestSpec& ts = run.tests.back();
            ts.group = gs.name;
            ts.name = run.keep(r.chance(4) ? std::string() : gen_hostile(r, 1, 10, 3));
            ts.file = run.keep(r.chance(80) ? gfile : gen_hostile(r, 3, 14, 2));
            ts.line = (size_t) r.range(2, 5000);
            int kind = (int) r.below(100);
            if (kind < 22) { ts.ignored = true; kind = r.range(22, 99); }      // an IGNORE_TEST has a body like any other test: it is executed in a run-ignored pass
            {
                ts.passing_checks = r.range(0, 3);
                int np = r.chance(35) ? r.range(1, 2) : 0;
                for (int p = 0; p < np; p++) ts.prints.push_back(run.keep(gen_hostile(r, 0, 20, 8)));
                if (kind < 65) {
                    int nf = r.chance(25) ? 2 : 1;
                    for (int f = 0; f < nf; f++) {
                        FailSpec fs;
                        int where = (int) r.below(3);
                        if (where == 0) { fs.file = ts.file; fs.line = ts.line + (size_t) r.range(0, 40); }               // inside the test
                        else if (where == 1) { fs.file = ts.file; fs.line = (size_t) r.range(1, (int) ts.line - 1); }     // helper above the test
                        else { fs.file = run.keep(gen_hostile(r, 3, 14, 2)); fs.line = (size_t) r.range(1, 9000); }       // another file
                        fs.text = run.keep(gen_hostile(r, 0, 40, 10));
                        if (r.chance(20)) { fs.located = false; fs.file = ts.file; fs.line = ts.line; }
                        ts.failures.push_back(fs);
                    }
                }
            }
            gs.tests.push_back(&ts);
        }
        run.groups.push_back(gs);
    }
    // "for every run": 25 % of the runs are filtered by one or two group/name filters of every kind (substring / strict,
    // selecting / excluding), so that groups whose first / last / middle / all tests are filtered out occur; judged for the
    // selected tests only, what a wholly filtered-out group produces is not judged
    if (r.chance(25)) {
        int nf = r.chance(25) ? 2 : 1;
        for (int i = 0; i < nf; i++) {
            FilterSpec f;
            f.on_group = r.chance(25); f.strict = r.chance(60); f.invert = r.chance(35);
            const TestSpec& src = run.tests[r.below(run.tests.size())];
            std::string text = f.on_group ? src.group : src.name;
            if (!f.strict && !text.empty()) { size_t a = r.below(text.size()); size_t n = 1 + r.below(text.size() - a); text = text.substr(a, n); }
            if (r.chance(10)) text = "no such test";
            if (text.empty()) f.strict = true;          // an empty substring filter is C02's business; the empty strict filter selects the empty name
            f.text = run.keep(text);
            run.filters.push_back(f);
        }
        for (auto& t : run.tests) t.selected = model_selected(run.filters, t);
    }
    // "any pass/fail/ignore pattern": what is ignored depends on the run. 22 % of the runs use the run-ignored option (TestRegistry::setRunIgnored / -ri): every
    // IGNORE_TEST is then executed (and passes, fails or prints) like an ordinary test and is no ignored test of that run. Direct mode makes one or (25 %,
    // single-test runs 60 %) two or three passes over the same registry and output object, with the option set before the first pass, between two passes or
    // never; the runner repeats with -r2. Between two passes of an unfiltered direct run the tests may be renamed (40 % of these runs, single-test runs 70 %;
    // UtestShell::setTestName on 70 % of the shells): every pass must be reported under the names the tests have during that pass.
    // 10 % of the direct runs without the option set UtestShell::setRunIgnored() on individual shells (ordinary and ignored ones) instead.
    {
        bool ri = r.chance(22);
        if (run.mode == 1) run.passes.assign((size_t) run.repeat, ri);
        else {
            size_t np = r.chance(run.tiny ? 60 : 25) ? (r.chance(30) ? 3 : 2) : 1;
            size_t ri_from = ri ? r.below(np) : np;                 // the pass before which setRunIgnored() is called
            for (size_t p = 0; p < np; p++) run.passes.push_back(p >= ri_from);
            if (!ri && r.chance(10)) {
                run.shell_flags = true;
                for (auto& t : run.tests) t.flagged = r.chance(50);
            }
        }
    }
    for (auto& t : run.tests) t.names.assign(run.passes.size(), t.name);
    if (run.mode == 0 && run.passes.size() > 1 && run.filters.empty() && r.chance(run.tiny ? 70 : 40)) {
        for (auto& t : run.tests)
            for (size_t p = 1; p < run.passes.size(); p++) {
                t.names[p] = t.names[p - 1];
                if (r.chance(70)) { t.names[p] = run.keep(r.chance(4) ? std::string() : gen_hostile(r, 1, 10, 3)); run.renames = true; }
            }
    }
    // 8 % of the runs (3 % in the thorough tier: a fork of a sanitised process is expensive) execute every test in a forked child
    // (TestRegistry::setRunTestsInSeperateProcess / -p): the child reports to its own copy of the output object, the parent adds one
    // failure per child that failed, exited non-zero or was killed
    if (r.chance(thorough ? 3 : 8)) {
        run.sep_process = true;
        static const int SIGS[] = { SIGKILL, SIGTERM, SIGUSR1, SIGUSR2 };
        for (auto& t : run.tests) {
            if (!t.failures.empty() || !r.chance(50)) continue;
            if (r.chance(50)) { t.death = 1; t.death_arg = r.chance(15) ? 0 : r.range(1, 255); }
            else { t.death = 2; t.death_arg = SIGS[r.below(4)]; }
        }
    }
}

// ------------------------------------------------------------------ scripted shells
static std::map<const UtestShell*, TestSpec*>* g_specs;
static pid_t g_runner_pid = 0;                  // the process that called runAllTests: a deadly action is never executed there
static int g_deadly_in_parent = 0;
static bool g_parent_pid_guard() { if (getpid() == g_runner_pid) { g_deadly_in_parent++; return true; } return false; }

class ScriptTest : public Utest {
public:
    TestSpec* s_;
    explicit ScriptTest(TestSpec* s) : s_(s) {}
    void testBody() CPPUTEST_OVERRIDE {
        UtestShell* sh = UtestShell::getCurrent();
        s_->executed++;
        for (int i = 0; i < s_->passing_checks; i++) CHECK(true);
        for (const char* p : s_->prints) sh->print(p, s_->file, s_->line);
        if (!s_->failures.empty()) raise(sh, s_->failures[0]);
        if (s_->death && !g_parent_pid_guard()) die(s_->death, s_->death_arg);
    }
    static void die(int how, int arg) {         // only ever reached in a forked child
        if (how == 1) _exit(arg);
        signal(arg, SIG_DFL);
        sigset_t m; sigemptyset(&m); sigaddset(&m, arg); sigprocmask(SIG_UNBLOCK, &m, nullptr);
        ::raise(arg);
        _exit(200);                              // not reached
    }
    static void raise(UtestShell* sh, const FailSpec& f) {
        if (f.located) sh->fail(f.text, f.file, f.line);
        else sh->addFailure(TestFailure(sh, SimpleString(f.text)));
    }
    void teardown() CPPUTEST_OVERRIDE {
        UtestShell* sh = UtestShell::getCurrent();
        if (s_->failures.size() > 1) raise(sh, s_->failures[1]);
    }
};
class ScriptShell : public UtestShell {
public:
    TestSpec* s_;
    explicit ScriptShell(TestSpec* s) : UtestShell(s->group, s->name, s->file, s->line), s_(s) {}
    Utest* createTest() CPPUTEST_OVERRIDE { return new ScriptTest(s_); }
};
class ScriptIgnoredShell : public IgnoredUtestShell {      // what IGNORE_TEST declares: an IgnoredUtestShell with a body
public:
    TestSpec* s_;
    explicit ScriptIgnoredShell(TestSpec* s) : IgnoredUtestShell(s->group, s->name, s->file, s->line), s_(s) {}
    Utest* createTest() CPPUTEST_OVERRIDE { return new ScriptTest(s_); }
};

// ------------------------------------------------------------------ seam capture
struct FileCap { std::string name, mode, content; int closes = 0; int writes_after_close = 0; };
static std::vector<FileCap> g_files;
static std::string g_console;
static PlatformSpecificFile cap_fopen(const char* name, const char* mode) {
    FileCap f; f.name = name ? name : "(null)"; f.mode = mode ? mode : "";
    g_files.push_back(f);
    return (PlatformSpecificFile) (uintptr_t) (g_files.size());
}
static void cap_fputs(const char* s, PlatformSpecificFile file) {
    if (file == PlatformSpecificStdOut) { g_console += s; return; }
    size_t i = (size_t) (uintptr_t) file;
    if (i == 0 || i > g_files.size()) { g_console += "<<write to unknown file handle>>"; return; }
    if (g_files[i - 1].closes) g_files[i - 1].writes_after_close++;
    g_files[i - 1].content += s;
}
static void cap_fclose(PlatformSpecificFile file) {
    size_t i = (size_t) (uintptr_t) file;
    if (i >= 1 && i <= g_files.size()) g_files[i - 1].closes++;
}
static void cap_flush() {}

// recording subclasses (mode 0)
static std::vector<std::string> g_printed;        // raw strings handed to JUnitTestOutput::print(const char*)
class RecJUnit : public JUnitTestOutput {
public:
    void print(const char* s) CPPUTEST_OVERRIDE { g_printed.push_back(s); JUnitTestOutput::print(s); }
};
class RecTeamCity : public TeamCityTestOutput {
public:
    void printBuffer(const char* s) CPPUTEST_OVERRIDE { g_console += s; }
    void flush() CPPUTEST_OVERRIDE {}
};

// ------------------------------------------------------------------ one case
static std::string truth_json(const RunSpec& run, const std::vector<TestSpec*>& order) {
    std::vector<std::string> groups;
    size_t k = 0;
    // run order = order of the registry list; consecutive equal group names form one group
    while (k < order.size()) {
        const char* g = order[k]->group;
        std::vector<std::string> tests;
        while (k < order.size() && strcmp(order[k]->group, g) == 0) {
            TestSpec* t = order[k];
            std::vector<std::string> fails, prints;
            if (run.sep_process) {
                // what the PARENT's output object gets to see: no printed text, and one failure (reported for the test itself, text not judged here: C11)
                // for a child that recorded a failure, exited non-zero or was killed
                if (t->fails_in_child()) fails.push_back(vf::J().k("file", t->file).k("line", (unsigned long) t->line).raw("text", "null").str());
            } else {
                for (const FailSpec& f : t->failures) fails.push_back(vf::J().k("file", f.file).k("line", (unsigned long) f.line).k("text", f.text).str());
                for (const char* p : t->prints) prints.push_back(vf::jstr(p));
            }
            // "failures" / "prints": what the test does in a pass that executes it (an IGNORE_TEST only in a run-ignored pass or when flagged itself)
            std::vector<std::string> names;
            for (const char* n : t->names) names.push_back(vf::jstr(n));
            tests.push_back(vf::J().k("name", t->name).raw("name_in_pass", vf::jarr(names)).k("file", t->file).k("line", (unsigned long) t->line).k("ignored", t->ignored).k("shell_run_ignored", t->flagged).k("selected", t->selected)
                            .raw("failures", vf::jarr(fails)).raw("prints", vf::jarr(prints)).k("executed", t->executed)
                            .k("scripted_failures", (int) t->failures.size()).k("child_end", t->death == 0 ? "as scripted" : t->death == 1 ? "_exit" : "signal").k("child_end_arg", t->death_arg).str());
            k++;
        }
        groups.push_back(vf::J().k("name", g).raw("tests", vf::jarr(tests)).str());
    }
    std::vector<std::string> flts;
    for (const FilterSpec& f : run.filters) flts.push_back(vf::J().k("on", f.on_group ? "group" : "name").k("strict", f.strict).k("invert", f.invert).k("text", f.text).str());
    std::vector<std::string> passes;
    for (bool ri : run.passes) passes.push_back(ri ? "true" : "false");
    return vf::J().k("package", run.package).raw("run_ignored_in_pass", vf::jarr(passes)).raw("filters", vf::jarr(flts)).k("filtered", !run.filters.empty()).k("separate_process", run.sep_process).k("set_package_calls", 1 + run.repackage).k("mode", run.mode).k("repeat", run.repeat).k("verbose", run.verbose).raw("groups", vf::jarr(groups)).str();
}

static bool has_any(const char* s, const char* set) { return strpbrk(s, set) != nullptr; }

static void sec_runs(vf::Ctx& c) {
    RunSpec run;
    generate(c.rng, run, c.thorough);
    c.begin([&] {
        std::vector<TestSpec*> o; for (auto& t : run.tests) o.push_back(const_cast<TestSpec*>(&t));
        return truth_json(run, o);
    });

    g_files.clear(); g_console.clear(); g_printed.clear();
    PlatformSpecificFile (*old_fopen)(const char*, const char*) = PlatformSpecificFOpen;
    void (*old_fputs)(const char*, PlatformSpecificFile) = PlatformSpecificFPuts;
    void (*old_fclose)(PlatformSpecificFile) = PlatformSpecificFClose;
    void (*old_flush)() = PlatformSpecificFlush;
    PlatformSpecificFOpen = cap_fopen; PlatformSpecificFPuts = cap_fputs; PlatformSpecificFClose = cap_fclose; PlatformSpecificFlush = cap_flush;

    std::map<const UtestShell*, TestSpec*> specs; g_specs = &specs;
    std::vector<UtestShell*> shells;
    TestRegistry reg;
    reg.setCurrentRegistry(&reg);
    // addTest prepends: add in reverse so that run order == generation order
    for (size_t i = run.tests.size(); i-- > 0;) {
        TestSpec* t = &run.tests[i];
        UtestShell* sh = t->ignored ? (UtestShell*) new ScriptIgnoredShell(t) : (UtestShell*) new ScriptShell(t);
        if (t->flagged) sh->setRunIgnored();
        shells.push_back(sh); specs[sh] = t;
        reg.addTest(sh);
    }
    std::vector<TestSpec*> order;
    for (UtestShell* sh = reg.getFirstTest(); sh; sh = sh->getNext()) order.push_back(specs[sh]);

    int runner_rc = -1;
    g_runner_pid = getpid(); g_deadly_in_parent = 0;
    if (run.sep_process) fflush(nullptr);       // nothing buffered may be inherited by (and flushed a second time from) a forked child
    static const char* const FLAG[2][2][2] = { { { "-n", "-xn" }, { "-sn", "-xsn" } }, { { "-g", "-xg" }, { "-sg", "-xsg" } } };   // [group][strict][invert]
    if (run.mode == 0) {
#ifdef VF_JUNIT
        RecJUnit out;
        // the package may be set more than once (a default that is overridden, a cleared package): the last one counts
        if (run.repackage == 1) out.setPackageName("decoy/pkg");
        if (run.repackage == 2) { out.setPackageName("x"); out.setPackageName(""); }
        out.setPackageName(run.package);
#else
        RecTeamCity out;
#endif
        std::deque<TestFilter> flts;
        TestFilter* gf = NULLPTR; TestFilter* nf = NULLPTR;
        for (const FilterSpec& f : run.filters) {
            flts.emplace_back(f.text);
            TestFilter* tf = &flts.back();
            if (f.strict) tf->strictMatching();
            if (f.invert) tf->invertMatching();
            if (f.on_group) gf = tf->add(gf); else nf = tf->add(nf);
        }
        if (gf) reg.setGroupFilters(gf);
        if (nf) reg.setNameFilters(nf);
        if (run.sep_process) reg.setRunTestsInSeperateProcess();
        for (size_t p = 0; p < run.passes.size(); p++) {          // as the runner does for -rN: one TestResult per pass, the same output object
            if (run.passes[p] && !(p && run.passes[p - 1])) reg.setRunIgnored();
            if (p) for (auto& ss : specs) if (ss.second->names[p] != ss.second->names[p - 1]) const_cast<UtestShell*>(ss.first)->setTestName(ss.second->names[p]);
            TestResult res(out);
            reg.runAllTests(res);
        }
        reg.setGroupFilters(NULLPTR); reg.setNameFilters(NULLPTR);
    } else {
        std::vector<const char*> av; av.push_back("harness");
#ifdef VF_JUNIT
        av.push_back("-ojunit");
        if (run.package[0]) { av.push_back("-k"); av.push_back(run.package); }
#else
        av.push_back("-oteamcity");
#endif
        for (const FilterSpec& f : run.filters) { av.push_back(FLAG[f.on_group][f.strict][f.invert]); av.push_back(f.text); }
        if (run.sep_process) av.push_back("-p");
        if (run.passes[0]) av.push_back("-ri");
        if (run.verbose) av.push_back("-v");
        if (run.repeat == 2) av.push_back("-r2");
        CommandLineTestRunner runner((int) av.size(), av.data(), &reg);
        runner_rc = runner.runAllTestsMain();
    }
    reg.setCurrentRegistry(NULLPTR);
    PlatformSpecificFOpen = old_fopen; PlatformSpecificFPuts = old_fputs; PlatformSpecificFClose = old_fclose; PlatformSpecificFlush = old_flush;

    // execution sanity (not the property itself, but the ground truth relies on it)
    for (TestSpec* t : order) {
        int want = 0;
        for (size_t p = 0; p < run.passes.size(); p++) want += run.runs_in_pass(*t, p);
        if (run.sep_process) want = 0;           // separate process: the body runs in the child, the parent's counter stays
        if (t->executed != want) c.violation("harness:execution-count", std::string("test ran ") + std::to_string(t->executed) + " times, expected " + std::to_string(want));
    }

    if (g_deadly_in_parent) c.violation("harness:test-not-run-in-a-child", std::to_string(g_deadly_in_parent) + " test(s) of a separate-process run were executed in the process that called runAllTests (the deadly end of the body was skipped)");
    std::vector<std::string> files, printed;
    for (const FileCap& f : g_files) files.push_back(vf::J().k("name", f.name).k("mode", f.mode).k("content", f.content).k("closes", f.closes).k("writes_after_close", f.writes_after_close).str());
    for (const std::string& p : g_printed) printed.push_back(vf::jstr(p));
#ifdef VF_JUNIT
    c.observe(vf::J().k("kind", "junit").raw("truth", truth_json(run, order)).raw("files", vf::jarr(files)).raw("printed", vf::jarr(printed)).k("runner_rc", runner_rc).str());
#else
    c.observe(vf::J().k("kind", "teamcity").raw("truth", truth_json(run, order)).k("stream", g_console).k("runner_rc", runner_rc).str());
#endif

    // coverage / non-trivial rule
    bool markup = false, failing = false, ignored = false, outside = false, special_tc = false;
    std::string sig;
    for (TestSpec* t : order) {
        markup |= has_any(t->group, SPECIAL_XML) || has_any(t->name, SPECIAL_XML) || has_any(t->file, SPECIAL_XML) || has_any(run.package, SPECIAL_XML);
        special_tc |= has_any(t->group, "'|[]\n\r") || has_any(t->name, "'|[]\n\r") || has_any(t->file, "'|[]\n\r");
        bool ran = false;                        // an IGNORE_TEST's scripted failures and prints only count where some pass executed it
        for (size_t p = 0; p < run.passes.size(); p++) { ran |= run.runs_in_pass(*t, p); ignored |= t->ignored && !run.runs_in_pass(*t, p); }
        if (t->ignored && !ran) { sig += t->group; sig += '\1'; sig += t->name; sig += "\1i\2"; c.count("tests_ignored"); continue; }
        failing |= !t->failures.empty();
        for (const FailSpec& f : t->failures) { if (strcmp(f.file, t->file) != 0) outside = true; special_tc |= has_any(f.text, "'|[]\n\r") || has_any(f.file, "'|[]\n\r"); markup |= has_any(f.text, SPECIAL_XML); }
        sig += t->group; sig += '\1'; sig += t->name; sig += '\1'; sig += t->ignored ? 'I' : 't'; sig += (char) ('0' + t->failures.size()); sig += '\2';
        c.count(t->ignored ? "tests_ignored_but_executed" : t->failures.empty() ? "tests_passing" : "tests_failing");
        c.count("failures_raised", t->failures.size());
        c.count("prints", t->prints.size());
    }
    c.count("groups", run.groups.size());
    c.count(run.mode ? "runs_through_CommandLineTestRunner" : "runs_direct_registry");
    if (!run.filters.empty()) {
        c.count("runs_filtered");
        for (const FilterSpec& f : run.filters) c.count(std::string("filters_") + (f.on_group ? "group" : "name") + (f.strict ? "_strict" : "_substring") + (f.invert ? "_excluding" : "_selecting"));
        bool drops_last = false;
        for (const GroupSpec& g : run.groups) {
            size_t nsel = 0; for (TestSpec* t : g.tests) nsel += t->selected;
            c.count(nsel == 0 ? "groups_wholly_filtered_out" : nsel == g.tests.size() ? "groups_wholly_selected_in_filtered_runs" : "groups_partly_filtered");
            if (nsel && !g.tests.back()->selected) { c.count("groups_whose_last_test_is_filtered_out_after_a_selected_one"); drops_last = true; }
            if (nsel && !g.tests.front()->selected) c.count("groups_whose_first_test_is_filtered_out_before_a_selected_one");
        }
        if (drops_last) c.count("runs_filter_drops_last_test_of_a_group_that_ran");
    }
    for (const GroupSpec& g : run.groups) if (!g.name[0]) c.count("groups_with_empty_name");
    for (TestSpec* t : order) if (!t->name[0]) c.count("tests_with_empty_name");
    if (run.sep_process) {
        c.count("runs_in_separate_processes");
        for (TestSpec* t : order) {
            uint64_t n = 0;
            for (size_t p = 0; p < run.passes.size(); p++) n += run.runs_in_pass(*t, p);
            if (!n) continue;
            c.count("children_forked", n);
            c.count(!t->failures.empty() ? "children_with_failing_checks" : t->death == 2 ? "children_killed_by_signal" : t->death == 1 ? (t->death_arg ? "children_exit_nonzero" : "children_exit_zero_early") : "children_passing", n);
            if (t->fails_in_child()) c.count("parent_side_failures_expected", n);
        }
    }
    // the run-ignored dimension: which IGNORE_TESTs were skipped and which executed, in which pass over their shell
    {
        bool any_ri = false;
        for (bool ri : run.passes) any_ri |= ri;
        if (any_ri) c.count(run.mode ? "runs_with_run_ignored_through_runner_option_ri" : "runs_with_run_ignored_through_TestRegistry_setRunIgnored");
        if (any_ri) c.count("runs_with_run_ignored");
        if (run.passes.size() > 1) c.count(run.mode ? "runs_repeated_by_runner" : run.passes.size() == 2 ? "runs_with_two_passes_direct_registry" : "runs_with_three_passes_direct_registry");
        if (run.passes.size() > 1 && run.passes.back() && !run.passes[0]) c.count("runs_with_run_ignored_switched_on_between_two_passes");
        if (run.passes.size() > 1 && run.passes[0]) c.count("runs_with_run_ignored_in_all_passes");
        if (run.tiny) c.count("runs_with_a_single_test");
        if (run.tiny && run.passes.size() > 1) c.count("runs_with_a_single_test_and_several_passes");
        if (run.renames) {
            c.count("runs_with_tests_renamed_between_passes");
            for (TestSpec* t : order)
                for (size_t p = 1; p < run.passes.size(); p++) if (t->names[p] != t->names[p - 1]) {
                    c.count("tests_renamed_between_passes");
                    if (order.size() == 1) c.count("tests_renamed_and_started_next_after_their_own_previous_start");
                }
        }
        if (run.shell_flags) c.count("runs_with_setRunIgnored_on_single_shells");
        if (any_ri && run.sep_process) c.count("runs_with_run_ignored_in_separate_processes");
        if (any_ri && !run.filters.empty()) c.count("runs_with_run_ignored_and_filters");
        for (TestSpec* t : order) {
            if (!t->ignored || !t->selected) continue;
            int execs = 0;
            for (size_t p = 0; p < run.passes.size(); p++) {
                if (!run.runs_in_pass(*t, p)) { c.count("ignore_test_passes_skipped"); continue; }
                bool fails = run.sep_process ? t->fails_in_child() : !t->failures.empty();
                c.count(execs ? "ignore_test_passes_executed_again" : p ? "ignore_test_passes_executed_first_time_in_a_later_pass" : "ignore_test_passes_executed_first_time_in_first_pass");
                c.count(fails ? "ignore_test_passes_executed_failing" : "ignore_test_passes_executed_passing");
                if (t->flagged && !run.passes[p]) c.count("ignore_test_passes_executed_because_of_the_shell_flag");
                execs++;
            }
        }
        for (TestSpec* t : order) if (!t->ignored && t->flagged) c.count("ordinary_tests_with_setRunIgnored");
    }
#ifdef VF_JUNIT
    c.count("xml_files_captured", g_files.size());
    if (markup && failing && ignored) c.nontrivial(sig);
#else
    c.count("stream_bytes", g_console.size());
    if (special_tc && outside) c.nontrivial(sig);
#endif
    for (UtestShell* sh : shells) delete sh;
    g_specs = nullptr;
}

int main(int argc, char** argv) {
    std::vector<vf::Section> S = {
        { "generated_runs", 3000, 80000, sec_runs, false },
    };
    return vf::harness_main(argc, argv, S);
}
