// C06 — memory misuse is reported exactly: overruns, foreign frees, mismatched families.
//
// Oracle: the decision table of the statement, evaluated by a small model of "which addresses are
// outstanding, who allocated them, were the three bytes after the user bytes changed":
//     NULL                                           -> no callback
//     address is not the start of an outstanding block -> "Deallocating non-allocated memory"
//     outstanding, checking on, family differs        -> "Allocation/deallocation type mismatch"
//     else some guard byte differs from its value right after allocation -> "Memory corruption"
//     else                                            -> no callback
// plus: user bytes seen by the underlying allocator's free_memory are overwritten when the release came
// through operator delete / delete[] / cpputest_free.
//
// Every case is a small *scenario* (list of operations) executed against a fresh private
// MemoryLeakDetector with a recording MemoryLeakFailure, either by calling the detector directly
// ("private" mode: free choice of node layout, allocator objects and wrapper allocators) or through the
// global operator new/delete/new[]/delete[] and cpputest_malloc/free/realloc entry points with the private
// detector installed as the global one ("global" mode: the property's own words; poison is observable).
//
// While the private detector is installed (the "window") the harness performs no C++ heap allocation of
// its own: results go to pre-sized PODs and are judged after the window is closed.
#include "verif.h"
#include <new>
#include <climits>
#include <cctype>
#include <csetjmp>

static inline void* raw_malloc(size_t n) { return malloc(n); }
static inline void raw_free(void* p) { free(p); }
static inline void* raw_realloc(void* p, size_t n) { return realloc(p, n); }

#include "CppUTest/TestHarness.h"
#include "CppUTest/TestHarness_c.h"
#include "CppUTest/MemoryLeakDetector.h"
#include "CppUTest/TestMemoryAllocator.h"
#include "CppUTest/MemoryLeakWarningPlugin.h"
#include "CppUTest/SimpleStringInternalCache.h"
#include "CppUTest/PlatformSpecificFunctions.h"
#include "CppUTest/TestTestingFixture.h"
#include "CppUTestExt/MemoryReportAllocator.h"
#ifdef new
#undef new
#endif
#ifdef malloc
#undef malloc
#undef calloc
#undef realloc
#undef free
#endif
#ifdef strdup
#undef strdup
#undef strndup
#endif

// ---------------------------------------------------------------- vocabulary
enum { F_NEW, F_ARR, F_MAL, F_POOL, NFAM };
static const char* FAM_NAME[NFAM] = { "new", "new[]", "malloc", "pool" };
static const char* REL_NAME[NFAM] = { "delete", "delete[]", "free", "pool_put" };
static const char* STD_NAME[NFAM] = { "Standard New Allocator", "Standard New [] Allocator", "Standard Malloc Allocator", "Verif Pool Allocator" };
static const char* ALLOC_NAME[NFAM] = { "new", "new []", "malloc", "pool_get" };
static const char* FREE_NAME[NFAM] = { "delete", "delete []", "free", "pool_put" };
static char TWIN_NAME[NFAM][40];   // same text, different storage (a name comparison by pointer must not pass)

enum { K_REC, K_TWIN, K_DEFAULT, K_FWRAP, K_ACCT, K_REPORT, K_NESTED, K_MLA, K_CACHE, NKIND };
static const char* KIND_NAME[NKIND] = { "rec", "twin", "default", "foreignwrap", "accounting", "report", "nested", "leakalloc", "stringcache" };

enum Cat { C_NONE, C_NONALLOC, C_MISMATCH, C_CORRUPT, C_OTHER };
static const char* CAT_NAME[] = { "none", "non-allocated", "mismatch", "corruption", "unrecognized" };

enum { OP_ALLOC, OP_WRITE, OP_RELEASE, OP_CHECKING, OP_PERIOD, OP_SETCUR };
enum { W_USER, W_GUARD, W_PAD, W_FILL };
enum { A_BLOCK, A_NULL, A_STACK, A_STATIC, A_HEAPRAW, A_OTHERDET, A_INT1, A_INT73, A_MAXPTR, A_NODE, NADDR };
static const char* ADDR_NAME[NADDR] = { "block", "null", "stack", "static", "rawheap", "other-detector", "int1", "int73", "maxptr", "node" };
enum { V_FLIP1 = 256, V_INV = 257, V_FLIP80 = 258, V_ORIG = 259 };   // write values relative to the byte that is there

// global-mode entry points
static const int N_AENTRY[3] = { 4, 4, 6 };
static const char* AENTRY_NAME[3][6] = { { "new", "new(file,size_t)", "new(file,int)", "new(nothrow)" },
                                         { "new[]", "new[](file,size_t)", "new[](file,int)", "new[](nothrow)" },
                                         { "cpputest_malloc", "cpputest_malloc_location", "cpputest_calloc", "cpputest_realloc(NULL)", "cpputest_strdup", "malloc_with_leak_detection" } };
static const int N_RENTRY[3] = { 5, 5, 3 };
static const char* RENTRY_NAME[3][5] = { { "delete", "delete(sized)", "delete(file,int)", "delete(file,size_t)", "delete(nothrow)" },
                                         { "delete[]", "delete[](sized)", "delete[](file,int)", "delete[](file,size_t)", "delete[](nothrow)" },
                                         { "cpputest_free", "cpputest_free_location", "free_with_leak_detection" } };

// ---------------------------------------------------------------- recording table of the underlying allocator
struct RecBlk { char* base; size_t size; bool node; bool freed; bool really_freed; };
enum { TABMAX = 8192, SNAPMAX = 8192 };
static RecBlk g_tab[TABMAX];
static int g_ntab = 0;
static bool g_window = false, g_expect_alloc = false;
static int g_stray = 0, g_unknown_free = 0, g_tab_overflow = 0;

static int tab_find(const void* p) {
    for (int i = g_ntab - 1; i >= 0; i--) if (g_tab[i].base == p && !g_tab[i].really_freed) return i;
    return -1;
}
static void tab_reset() { g_ntab = 0; g_stray = 0; g_unknown_free = 0; g_tab_overflow = 0; }
static void tab_release_all() {
    for (int i = 0; i < g_ntab; i++) if (!g_tab[i].really_freed) { g_tab[i].really_freed = true; raw_free(g_tab[i].base); }
    g_ntab = 0;
}

// bytes that no sane poison constant equals: printable ASCII without 'U' (0x55) and 'Z' (0x5A)
static bool safe_byte(unsigned char b) { return b >= 0x21 && b <= 0x7e && b != 'U' && b != 'Z'; }
static unsigned char SAFE[96]; static int NSAFE = 0;
static unsigned char pat(unsigned seed, size_t i) { return SAFE[(seed * 31u + (unsigned) i * 7u + (unsigned) (i >> 3)) % (unsigned) NSAFE]; }

struct Watch { bool active; char* ptr; size_t size; int hits; size_t checked, surv, first_surv, last_surv, cd; };
static Watch g_w;
static unsigned char g_snap[SNAPMAX];

static void watch_inspect(const char* mem) {
    g_w.hits++;
    if (g_w.hits > 1) return;
    size_t n = g_w.size < SNAPMAX ? g_w.size : SNAPMAX;
    for (size_t i = 0; i < n; i++) {
        unsigned char now = (unsigned char) mem[i];
        if (now == 0xCD) g_w.cd++;
        if (!safe_byte(g_snap[i])) continue;           // the harness wrote a non-pattern value there: not judgeable
        g_w.checked++;
        if (now == g_snap[i]) { if (!g_w.surv) g_w.first_surv = i; g_w.last_surv = i; g_w.surv++; }
    }
}

class RecAlloc : public TestMemoryAllocator {
public:
    RecAlloc(int f, const char* name) : TestMemoryAllocator(name, ALLOC_NAME[f], FREE_NAME[f]) {}
    char* alloc_memory(size_t size, const char* file, size_t) override {
        bool node = file && strcmp(file, "MemoryLeakNode") == 0;
        if (g_window && !g_expect_alloc) g_stray++;
        char* m = (char*) raw_malloc(size);
        if (m) { if (g_ntab < TABMAX) { RecBlk b = { m, size, node, false, false }; g_tab[g_ntab++] = b; } else g_tab_overflow++; }
        return m;
    }
    void free_memory(char* memory, size_t, const char*, size_t) override {
        if (g_w.active && memory == g_w.ptr) watch_inspect(memory);
        int i = tab_find(memory);
        if (i < 0 || g_tab[i].freed) { g_unknown_free++; return; }   // never hand a pointer we do not own to libc
        g_tab[i].freed = true;                                        // real free is deferred to the end of the case (no address reuse)
    }
};

static void* (*orig_realloc)(void*, size_t);
static void (*orig_free)(void*);
static bool g_fail_realloc_once = false;     // fault injection: the next platform realloc returns NULL (the block must stay valid, tracked and unreported)
static uint64_t g_realloc_failures_injected = 0;
static void* seam_realloc(void* mem, size_t n) {
    if (g_fail_realloc_once) { g_fail_realloc_once = false; g_realloc_failures_injected++; return nullptr; }
    int i = (mem && g_ntab) ? tab_find(mem) : -1;
    void* np = raw_realloc(mem, n);
    if (np && i >= 0) { g_tab[i].base = (char*) np; g_tab[i].size = n; }
    return np;
}
static void seam_free(void* p) {
    if (p && g_ntab) { int i = tab_find(p); if (i >= 0) g_tab[i].really_freed = true; }
    raw_free(p);
}

// a user-written wrapper with a name cpputest has never heard of
class ForeignWrap : public TestMemoryAllocator {
    TestMemoryAllocator* o_;
public:
    explicit ForeignWrap(TestMemoryAllocator* o) : TestMemoryAllocator("Verif Foreign Wrapper", "wrap_alloc", "wrap_free"), o_(o) {}
    char* alloc_memory(size_t s, const char* f, size_t l) override { return o_->alloc_memory(s, f, l); }
    void free_memory(char* m, size_t s, const char* f, size_t l) override { o_->free_memory(m, s, f, l); }
    const char* alloc_name() const override { return o_->alloc_name(); }
    const char* free_name() const override { return o_->free_name(); }
    TestMemoryAllocator* actualAllocator() override { return o_->actualAllocator(); }
};

static RecAlloc* g_rec[NFAM]; static RecAlloc* g_twin[NFAM];

struct FamWraps {
    ForeignWrap fw;
    MemoryAccountant acct_; AccountingTestMemoryAllocator acct;
    MemoryReportAllocator rep;
    ForeignWrap nfw; MemoryReportAllocator nrep; MemoryAccountant nacct_; AccountingTestMemoryAllocator nacct;
    MemoryLeakAllocator mla;
    SimpleStringInternalCache cache_; SimpleStringCacheAllocator cache;
    FamWraps(int f) : fw(g_rec[f]), acct(acct_, g_rec[f]), nfw(g_twin[f]), nacct(nacct_, &nrep), mla(g_rec[f]), cache(cache_, g_rec[f]) {
        rep.setRealAllocator(g_rec[f]);
        nrep.setRealAllocator(&nfw);
    }
};
struct WrapSet { FamWraps f0, f1, f2, f3; WrapSet() : f0(0), f1(1), f2(2), f3(3) {} FamWraps& of(int f) { return f == 0 ? f0 : f == 1 ? f1 : f == 2 ? f2 : f3; } };
alignas(16) static char g_wrapbuf[sizeof(WrapSet)];

static TestMemoryAllocator* alloc_of(WrapSet* ws, int fam, int kind) {
    switch (kind) {
    case K_REC: return g_rec[fam];
    case K_TWIN: return g_twin[fam];
    case K_DEFAULT: return fam == F_NEW ? defaultNewAllocator() : fam == F_ARR ? defaultNewArrayAllocator() : fam == F_MAL ? defaultMallocAllocator() : (TestMemoryAllocator*) g_twin[fam];
    default: break;
    }
    if (!ws) return g_rec[fam];
    FamWraps& w = ws->of(fam);
    switch (kind) {
    case K_FWRAP: return &w.fw;
    case K_ACCT: return &w.acct;
    case K_REPORT: return &w.rep;
    case K_NESTED: return &w.nacct;
    case K_MLA: return &w.mla;
    case K_CACHE: return &w.cache;
    }
    return g_rec[fam];
}

// ---------------------------------------------------------------- recorder
static int classify(const char* line) {
    char l[96]; size_t i = 0;
    for (; line[i] && i < sizeof l - 1; i++) l[i] = (char) tolower((unsigned char) line[i]);
    l[i] = 0;
    if (strncmp(l, "deallocating non-allocated memory", 33) == 0) return C_NONALLOC;
    if (strncmp(l, "allocation/deallocation type mismatch", 37) == 0) return C_MISMATCH;
    if (strncmp(l, "memory corruption", 17) == 0) return C_CORRUPT;
    return C_OTHER;
}

// How the failure callback leaves the detector. A recording reporter that simply returns is the exception in real use: the
// reporter cpputest installs (MemoryLeakWarningReporter -> UtestShell::failWith with the terminator "without exceptions")
// never returns, it long-jumps back into the test runner; a user-supplied MemoryLeakFailure may just as well throw.
// The statement quantifies over histories, so "an earlier report left the detector non-locally" is a history shape:
//   returns        the callback returns (everything before this dimension existed)
//   longjmp        the callback records and long-jumps to a setjmp taken around the one release operation
//   throws         the callback records and throws a C++ exception caught around the one release operation (private mode only:
//                  the global operator delete overloads are noexcept; builds with exceptions only)
//   real-reporter  the callback records and forwards to cpputest's own reporter while the release runs inside a test of a
//                  TestTestingFixture (private mode only)
enum { X_RETURN, X_LONGJMP, X_THROW, X_REAL, NEXIT };
static const char* EXIT_NAME[NEXIT] = { "returns", "longjmp", "throws", "real-reporter" };
static jmp_buf g_jb; static bool g_jb_armed = false, g_in_fixture_test = false;
static MemoryLeakFailure* g_real_reporter = nullptr;
struct LeaveByThrow { int dummy; };

struct Recorder : public MemoryLeakFailure {
    int calls = 0, op_calls = 0; size_t consumed = 0; int first_cat = C_NONE; char first_line[80];
    int exitmode = X_RETURN, left = 0, real_returned = 0;
    Recorder() { first_line[0] = 0; }
    void begin_op() { op_calls = 0; first_cat = C_NONE; first_line[0] = 0; }
    void fail(char* s) override {
        calls++; op_calls++;
        size_t len = strlen(s);
        const char* st = s + (consumed <= len ? consumed : 0);
        if (op_calls == 1) {
            size_t i = 0;
            for (; st[i] && st[i] != '\n' && i < sizeof first_line - 1; i++) first_line[i] = st[i];
            first_line[i] = 0;
            first_cat = classify(first_line);
        }
        consumed = len;
        switch (exitmode) {
        case X_LONGJMP: if (g_jb_armed) { left++; g_jb_armed = false; longjmp(g_jb, 1); } break;
#ifndef VF_NOEXC
        case X_THROW: if (g_jb_armed) { left++; g_jb_armed = false; throw LeaveByThrow(); } break;
#endif
        case X_REAL: if (g_in_fixture_test && g_real_reporter) { left++; g_real_reporter->fail(s); left--; real_returned++; } break;
        default: break;
        }
    }
};
static void (*g_guarded_fn)() = nullptr;
__attribute__((noinline)) static void run_leaving_by_longjmp() {
    if (setjmp(g_jb) == 0) { g_jb_armed = true; g_guarded_fn(); }
    g_jb_armed = false;
}
static void run_catching() {
#ifndef VF_NOEXC
    g_jb_armed = true;
    try { g_guarded_fn(); } catch (const LeaveByThrow&) {}
    g_jb_armed = false;
#else
    g_guarded_fn();
#endif
}
static TestTestingFixture* g_fixture = nullptr;
static void run_in_fixture_test() {
    if (!g_fixture) { g_guarded_fn(); return; }
    g_in_fixture_test = true;
    g_fixture->setTestFunction(g_guarded_fn);
    g_fixture->runAllTests();
    g_in_fixture_test = false;
}

// ---------------------------------------------------------------- scenario
struct Op {
    uint8_t k = 0; int16_t blk = 0; uint8_t fam = 0, rep = 0, sep = 0, addr = A_BLOCK, wkind = 0, realloc_ = 0, noise = 0, flag = 0;
    int32_t off = 0; int16_t val = 0; uint32_t size = 0;
};
struct Scen {
    bool global = false, ts = false, wraps = false, chk0 = true;
    int exitmode = X_RETURN;      // how the failure callback leaves (effective only without the thread-safe overloads; global mode: returns / longjmp)
    int nslots = 0;
    std::vector<Op> ops;
};
static Op opAlloc(int blk, int fam, int rep, size_t size, bool sep, bool noise = false) { Op o; o.k = OP_ALLOC; o.blk = (int16_t) blk; o.fam = (uint8_t) fam; o.rep = (uint8_t) rep; o.size = (uint32_t) size; o.sep = sep; o.noise = noise; return o; }
static Op opWrite(int blk, int wkind, long off, int val) { Op o; o.k = OP_WRITE; o.blk = (int16_t) blk; o.wkind = (uint8_t) wkind; o.off = (int32_t) off; o.val = (int16_t) val; return o; }
static Op opRelease(int blk, int fam, int rep, int addr = A_BLOCK, long off = 0) { Op o; o.k = OP_RELEASE; o.blk = (int16_t) blk; o.fam = (uint8_t) fam; o.rep = (uint8_t) rep; o.addr = (uint8_t) addr; o.off = (int32_t) off; return o; }
static Op opRealloc(int blk, int fam, int rep, size_t newsize, int addr = A_BLOCK, long off = 0) { Op o = opRelease(blk, fam, rep, addr, off); o.realloc_ = 1; o.size = (uint32_t) newsize; return o; }
static Op opChk(bool on) { Op o; o.k = OP_CHECKING; o.flag = on; return o; }
static Op opPeriod(int which) { Op o; o.k = OP_PERIOD; o.flag = (uint8_t) which; return o; }
static Op opSetCur(int fam, int kind) { Op o; o.k = OP_SETCUR; o.fam = (uint8_t) fam; o.rep = (uint8_t) kind; return o; }
enum { OFF_NODE = 1 << 30 };

struct Blk { char* p = nullptr; size_t size = 0; int fam = 0, kind = 0; bool sep = false, out = false, ever = false, knownS = false; size_t S = 0; unsigned char g0[3] = { 0, 0, 0 }; unsigned seed = 0; };

struct Res {
    bool done = false, skipped = false, cleanup = false, via_realloc = false, chk = false, famdiff = false, bucket_shared = false;
    bool poison_applicable = false, left = false;
    int prior_left = 0;
    uint8_t exp = 0, got = 0, addrcls = 0, gcls = 0, famA = 0, famR = 0, kindA = 0, kindR = 0, via = 0, sep = 0;
    int calls = 0, live = 0, hits = 0, unknown_free = 0, opidx = -1;
    size_t size = 0; long off = 0;
    size_t checked = 0, surv = 0, first_surv = 0, last_surv = 0, cd = 0;
    unsigned char gnow[3] = { 0, 0, 0 }, gorig[3] = { 0, 0, 0 };
    char line[80];
    Res() { line[0] = 0; }
};
enum { AC_LIVE, AC_INTERIOR, AC_GUARDADDR, AC_PAST, AC_BEFORE, AC_STALE, AC_STALE_NEAR, AC_NULL, AC_FOREIGN };
static const char* AC_NAME[] = { "live", "interior", "guard-address", "past-end", "before", "stale", "stale-near", "null", "foreign" };
static const char* GC_NAME[] = { "intact", "b0", "b1", "b0+b1", "b2", "b0+b2", "b1+b2", "b0+b1+b2", "n/a" };

struct Stat {   // per case, POD
    uint64_t allocs = 0, writes_user = 0, writes_guard = 0, writes_guard_same = 0, writes_pad = 0, fills = 0, skipped_ops = 0, alloc_failed = 0, guard_is_BAS = 0, guard_not_BAS = 0, setcur = 0, period_ops = 0, chk_toggles = 0, reallocs_moved = 0, skipped_crosslayout = 0, forgotten = 0, cache_padding_defined = 0;
};

static char g_static_target[64];
static const char* FILE_A = "c06_alloc.cpp";
static const char* FILE_F = "c06_free.cpp";
static char g_strsrc[SNAPMAX + 8];

static void* global_alloc(int fam, int var, size_t size, int blk) {
    size_t line = 1000 + (size_t) blk;
    switch (fam) {
    case F_NEW:
        switch (var % 4) { case 0: return ::operator new(size); case 1: return ::operator new(size, FILE_A, line); case 2: return ::operator new(size, FILE_A, (int) line); default: return ::operator new(size, std::nothrow); }
    case F_ARR:
        switch (var % 4) { case 0: return ::operator new[](size); case 1: return ::operator new[](size, FILE_A, line); case 2: return ::operator new[](size, FILE_A, (int) line); default: return ::operator new[](size, std::nothrow); }
    default:
        switch (var % 6) {
        case 0: return cpputest_malloc(size);
        case 1: return cpputest_malloc_location(size, FILE_A, line);
        case 2: return (size & 1) ? cpputest_calloc(size, 1) : cpputest_calloc_location(1, size, FILE_A, line);
        case 3: return cpputest_realloc(nullptr, size);
        case 4:
            if (size >= 1 && size <= SNAPMAX) { g_strsrc[size - 1] = 0; char* r = cpputest_strdup_location(g_strsrc, FILE_A, line); g_strsrc[size - 1] = 'x'; return r; }
            return cpputest_malloc(size);
        default: return cpputest_malloc_location_with_leak_detection(size, FILE_A, line);
        }
    }
}
static void global_release(int fam, int var, void* a, size_t size_hint) {
    switch (fam) {
    case F_NEW:
        switch (var % 5) { case 0: ::operator delete(a); break; case 1: ::operator delete(a, size_hint); break; case 2: ::operator delete(a, FILE_F, (int) 7); break; case 3: ::operator delete(a, FILE_F, (size_t) 7); break; default: ::operator delete(a, std::nothrow); }
        break;
    case F_ARR:
        switch (var % 5) { case 0: ::operator delete[](a); break; case 1: ::operator delete[](a, size_hint); break; case 2: ::operator delete[](a, FILE_F, (int) 7); break; case 3: ::operator delete[](a, FILE_F, (size_t) 7); break; default: ::operator delete[](a, std::nothrow); }
        break;
    default:
        switch (var % 3) { case 0: cpputest_free(a); break; case 1: cpputest_free_location(a, FILE_F, 7); break; default: cpputest_free_location_with_leak_detection(a, FILE_F, 7); }
    }
}

static bool kind_reallocable(int k) { return k != K_MLA && k != K_CACHE; }

// ---------------------------------------------------------------- executor (everything between open and close is the window)
struct Exec {
    const Scen& s; MemoryLeakDetector& det; MemoryLeakDetector* det2; Recorder& rec; WrapSet* ws;
    Blk* blk; int nblk; Res* res; int nres; int rcount = 0; Stat st;
    bool chk; int period = 0; int cur_kind[3] = { K_REC, K_REC, K_REC };
    char* otherdet = nullptr; char* rawheap = nullptr;
    char stackbuf[64];

    Exec(const Scen& sc, MemoryLeakDetector& d, MemoryLeakDetector* d2, Recorder& r, WrapSet* w, Blk* b, int nb, Res* rs, int nr) : s(sc), det(d), det2(d2), rec(r), ws(w), blk(b), nblk(nb), res(rs), nres(nr), chk(sc.chk0) {}

    void set_current(int fam, int kind) {
        TestMemoryAllocator* a = alloc_of(ws, fam, kind);
        if (fam == F_NEW) setCurrentNewAllocator(a); else if (fam == F_ARR) setCurrentNewArrayAllocator(a); else setCurrentMallocAllocator(a);
        cur_kind[fam] = kind;
    }
    void apply_period() { if (period == 0) det.disable(); else if (period == 1) det.enable(); else { det.startChecking(); rec.consumed = 0; } }

    void open() {
        g_window = true;
        if (s.global) MemoryLeakWarningPlugin::setGlobalDetector(&det, &rec); else if (det2) MemoryLeakWarningPlugin::setGlobalDetector(det2, nullptr);
        if (s.global) {
            for (int f = 0; f < 3; f++) set_current(f, K_REC);
            if (s.ts) MemoryLeakWarningPlugin::turnOnThreadSafeNewDeleteOverloads(); else MemoryLeakWarningPlugin::turnOnDefaultNotThreadSafeNewDeleteOverloads();
        }
        if (chk) det.enableAllocationTypeChecking(); else det.disableAllocationTypeChecking();
    }
    void close(MemoryLeakDetector* g0, MemoryLeakFailure* r0) {
        if (s.global) {
            MemoryLeakWarningPlugin::turnOffNewDeleteOverloads();
            setCurrentNewAllocatorToDefault(); setCurrentNewArrayAllocatorToDefault(); setCurrentMallocAllocatorToDefault();
        }
        MemoryLeakWarningPlugin::setGlobalDetector(g0, r0);
        g_window = false;
    }

    void after_alloc(Blk& b) {
        int ti = tab_find(b.p);
        b.knownS = ti >= 0 && (b.kind == K_REC || b.kind == K_TWIN || b.kind == K_FWRAP || b.kind == K_REPORT);
        b.S = ti >= 0 ? g_tab[ti].size : 0;
        for (size_t i = 0; i < b.size; i++) b.p[i] = (char) pat(b.seed, i);
        // String-cache blocks: SimpleStringInternalCache's once-only "deallocating unknown memory" warning formats the released buffer with %s, i.e. it walks
        // over user bytes, guard and the alignment padding nobody ever wrote, up to the first zero byte of the bookkeeping record. The harness gives the padding
        // a defined value so that the monitors' own workload puts no uninitialised bytes into cpputest's output path (memcheck variant); padding is not guard.
        if (b.kind == K_CACHE && ti >= 0 && !b.sep && b.S >= b.size + 3 + sizeof(MemoryLeakDetectorNode)) {
            size_t n = b.S - sizeof(MemoryLeakDetectorNode) - (b.size + 3);
            memset(b.p + b.size + 3, '_', n); st.cache_padding_defined++;
        }
        for (int i = 0; i < 3; i++) b.g0[i] = (unsigned char) b.p[b.size + (size_t) i];
        if (b.g0[0] == 'B' && b.g0[1] == 'A' && b.g0[2] == 'S') st.guard_is_BAS++; else st.guard_not_BAS++;
    }
    long padlen(const Blk& b) {
        if (!b.knownS) return 0;
        long n = (long) b.S - (long) (b.size + 3) - (b.sep ? 0 : (long) sizeof(MemoryLeakDetectorNode));
        return n > 0 ? n : 0;
    }

    void do_alloc(const Op& o) {
        if (o.blk < 0 || o.blk >= nblk || blk[o.blk].out) { st.skipped_ops++; return; }
        Blk& b = blk[o.blk];
        int fam = o.fam, kind = s.global ? cur_kind[o.fam % 3] : o.rep;
        bool sep = s.global ? (o.fam == F_MAL) : (o.sep != 0);
        if (s.global && fam > F_MAL) { st.skipped_ops++; return; }
        if (!s.global) {
            if ((kind >= K_FWRAP && !ws) || (kind == K_DEFAULT && fam == F_POOL)) { st.skipped_ops++; return; }
            if (kind == K_CACHE && (sep || o.size <= 256)) { st.skipped_ops++; return; }
        }
        g_expect_alloc = true;
        char* p = s.global ? (char*) global_alloc(fam, o.rep, o.size, o.blk) : det.allocMemory(alloc_of(ws, fam, kind), o.size, FILE_A, 1000 + (size_t) o.blk, sep);
        g_expect_alloc = false;
        if (!p) { st.alloc_failed++; return; }
        b = Blk(); b.p = p; b.size = o.size; b.fam = fam; b.kind = kind; b.sep = sep; b.out = true; b.ever = true; b.seed = (unsigned) (o.blk * 131 + (int) o.size * 7 + 3);
        after_alloc(b);
        st.allocs++;
    }

    void do_write(const Op& o) {
        if (o.blk < 0 || o.blk >= nblk || !blk[o.blk].out) { st.skipped_ops++; return; }
        Blk& b = blk[o.blk];
        char* at = nullptr;
        switch (o.wkind) {
        case W_USER: if (b.size == 0) { st.skipped_ops++; return; } at = b.p + ((size_t) o.off % b.size); break;
        case W_GUARD: at = b.p + b.size + ((size_t) o.off % 3); break;
        case W_PAD: { long n = padlen(b); if (n <= 0) { st.skipped_ops++; return; } at = b.p + b.size + 3 + (o.off % n); break; }
        case W_FILL: memset(b.p, o.val & 0xff, b.size); st.fills++; return;
        }
        unsigned char was = (unsigned char) *at, v;
        switch (o.val) { case V_FLIP1: v = was ^ 1; break; case V_INV: v = (unsigned char) ~was; break; case V_FLIP80: v = was ^ 0x80; break; case V_ORIG: v = was; break; default: v = (unsigned char) o.val; }
        *at = (char) v;
        if (o.wkind == W_USER) st.writes_user++; else if (o.wkind == W_PAD) st.writes_pad++; else { st.writes_guard++; if (v == was) st.writes_guard_same++; }
    }

    char* resolve(const Op& o, const Blk* b) {
        switch (o.addr) {
        case A_NULL: return nullptr;
        case A_STACK: return stackbuf + 8;
        case A_STATIC: return g_static_target + 8;
        case A_HEAPRAW: return rawheap;
        case A_OTHERDET: return otherdet;
        case A_INT1: return (char*) (uintptr_t) 1;
        case A_INT73: return (char*) (uintptr_t) 73;
        case A_MAXPTR: return (char*) UINTPTR_MAX;
        case A_NODE:   // the detector's own bookkeeping node: inside the block (inline layout) or a block of its own (separate layout)
            if (!b || !b->ever) return nullptr;
            if (b->sep) { for (int i = g_ntab - 1; i >= 0; i--) if (g_tab[i].node && !g_tab[i].freed && !g_tab[i].really_freed) return g_tab[i].base; return nullptr; }
            if (!b->knownS) return nullptr;
            return b->p + (b->S - sizeof(MemoryLeakDetectorNode));
        default: if (!b || !b->ever) return nullptr; return b->p + o.off;
        }
    }

    void do_release(const Op& o, bool cleanup, int opidx) {
        if (rcount >= nres) { st.skipped_ops++; return; }
        const Blk* ref = (o.blk >= 0 && o.blk < nblk) ? &blk[o.blk] : nullptr;
        if ((o.addr == A_BLOCK || o.addr == A_NODE) && (!ref || !ref->ever)) { st.skipped_ops++; return; }
        char* a = resolve(o, ref);
        if (o.addr == A_NODE && a == nullptr) { st.skipped_ops++; return; }
        if (o.realloc_ && a == nullptr) { st.skipped_ops++; return; }          // realloc(NULL) is an allocation, not a release
        // which outstanding block (if any) starts at this address?
        Blk* mb = nullptr; int live = 0;
        for (int i = 0; i < nblk; i++) if (blk[i].out) { live++; if (blk[i].p == a) mb = &blk[i]; }
        int famR = o.fam, kindR = s.global ? cur_kind[o.fam % 3] : o.rep;
        if (s.global && famR > F_MAL) { st.skipped_ops++; return; }
        if (!s.global) {
            if ((kindR >= K_FWRAP && !ws) || (kindR == K_DEFAULT && famR == F_POOL)) { st.skipped_ops++; return; }
            // memory that flows through a second detector / the string cache must come back the same way
            bool needM = mb && mb->kind == K_MLA, needC = mb && mb->kind == K_CACHE;
            if ((kindR == K_MLA) != needM || (kindR == K_CACHE) != needC) { st.skipped_ops++; return; }
            if (o.realloc_ && mb && (!kind_reallocable(mb->kind) || !kind_reallocable(kindR))) { st.skipped_ops++; return; }
            if (o.realloc_ && !kind_reallocable(kindR)) { st.skipped_ops++; return; }
        }
        // Through the global entry points a block with an inline node (new / new[]) that is released through the malloc-family
        // path is released with the other node-layout flag; when no report is due the detector then hands the *inline* node to
        // the releasing allocator's free_memory. The recording allocators ignore that pointer; cpputest's own default allocator
        // would pass it to free(). DESIGN.md section 5 lists the layout flag as a caller obligation, so that one combination
        // (no report due, releasing allocator = cpputest default malloc allocator) is not driven.
        if (s.global && mb && !mb->sep && famR == F_MAL && kindR == K_DEFAULT && !(chk && mb->fam != famR)) {
            bool changed = false;
            for (int i = 0; i < 3; i++) if ((unsigned char) mb->p[mb->size + (size_t) i] != mb->g0[i]) changed = true;
            if (!changed) { st.skipped_ops++; st.skipped_crosslayout++; return; }
        }
        Res& r = res[rcount++];
        r = Res(); r.done = true; r.cleanup = cleanup; r.opidx = opidx; r.via_realloc = o.realloc_ != 0; r.chk = chk; r.famR = (uint8_t) famR; r.kindR = (uint8_t) kindR; r.via = o.rep; r.live = live; r.off = o.off; r.gcls = 8;
        // address class
        if (a == nullptr) r.addrcls = AC_NULL;
        else if (o.addr == A_BLOCK || (o.addr == A_NODE && !ref->sep)) {
            long off = (long) (a - ref->p);
            if (ref->out) r.addrcls = off == 0 ? AC_LIVE : off < 0 ? AC_BEFORE : off < (long) ref->size ? AC_INTERIOR : off < (long) ref->size + 3 ? AC_GUARDADDR : AC_PAST;
            else r.addrcls = off == 0 ? AC_STALE : AC_STALE_NEAR;
            r.size = ref->size;
        } else r.addrcls = AC_FOREIGN;
        // expectation (the decision table of the statement)
        bool sepflag = mb ? mb->sep : (ref ? ref->sep : false);
        if (a == nullptr) r.exp = C_NONE;
        else if (!mb) r.exp = C_NONALLOC;
        else {
            r.addrcls = AC_LIVE; r.size = mb->size; r.famA = (uint8_t) mb->fam; r.kindA = (uint8_t) mb->kind; r.sep = mb->sep;
            int g = 0;
            for (int i = 0; i < 3; i++) { r.gnow[i] = (unsigned char) mb->p[mb->size + (size_t) i]; r.gorig[i] = mb->g0[i]; if (r.gnow[i] != r.gorig[i]) g |= 1 << i; }
            r.gcls = (uint8_t) g;
            r.famdiff = mb->fam != famR;
            r.exp = (chk && r.famdiff) ? C_MISMATCH : g ? C_CORRUPT : C_NONE;
            for (int i = 0; i < nblk; i++) if (blk[i].out && &blk[i] != mb && (uintptr_t) blk[i].p % 73 == (uintptr_t) mb->p % 73) r.bucket_shared = true;
        }
        // poison observation
        g_w = Watch();
        if (mb) {
            size_t n = mb->size < SNAPMAX ? mb->size : SNAPMAX;
            memcpy(g_snap, mb->p, n);
            g_w.active = true; g_w.ptr = mb->p; g_w.size = mb->size;
            r.poison_applicable = s.global && !o.realloc_;
        }
        int uf0 = g_unknown_free;
        rec.begin_op();
        if (o.realloc_ && o.flag) g_fail_realloc_once = true;
        // the one release operation, run so that the callback can leave it the way the scenario says
        call_.o = &o; call_.a = a; call_.famR = famR; call_.kindR = kindR; call_.sepflag = sepflag; call_.hint = mb ? mb->size : 0; call_.np = nullptr;
        g_exec = this; g_guarded_fn = &Exec::invoke_current;
        int left0 = rec.left;
        switch (rec.exitmode) {
        case X_LONGJMP: run_leaving_by_longjmp(); break;
        case X_THROW: run_catching(); break;
        case X_REAL: run_in_fixture_test(); break;
        default: invoke_current(); break;
        }
        g_expect_alloc = false;
        char* np = call_.np;
        r.prior_left = left0; r.left = rec.left != left0;
        g_fail_realloc_once = false;
        g_w.active = false;
        r.calls = rec.op_calls; r.got = rec.op_calls ? (uint8_t) rec.first_cat : (uint8_t) C_NONE;
        memcpy(r.line, rec.first_line, sizeof r.line);
        r.hits = g_w.hits; r.checked = g_w.checked; r.surv = g_w.surv; r.first_surv = g_w.first_surv; r.last_surv = g_w.last_surv; r.cd = g_w.cd;
        r.unknown_free = g_unknown_free - uf0;
        // model update
        if (mb) {
            if (o.realloc_) {
                if (np) {
                    if (np != mb->p) st.reallocs_moved++;
                    mb->p = np; mb->size = o.size; mb->fam = famR; mb->kind = kindR; if (s.global) mb->sep = true;
                    mb->seed += 17;
                    after_alloc(*mb);
                } else if (r.left) {
                    // the report of a realloc left the detector before the block was moved or re-registered: what has become of the block is not
                    // stated anywhere, so the scenario does not touch it again (later operations that name it are skipped)
                    mb->out = false; mb->ever = false; st.forgotten++;
                }   // a failed realloc leaves the old block outstanding
            } else mb->out = false;
        }
        if (rec.consumed > 2400) { det.startChecking(); rec.consumed = 0; if (period != 2) apply_period(); }
    }

    struct Call { const Op* o; char* a; int famR, kindR; bool sepflag; size_t hint; char* np; } call_;
    static Exec* g_exec;
    static void invoke_current() { g_exec->invoke(); }
    void invoke() {
        const Op& o = *call_.o; char* a = call_.a;
        if (s.global) {
            if (o.realloc_) { g_expect_alloc = true; call_.np = (char*) cpputest_realloc_location(a, o.size, FILE_F, 7); g_expect_alloc = false; }
            else global_release(call_.famR, o.rep, a, call_.hint);
        } else {
            TestMemoryAllocator* A = alloc_of(ws, call_.famR, call_.kindR);
            if (o.realloc_) { g_expect_alloc = true; call_.np = det.reallocMemory(A, a, o.size, FILE_F, 7, call_.sepflag); g_expect_alloc = false; }
            else det.deallocMemory(A, a, FILE_F, 7, call_.sepflag);
        }
    }

    void run() {
        // foreign targets
        bool need_other = false, need_raw = false;
        for (const Op& o : s.ops) { if (o.k == OP_RELEASE && o.addr == A_OTHERDET) need_other = true; if (o.k == OP_RELEASE && o.addr == A_HEAPRAW) need_raw = true; }
        if (need_other && det2) { g_expect_alloc = true; otherdet = det2->allocMemory(g_rec[F_NEW], 24, FILE_A, 1, false); g_expect_alloc = false; }
        if (need_raw) rawheap = (char*) raw_malloc(32);
        int i = 0;
        for (const Op& o : s.ops) {
            switch (o.k) {
            case OP_ALLOC: do_alloc(o); break;
            case OP_WRITE: do_write(o); break;
            case OP_RELEASE: do_release(o, false, i); break;
            case OP_CHECKING: chk = o.flag != 0; if (chk) det.enableAllocationTypeChecking(); else det.disableAllocationTypeChecking(); st.chk_toggles++; break;
            case OP_PERIOD:
                if (o.flag == 4) { det.stopChecking(); det.startChecking(); rec.consumed = 0; period = 2; st.period_ops++; break; }     // a new checking period
                period = o.flag % 3; apply_period(); if (o.flag == 3) { det.stopChecking(); period = 1; } st.period_ops++; break;
            case OP_SETCUR: if (s.global && o.fam <= F_MAL && o.rep != K_MLA && o.rep != K_CACHE && (o.rep < K_FWRAP || ws)) { set_current(o.fam, o.rep); st.setcur++; } else st.skipped_ops++; break;
            }
            i++;
        }
        // cleanup: every block still outstanding is released the right way (and judged like any other release)
        for (int b = 0; b < nblk; b++) if (blk[b].out) {
            Op o = opRelease(b, blk[b].fam, s.global ? 0 : blk[b].kind);
            if (s.global) { if (cur_kind[blk[b].fam] == K_DEFAULT) set_current(blk[b].fam, K_REC); }
            do_release(o, true, -1);
        }
        if (otherdet) det2->deallocMemory(g_rec[F_NEW], otherdet, FILE_F, 1, false);
        if (rawheap) raw_free(rawheap);
    }
};

Exec* Exec::g_exec = nullptr;

// ---------------------------------------------------------------- description / judging (outside the window)
static std::string hx(int v) { char b[8]; snprintf(b, sizeof b, "%02x", v & 0xff); return b; }
static std::string valstr(int v) { return v == V_FLIP1 ? "orig^01" : v == V_INV ? "~orig" : v == V_FLIP80 ? "orig^80" : v == V_ORIG ? "orig" : "0x" + hx(v); }
static std::string describe(const Scen& s) {
    std::vector<std::string> ops; int noise = 0;
    for (const Op& o : s.ops) {
        if (o.noise) { noise++; continue; }
        std::string t;
        switch (o.k) {
        case OP_ALLOC: t = "alloc b" + std::to_string(o.blk) + " " + FAM_NAME[o.fam] + " " + (s.global ? AENTRY_NAME[o.fam % 3][o.rep % N_AENTRY[o.fam % 3]] : KIND_NAME[o.rep % NKIND]) + " size=" + std::to_string(o.size) + (s.global ? "" : (o.sep ? " separate-node" : " inline-node")); break;
        case OP_WRITE: t = std::string("write b") + std::to_string(o.blk) + (o.wkind == W_USER ? " user+" : o.wkind == W_GUARD ? " guard+" : o.wkind == W_PAD ? " padding+" : " fill ") + (o.wkind == W_FILL ? "" : std::to_string(o.off)) + " " + valstr(o.val); break;
        case OP_RELEASE: t = std::string(o.realloc_ ? std::string(o.flag ? "failing-" : "") + "realloc(" + std::to_string(o.size) + ") " : "release ") + ADDR_NAME[o.addr % NADDR] + (o.addr == A_BLOCK || o.addr == A_NODE ? " b" + std::to_string(o.blk) + (o.off ? (o.off > 0 ? "+" : "") + std::to_string(o.off) : "") : "") + " via " + (s.global ? (o.realloc_ ? "cpputest_realloc" : RENTRY_NAME[o.fam % 3][o.rep % N_RENTRY[o.fam % 3]]) : std::string(REL_NAME[o.fam]) + "/" + KIND_NAME[o.rep % NKIND]); break;
        case OP_CHECKING: t = o.flag ? "type-checking on" : "type-checking off"; break;
        case OP_PERIOD: t = "period " + std::to_string(o.flag); break;
        case OP_SETCUR: t = std::string("set current ") + FAM_NAME[o.fam] + " allocator to " + KIND_NAME[o.rep % NKIND]; break;
        }
        ops.push_back(vf::jstr(t));
    }
    return vf::J().k("mode", s.global ? "global" : "private").k("threadsafe_overloads", s.ts).k("type_checking_initially", s.chk0).k("failure_callback_leaves_by", EXIT_NAME[s.exitmode % NEXIT]).k("noise_blocks", noise).raw("ops", vf::jarr(ops)).str();
}
static uint64_t fingerprint(const Scen& s) {
    uint64_t h = vf::fnv(&s.global, 1); h = vf::fnv(&s.ts, 1, h); h = vf::fnv(&s.chk0, 1, h); if (s.exitmode != X_RETURN) { uint8_t xm = (uint8_t) s.exitmode; h = vf::fnv(&xm, 1, h); }
    for (const Op& o : s.ops) { uint32_t w[5] = { (uint32_t) o.k | (uint32_t) o.fam << 8 | (uint32_t) o.rep << 16 | (uint32_t) o.sep << 24, (uint32_t) o.addr | (uint32_t) o.wkind << 8 | (uint32_t) o.realloc_ << 16 | (uint32_t) o.flag << 24, (uint32_t) o.off, (uint32_t) (uint16_t) o.val | (uint32_t) (uint16_t) o.blk << 16, o.size }; h = vf::fnv(w, sizeof w, h); }
    return h;
}

// evidence counters: accumulated in PODs while a case is judged and handed to c.count() at the end of the case
// (the runtime flushes and clears its counter map between cases, so nothing may point into it)
struct Cnt { std::string name; uint64_t pending = 0; bool dirty = false; };
static Cnt* g_dirty[2048]; static int g_ndirty = 0;
static inline void cnt_add(Cnt& k, uint64_t n) { if (!n) return; k.pending += n; if (!k.dirty && g_ndirty < 2048) { k.dirty = true; g_dirty[g_ndirty++] = &k; } }
static void cnt_flush(vf::Ctx& c) { for (int i = 0; i < g_ndirty; i++) { Cnt* k = g_dirty[i]; c.count(k->name, k->pending); k->pending = 0; k->dirty = false; } g_ndirty = 0; }
#define CNT(nm, n) do { static Cnt cnt_{ nm }; cnt_add(cnt_, (uint64_t) (n)); } while (0)
#define CNTA(slot, nameexpr) do { Cnt& k_ = (slot); if (k_.name.empty()) k_.name = (nameexpr); cnt_add(k_, 1); } while (0)

static std::map<std::string, int>& printed() { static std::map<std::string, int> m; return m; }
static void report(vf::Ctx& c, const std::string& key, const std::string& detail) {
    int& n = printed()[key];
    if (n++ < 25) c.violation(key, detail); else CNT("violations_not_printed_again", 1);
}

enum { RESMAX = 4096, BLKMAX = 2048 };
static Res g_res[RESMAX]; static Blk g_blks[BLKMAX];
alignas(16) static char g_det2buf[sizeof(MemoryLeakDetector)];

static void execute(vf::Ctx& c, const Scen& s) {
    const Scen* sp = &s;
    c.begin([sp] { return describe(*sp); });        // only evaluated inside this function (violation / first samples / verbose)
    static MemoryLeakDetector* g0 = MemoryLeakWarningPlugin::getGlobalDetector();
    static MemoryLeakFailure* r0 = MemoryLeakWarningPlugin::getGlobalFailureReporter();
    tab_reset();
    int nres = (int) s.ops.size() + s.nslots + 2; if (nres > RESMAX) nres = RESMAX;
    int nblk = s.nslots + 1; if (nblk > BLKMAX) nblk = BLKMAX;
    for (int i = 0; i < nblk; i++) g_blks[i] = Blk();
    Res* res = g_res;
    Stat st;
    int stray, overflow, rcount;
    // effective way the callback leaves: a report that leaves a thread-safe wrapper keeps the detector mutex locked (known finding D10 of C10), so the
    // non-returning reporters are only used with the default overloads; through the global entry points only longjmp can cross the noexcept operator delete
    int xm = s.exitmode % NEXIT;
    if (s.ts) xm = X_RETURN;
    if (s.global && xm != X_LONGJMP) xm = X_RETURN;
#ifdef VF_NOEXC
    if (xm == X_THROW) xm = X_LONGJMP;
#endif
    // SimpleStringInternalCache prints a once-only warning that formats the *caller's* buffer with %s through the current test; inside a fixture test
    // that text (pattern bytes, guard, never-written padding) would flow into the fixture's output buffer. What is printed about a foreign buffer is
    // outside every clause, so scenarios that use the string cache as a detector allocator do not run their releases inside a fixture test.
    if (xm == X_REAL) for (const Op& o : s.ops) if ((o.k == OP_ALLOC || o.k == OP_RELEASE) && o.rep == K_CACHE) { xm = X_LONGJMP; break; }
    int total_left = 0, real_returned = 0; size_t fixture_failures = 0, fixture_runs = 0;
    g_real_reporter = r0;
    {
        Recorder rec, rec2;
        rec.exitmode = xm;
        TestTestingFixture* fixture = xm == X_REAL ? new TestTestingFixture() : nullptr;     // outside the window: plain operator new
        g_fixture = fixture;
        MemoryLeakDetector det(&rec);
        bool need2 = s.wraps;
        for (const Op& o : s.ops) if (o.k == OP_RELEASE && o.addr == A_OTHERDET) need2 = true;
        MemoryLeakDetector* det2 = need2 ? new (g_det2buf) MemoryLeakDetector(&rec2) : nullptr;
        if (det2) det2->disableAllocationTypeChecking();
        WrapSet* ws = s.wraps ? new (g_wrapbuf) WrapSet() : nullptr;
        Exec ex(s, det, det2, rec, ws, g_blks, nblk, res, nres);
        ex.open();
        ex.run();
        ex.close(g0, r0);
        st = ex.st; rcount = ex.rcount; stray = g_stray; overflow = g_tab_overflow;
        total_left = rec.left; real_returned = rec.real_returned;
        if (fixture) { fixture_failures = fixture->getFailureCount(); fixture_runs = fixture->getRunCount(); }
        g_fixture = nullptr; Exec::g_exec = nullptr; g_guarded_fn = nullptr;
        delete fixture;
        if (ws) ws->~WrapSet();
        if (det2) det2->~MemoryLeakDetector();
    }
    tab_release_all();
    if (stray || overflow) report(c, "HARNESS-BUG:stray-allocation-in-window", "stray=" + std::to_string(stray) + " table overflow=" + std::to_string(overflow));

    static Cnt c_exp[5], c_addr[9], c_via[4][2][2], c_entry[3][5], c_guard[9], c_pair[NFAM][NFAM][2][2], c_wrap[NKIND][NKIND], c_live[5];
    bool nontrivial = false;
    const char* mode = s.global ? "global" : "private";
    for (int i = 0; i < rcount; i++) {
        const Res& r = res[i];
        if (!r.done) continue;
        bool wrapped = r.kindR != K_REC || (r.addrcls == AC_LIVE && r.kindA != K_REC);
        auto via = [&] { return r.via_realloc ? std::string("realloc") : s.global ? std::string(RENTRY_NAME[r.famR % 3][r.via % N_RENTRY[r.famR % 3]]) : std::string(REL_NAME[r.famR]); };
        auto ctx = [&] {
            // the key names the input class: address class, which guard bytes differ, and - only where the family decision is involved - the family relation,
            // the checking switch and whether wrapper / twin allocator objects took part. Mode, entry point, layout and sizes go to the detail text.
            // a release after an earlier report left the callback non-locally is keyed by that history shape alone (one defect there would otherwise
            // be spread over every address class / guard state of the releases that follow)
            if (r.prior_left) return std::string(":after-report-left-by=") + EXIT_NAME[xm] + (r.via_realloc ? ":via=realloc" : "");
            bool fam_involved = r.exp == C_MISMATCH || r.got == C_MISMATCH;
            auto isw = [](int k) { return k >= K_FWRAP; };
            std::string objs = (r.addrcls == AC_LIVE && isw(r.kindA)) ? std::string("wrapper-") + KIND_NAME[r.kindA] : isw(r.kindR) ? std::string("wrapper-") + KIND_NAME[r.kindR] : wrapped ? "other-object-same-name" : "";
            return std::string(":addr=") + AC_NAME[r.addrcls] + (r.addrcls == AC_LIVE ? std::string(":guard=") + (fam_involved ? (r.gcls ? "changed" : "intact") : GC_NAME[r.gcls]) : "")
                   + (fam_involved && r.addrcls == AC_LIVE ? std::string(r.famdiff ? ":fam=diff" : ":fam=same") + (r.chk ? ":chk=on" : ":chk=off") + (objs.empty() ? "" : ":objs=" + objs) : "")
                   + (r.addrcls != AC_LIVE && r.addrcls != AC_NULL && r.got == C_NONE ? (r.chk ? ":chk=on" : ":chk=off") : "") + (r.via_realloc ? ":via=realloc" : "");
        };
        auto detail = [&] {
            char b[800];
            snprintf(b, sizeof b, "%s mode, type checking %s, %s release #%d (op %d) via %s [%s allocator %s]: expected %s, observed %d callback(s) first='%s'; block size=%zu allocated by %s/%s layout=%s offset=%ld guard now=%02x%02x%02x was=%02x%02x%02x live blocks=%d shared bucket=%d; failure callback leaves by: %s, earlier reports that left: %d",
                     mode, r.chk ? "on" : "off", r.cleanup ? "cleanup" : "scripted", i, r.opidx, via().c_str(), FAM_NAME[r.famR], KIND_NAME[r.kindR], CAT_NAME[r.exp], r.calls, r.line, r.size,
                     r.addrcls == AC_LIVE ? FAM_NAME[r.famA] : "-", r.addrcls == AC_LIVE ? KIND_NAME[r.kindA] : "-", r.sep ? "separate" : "inline", r.off, r.gnow[0], r.gnow[1], r.gnow[2], r.gorig[0], r.gorig[1], r.gorig[2], r.live, (int) r.bucket_shared, EXIT_NAME[xm], r.prior_left);
            return std::string(b);
        };
        if (r.got != r.exp) report(c, std::string("misreport:exp=") + CAT_NAME[r.exp] + ":got=" + CAT_NAME[r.got] + ctx(), detail());
        else if (r.calls > 1) report(c, std::string("multi-report:exp=") + CAT_NAME[r.exp] + ctx(), detail());
        if (r.poison_applicable) {
            if (r.hits == 0) CNT("poison_unobservable_free_memory_not_reached_or_not_recording", 1);
            else {
                CNT("poison_checked_releases", 1); CNT("poison_bytes_judged", r.checked);
                if (r.size && r.cd == (r.size < SNAPMAX ? r.size : SNAPMAX)) CNT("poison_all_bytes_are_0xCD", 1);
                if (r.surv) {
                    const char* which = r.surv == r.checked ? "all" : (r.surv == 1 && r.last_surv + 1 == r.size) ? "last-byte" : (r.surv == 1 && r.first_surv == 0) ? "first-byte" : "some";
                    report(c, std::string("poison-missing:surviving=") + which + ":via=" + via(), detail() + "; " + std::to_string(r.surv) + " of " + std::to_string(r.checked) + " judged user bytes still hold the value written by the test when free_memory saw the block (first at +" + std::to_string(r.first_surv) + ", last at +" + std::to_string(r.last_surv) + ")");
                }
                if (r.hits > 1) CNT("block_forwarded_to_free_memory_more_than_once", 1);
            }
        }
        // evidence
        if (r.prior_left) {
            CNT("releases_after_an_earlier_report_left_nonlocally", 1);
            static Cnt c_due[5][NEXIT];
            CNTA(c_due[r.exp][xm], std::string("after_report_left_by_") + EXIT_NAME[xm] + "_expected_" + CAT_NAME[r.exp]);
            if (r.exp != C_NONE) CNT("reports_due_after_an_earlier_report_left_nonlocally", 1);
        }
        if (r.left) { static Cnt c_left[NEXIT]; CNTA(c_left[xm], std::string("reports_that_left_by_") + EXIT_NAME[xm]); }
        CNT("releases_total", 1);
        CNTA(c_exp[r.exp], std::string("expected_") + CAT_NAME[r.exp]);
        CNTA(c_addr[r.addrcls], std::string("addr_") + AC_NAME[r.addrcls]);
        CNTA(c_via[r.famR][s.global][r.via_realloc], std::string("release_via_") + (r.via_realloc ? "realloc" : REL_NAME[r.famR]) + "_" + mode);
        if (s.global && !r.via_realloc) CNTA(c_entry[r.famR % 3][r.via % N_RENTRY[r.famR % 3]], "entry_" + via());
        if (r.addrcls == AC_LIVE) {
            CNTA(c_guard[r.gcls], std::string("guard_state_") + GC_NAME[r.gcls]);
            CNTA(c_pair[r.famA][r.famR][r.via_realloc][r.chk], std::string("pair_") + FAM_NAME[r.famA] + "->" + (r.via_realloc ? "realloc:" : "") + REL_NAME[r.famR] + (r.chk ? "_chk" : "_nochk"));
            if (wrapped) CNTA(c_wrap[r.kindA][r.kindR], std::string("wrapper_pair_") + KIND_NAME[r.kindA] + "/" + KIND_NAME[r.kindR]);
            if (r.sep) CNT("layout_separate_node", 1); else CNT("layout_inline_node", 1);
            if (r.bucket_shared) CNT("released_block_shared_its_hash_bucket", 1);
        }
        { int li = r.live == 0 ? 0 : r.live == 1 ? 1 : r.live < 16 ? 2 : r.live < 74 ? 3 : 4; static const char* LN[] = { "live_blocks_0", "live_blocks_1", "live_blocks_2_15", "live_blocks_16_73", "live_blocks_74_plus" }; CNTA(c_live[li], LN[li]); }
        if (r.unknown_free) CNT("free_memory_of_pointer_not_from_the_recording_allocator_(tolerated)", r.unknown_free);
        if (r.exp != C_NONE || (r.addrcls == AC_LIVE && (r.gcls != 0 || r.famdiff))) nontrivial = true;
    }
    CNT("allocations", st.allocs); CNT("writes_inside_user_bytes", st.writes_user); CNT("writes_to_guard_bytes", st.writes_guard); CNT("writes_to_guard_bytes_same_value", st.writes_guard_same);
    CNT("writes_to_padding_after_guard", st.writes_pad); CNT("whole_block_fills", st.fills); CNT("ops_skipped_as_caller_obligation_or_not_applicable", st.skipped_ops);
    CNT("guard_after_alloc_is_BAS", st.guard_is_BAS); if (st.guard_not_BAS) CNT("guard_after_alloc_is_not_BAS", st.guard_not_BAS);
    if (st.alloc_failed) CNT("allocations_failed", st.alloc_failed);
    if (st.skipped_crosslayout) CNT("skipped_cross_layout_release_into_default_malloc_allocator", st.skipped_crosslayout);
    CNT("current_allocator_switches", st.setcur); CNT("type_checking_toggles", st.chk_toggles); CNT("period_noise_ops", st.period_ops); CNT("reallocs_that_moved", st.reallocs_moved); CNT("platform_realloc_failures_injected", g_realloc_failures_injected); g_realloc_failures_injected = 0;
    { static Cnt c_xm[NEXIT]; CNTA(c_xm[xm], std::string("scenarios_failure_callback_") + EXIT_NAME[xm]); }
    if (total_left >= 2) CNT("scenarios_with_two_or_more_reports_that_left_nonlocally", 1);
    if (xm == X_REAL) { CNT("real_reporter_fixture_test_runs", fixture_runs); CNT("real_reporter_fixture_tests_failed", fixture_failures); if (real_returned) CNT("real_reporter_returned_to_the_detector", real_returned); }
    if (st.cache_padding_defined) CNT("string_cache_blocks_whose_padding_the_harness_defined", st.cache_padding_defined);
    if (st.forgotten) CNT("blocks_not_touched_again_after_a_realloc_report_left", st.forgotten);
    if (s.ts) CNT("scenarios_threadsafe_overloads", 1);
    if (s.global) CNT("scenarios_global_mode", 1); else CNT("scenarios_private_mode", 1);
    cnt_flush(c);
    if (nontrivial) { char b[24]; snprintf(b, sizeof b, "%015llx", (unsigned long long) (fingerprint(s) >> 4)); c.nontrivial(b); }
}

// ---------------------------------------------------------------- generators
struct Dec { uint64_t i; uint64_t take(uint64_t n) { uint64_t r = i % n; i /= n; return r; } };
static std::vector<size_t> SZ;
struct Mode { bool global; int fam; bool sep; };
static Mode mode_of(int m) { Mode x; if (m < 6) { x.global = false; x.fam = m % 3; x.sep = m >= 3; } else { x.global = true; x.fam = m - 6; x.sep = x.fam == F_MAL; } return x; }
enum { NMODE = 9 };
static int rentry(const Mode& m, int fam, int v) { return m.global ? v % N_RENTRY[fam] : K_REC; }
static int aentry(const Mode& m, int fam, int v) { return m.global ? v % N_AENTRY[fam] : K_REC; }

static void add_noise(Scen& s, vf::Rng& r, int n, bool global) {
    for (int i = 0; i < n; i++) {
        int fam = (int) r.below(3);
        s.ops.push_back(opAlloc(s.nslots++, fam, global ? (int) r.below(6) : (r.chance(80) ? K_REC : K_TWIN), (size_t) r.below(41), r.chance(50), true));
    }
}

// 1. every guard position x every byte value x every size x mode (16 values per scenario, each on a block of its own)
static void sec_guard_values(vf::Ctx& c) {
    Dec d{ c.idx }; int vb = (int) d.take(16), pos = (int) d.take(3); Mode m = mode_of((int) d.take(NMODE)); size_t si = d.take(SZ.size());
    Scen s; s.global = m.global; s.chk0 = ((si + (size_t) pos) & 1) == 0; s.nslots = 16; s.ops.reserve(48); s.ts = m.global && (vb & 1);
    for (int j = 0; j < 16; j++) {
        int val = vb * 16 + j;
        s.ops.push_back(opAlloc(j, m.fam, aentry(m, m.fam, val), SZ[si], m.sep));
        s.ops.push_back(opWrite(j, W_GUARD, pos, val));
        s.ops.push_back(opRelease(j, m.fam, rentry(m, m.fam, val / 7)));
    }
    execute(c, s);
}
// 1b. the same table crossed with the checking switch and the releasing family (sampled in quick, complete in thorough)
static void sec_guard_values_x(vf::Ctx& c) {
    uint64_t total = (uint64_t) 16 * 3 * NMODE * SZ.size() * 2 * 3;
    Dec d{ c.thorough ? c.idx % total : c.rng.below(total) };
    int vb = (int) d.take(16), pos = (int) d.take(3); Mode m = mode_of((int) d.take(NMODE)); size_t si = d.take(SZ.size()); int chk = (int) d.take(2), rel = (int) d.take(3);
    Scen s; s.global = m.global; s.chk0 = chk != 0; s.nslots = 16; s.ops.reserve(48); s.ts = m.global && (pos & 1);
    int famR = (m.fam + rel) % 3;
    for (int j = 0; j < 16; j++) {
        int val = vb * 16 + j;
        s.ops.push_back(opAlloc(j, m.fam, aentry(m, m.fam, val / 3), SZ[si], m.sep));
        s.ops.push_back(opWrite(j, W_GUARD, pos, val));
        s.ops.push_back(opRelease(j, famR, rentry(m, famR, val / 5)));
    }
    execute(c, s);
}
// 2. subsets of guard bytes x family relation x checking
static void sec_guard_subsets(vf::Ctx& c) {
    Dec d{ c.idx }; int sub = (int) d.take(8), chk = (int) d.take(2), rel = (int) d.take(3), fk = (int) d.take(3); Mode m = mode_of((int) d.take(NMODE)); size_t si = d.take(SZ.size());
    Scen s; s.global = m.global; s.chk0 = chk != 0; s.nslots = 1; s.ts = m.global && (si & 1); s.ops.reserve(8);
    s.ops.push_back(opAlloc(0, m.fam, aentry(m, m.fam, sub + fk), SZ[si], m.sep));
    for (int p = 0; p < 3; p++) if (sub & (1 << p)) s.ops.push_back(opWrite(0, W_GUARD, p, fk == 0 ? V_FLIP1 : fk == 1 ? V_FLIP80 : V_INV));
    int famR = (m.fam + rel) % 3;
    s.ops.push_back(opRelease(0, famR, rentry(m, famR, sub)));
    execute(c, s);
}
// 3. allocator objects and wrappers (private mode)
struct FP { uint8_t szc, sep, fa, ka, fr, kr; };
static std::vector<FP> FPAIRS;
static const size_t FP_SIZES[] = { 0, 1, 7, 64, 300, 4096 };
static void init_fpairs() {
    for (int szc = 0; szc < 6; szc++) for (int sep = 0; sep < 2; sep++)
        for (int fa = 0; fa < NFAM; fa++) for (int ka = 0; ka < NKIND; ka++) for (int fr = 0; fr < NFAM; fr++) for (int kr = 0; kr < NKIND; kr++) {
            if ((ka == K_DEFAULT && fa == F_POOL) || (kr == K_DEFAULT && fr == F_POOL)) continue;
            if ((ka == K_MLA) != (kr == K_MLA)) continue;
            if ((ka == K_CACHE) != (kr == K_CACHE)) continue;
            if (ka == K_CACHE && (sep || FP_SIZES[szc] <= 256)) continue;
            FP f = { (uint8_t) szc, (uint8_t) sep, (uint8_t) fa, (uint8_t) ka, (uint8_t) fr, (uint8_t) kr }; FPAIRS.push_back(f);
        }
}
static void sec_family_pairs(vf::Ctx& c) {
    Dec d{ c.idx }; int g = (int) d.take(3), chk = (int) d.take(2); const FP& f = FPAIRS[d.take(FPAIRS.size())];
    Scen s; s.wraps = true; s.chk0 = chk != 0; s.nslots = 1;
    s.ops.push_back(opAlloc(0, f.fa, f.ka, FP_SIZES[f.szc], f.sep != 0));
    if (g) s.ops.push_back(opWrite(0, W_GUARD, g == 1 ? 0 : 2, V_INV));
    s.ops.push_back(opRelease(0, f.fr, f.kr));
    execute(c, s);
}
// 4. every global allocation entry x every global release entry
static const size_t GP_SIZES[] = { 0, 1, 5, 8, 64, 255, 4096 };
static void sec_global_pairs(vf::Ctx& c) {
    Dec d{ c.idx }; int g = (int) d.take(4), chk = (int) d.take(2), ts = (int) d.take(2), re = (int) d.take(14), ae = (int) d.take(14); size_t sz = GP_SIZES[d.take(7)];
    int fa = ae < 4 ? F_NEW : ae < 8 ? F_ARR : F_MAL, va = ae < 8 ? ae % 4 : ae - 8;
    bool viaRealloc = re == 13; int fr = re < 5 ? F_NEW : re < 10 ? F_ARR : F_MAL, vr = re < 10 ? re % 5 : re - 10;
    Scen s; s.global = true; s.ts = ts != 0; s.chk0 = chk != 0; s.nslots = 1;
    s.ops.push_back(opAlloc(0, fa, va, sz, false));
    if (g) s.ops.push_back(opWrite(0, W_GUARD, g - 1, V_FLIP1));
    if (viaRealloc) s.ops.push_back(opRealloc(0, F_MAL, 0, sz / 2 + (size_t) g * 9)); else s.ops.push_back(opRelease(0, fr, vr));
    execute(c, s);
}
// 5. the current allocator is switched (wrapped / unwrapped / replaced by a twin) between allocation and release
static const int SW_KINDS[] = { K_REC, K_TWIN, K_DEFAULT, K_FWRAP, K_ACCT, K_REPORT, K_NESTED };
static void sec_global_switch(vf::Ctx& c) {
    Dec d{ c.idx }; int g = (int) d.take(2), chk = (int) d.take(2), fr = (int) d.take(3), kf = SW_KINDS[d.take(7)], ka = SW_KINDS[d.take(7)], fa = (int) d.take(3); static const size_t S3[] = { 0, 24, 4096 }; size_t sz = S3[d.take(3)];
    Scen s; s.global = true; s.wraps = true; s.chk0 = chk != 0; s.nslots = 1; s.ts = (kf + ka) & 1;
    s.ops.push_back(opSetCur(fa, ka));
    s.ops.push_back(opAlloc(0, fa, (int) (sz % 5), sz, false));
    if (g) s.ops.push_back(opWrite(0, W_GUARD, 1, V_INV));
    s.ops.push_back(opSetCur(fr, kf));
    s.ops.push_back(opRelease(0, fr, (int) (sz % 3)));
    execute(c, s);
}
// 6. addresses that are not an outstanding block
struct AS { uint16_t si; uint8_t cls; int32_t off; uint8_t hist; };   // hist: 0 plain, 1 stale, 2 stale twice, 3 stale after mismatch, 4 stale after corruption
static std::vector<AS> ADDRS, ADDRS_LARGE;
static void init_addrs() {
    for (size_t si = 0; si < SZ.size(); si++) {
        long s = (long) SZ[si];
        std::vector<long> offs;
        if (s <= 64) for (long k = 1; k <= s; k++) offs.push_back(k);
        else { long ks[] = { 1, 2, 72, 73, 74, 146, s / 2, s - 1, s }; for (long k : ks) offs.push_back(k); for (long k = 1; k <= s; k++) { AS a = { (uint16_t) si, A_BLOCK, (int32_t) k, 0 }; ADDRS_LARGE.push_back(a); } }
        offs.push_back(s + 1); offs.push_back(s + 2); offs.push_back(s + 3); offs.push_back(-1); offs.push_back(73); offs.push_back(-73);
        for (long k : offs) if (k != 0) { AS a = { (uint16_t) si, A_BLOCK, (int32_t) k, 0 }; ADDRS.push_back(a); }
        for (int cls : { A_NULL, A_STACK, A_STATIC, A_HEAPRAW, A_OTHERDET, A_INT1, A_INT73, A_MAXPTR, A_NODE }) { AS a = { (uint16_t) si, (uint8_t) cls, 0, 0 }; ADDRS.push_back(a); }
        for (int h = 1; h <= 4; h++) { AS a = { (uint16_t) si, A_BLOCK, 0, (uint8_t) h }; ADDRS.push_back(a); }
        { AS a = { (uint16_t) si, A_BLOCK, 1, 1 }; ADDRS.push_back(a); }     // interior of a released block
    }
}
static void address_case(vf::Ctx& c, const AS& a, Mode m, int famR, bool chk, bool viaRealloc, int noise) {
    Scen s; s.global = m.global; s.chk0 = chk; s.nslots = 1;
    if (noise) add_noise(s, c.rng, noise, m.global);
    int v = (int) (a.si + (size_t) a.off);
    s.ops.push_back(opAlloc(0, m.fam, aentry(m, m.fam, v), SZ[a.si], m.sep));
    switch (a.hist) {
    case 1: case 2: s.ops.push_back(opRelease(0, m.fam, rentry(m, m.fam, v))); break;
    case 3: s.ops.push_back(opChk(true)); s.ops.push_back(opRelease(0, (m.fam + 1) % 3, rentry(m, (m.fam + 1) % 3, v))); s.ops.push_back(opChk(chk)); break;
    case 4: s.ops.push_back(opWrite(0, W_GUARD, v % 3, V_FLIP1)); s.ops.push_back(opRelease(0, m.fam, rentry(m, m.fam, v))); break;
    }
    if (a.hist == 2) s.ops.push_back(opRelease(0, m.fam, rentry(m, m.fam, v), A_BLOCK, 0));
    bool rl = viaRealloc && a.cls != A_NULL && (m.global ? famR == F_MAL : true);
    if (rl) s.ops.push_back(opRealloc(0, m.global ? F_MAL : famR, m.global ? 0 : K_REC, 10, a.cls, a.off));
    else s.ops.push_back(opRelease(0, famR, rentry(m, famR, v), a.cls, a.off));
    execute(c, s);
}
static void sec_addresses(vf::Ctx& c) {
    Dec d{ c.idx }; int chk = (int) d.take(2), famR = (int) d.take(3); Mode m = mode_of((int) d.take(NMODE)); const AS& a = ADDRS[d.take(ADDRS.size())];
    address_case(c, a, m, famR, chk != 0, ((a.si + (size_t) famR + (size_t) chk) % 5) == 0, 0);
}
static void sec_interior_large(vf::Ctx& c) {
    uint64_t total = ADDRS_LARGE.size() * NMODE;
    uint64_t i = c.thorough ? c.idx % total : c.rng.below(total);
    Dec d{ i }; Mode m = mode_of((int) d.take(NMODE)); const AS& a = ADDRS_LARGE[d.take(ADDRS_LARGE.size())];
    address_case(c, a, m, (int) c.rng.below(3), c.rng.chance(50), c.rng.chance(15), 0);
}
// 7. writes inside the user bytes
struct IB { uint16_t si; uint32_t pos; };
static std::vector<IB> INB, INB_LARGE;
static void init_inb() { for (size_t si = 0; si < SZ.size(); si++) for (size_t p = 0; p < SZ[si]; p++) { IB b = { (uint16_t) si, (uint32_t) p }; (SZ[si] <= 256 ? INB : INB_LARGE).push_back(b); } }
static void inbounds_case(vf::Ctx& c, const IB& b, Mode m, int vk) {
    static const int VALS[] = { 0x00, 0xFF, V_INV, 'B', 'A', 'S', 0xCD };
    Scen s; s.global = m.global; s.chk0 = (b.pos & 1) == 0; s.nslots = 1; s.ts = m.global && (b.pos & 2);
    s.ops.push_back(opAlloc(0, m.fam, aentry(m, m.fam, (int) b.pos), SZ[b.si], m.sep));
    s.ops.push_back(opWrite(0, W_USER, b.pos, VALS[vk % 7]));
    s.ops.push_back(opRelease(0, m.fam, rentry(m, m.fam, (int) b.pos)));
    execute(c, s);
}
static void sec_inbounds(vf::Ctx& c) { Dec d{ c.idx }; int vk = (int) d.take(3); Mode m = mode_of((int) d.take(NMODE)); inbounds_case(c, INB[d.take(INB.size())], m, vk + (int) (c.idx % 5)); }
static void sec_inbounds_large(vf::Ctx& c) {
    uint64_t total = INB_LARGE.size() * NMODE; uint64_t i = c.thorough ? c.idx % total : c.rng.below(total);
    Dec d{ i }; Mode m = mode_of((int) d.take(NMODE)); inbounds_case(c, INB_LARGE[d.take(INB_LARGE.size())], m, (int) c.rng.below(7));
}
static void sec_inbounds_fill(vf::Ctx& c) {
    static const int F[] = { 0x00, 0xFF, 'B', 0xCD, 'S' };
    Dec d{ c.idx }; int f = F[d.take(5)]; Mode m = mode_of((int) d.take(NMODE)); size_t si = d.take(SZ.size());
    Scen s; s.global = m.global; s.chk0 = (si & 1) != 0; s.nslots = 1;
    s.ops.push_back(opAlloc(0, m.fam, aentry(m, m.fam, f), SZ[si], m.sep));
    s.ops.push_back(opWrite(0, W_FILL, 0, f));
    s.ops.push_back(opRelease(0, m.fam, rentry(m, m.fam, f)));
    execute(c, s);
}
// 8. writes to the alignment padding behind the guard (not guard bytes: no report)
static void sec_padding(vf::Ctx& c) {
    static const int V[] = { 0x00, 0xFF, V_INV };
    Dec d{ c.idx }; int v = V[d.take(3)], pi = (int) d.take(8); Mode m = mode_of((int) d.take(NMODE)); size_t si = d.take(SZ.size());
    Scen s; s.global = m.global; s.chk0 = (pi & 1) != 0; s.nslots = 1;
    s.ops.push_back(opAlloc(0, m.fam, aentry(m, m.fam, pi) % 4, SZ[si], m.sep));     // global malloc entries 0..3 (strdup/calloc variants change nothing here)
    s.ops.push_back(opWrite(0, W_PAD, pi, v));
    s.ops.push_back(opRelease(0, m.fam, rentry(m, m.fam, pi)));
    execute(c, s);
}
// 9. table cases re-drawn at random with other live blocks around them (hash chains of every length)
static void sec_context(vf::Ctx& c) {
    vf::Rng& r = c.rng;
    Mode m = mode_of((int) r.below(NMODE));
    int noise = r.chance(50) ? r.range(1, 8) : r.chance(60) ? r.range(9, 72) : r.range(73, c.thorough ? 400 : 200);
    Scen s; s.global = m.global; s.chk0 = r.chance(60); s.ts = m.global && r.chance(30);
    add_noise(s, r, noise, m.global);
    int b = s.nslots++;
    size_t sz = r.chance(85) ? (size_t) r.below(65) : r.pick(SZ);
    s.ops.push_back(opAlloc(b, m.fam, aentry(m, m.fam, (int) r.below(6)), sz, m.sep));
    int what = (int) r.below(6);
    int famR = r.chance(65) ? m.fam : (int) r.below(3);
    switch (what) {
    case 0: s.ops.push_back(opWrite(b, W_GUARD, (long) r.below(3), r.chance(50) ? (int) r.below(256) : V_FLIP1)); break;
    case 1: s.ops.push_back(opWrite(b, W_USER, (long) r.below(4096), (int) r.below(256))); break;
    case 2: s.ops.push_back(opWrite(b, W_PAD, (long) r.below(8), (int) r.below(256))); break;
    default: break;
    }
    if (what == 3) s.ops.push_back(opRelease(b, famR, rentry(m, famR, (int) r.below(5)), A_BLOCK, 1 + (long) r.below(sz + 3)));
    if (what == 4) s.ops.push_back(opRelease(b, famR, rentry(m, famR, (int) r.below(5)), (int) r.range(A_NULL, A_NODE), 0));
    if (what == 5) { int nb = (int) r.below((uint64_t) noise); s.ops.push_back(opRelease(nb, s.ops[(size_t) nb].fam, rentry(m, s.ops[(size_t) nb].fam, 0))); s.ops.push_back(opRelease(nb, famR, rentry(m, famR, 1))); }   // a stale noise block
    s.ops.push_back(opRelease(b, famR, rentry(m, famR, (int) r.below(5))));
    execute(c, s);
}
// 9b. how the failure callback leaves x three consecutive (mis)uses on one detector x what separates them.
//     Every report must be delivered no matter how an earlier report left the detector.
enum { MK_OK, MK_NULL, MK_FOREIGN, MK_STALE, MK_INTERIOR, MK_MISMATCH, MK_CORRUPT, MK_REALLOC_FOREIGN, NMK };
struct XM { uint8_t mode, exit; };
static std::vector<XM> XMODES;
static void init_xmodes() {
    for (int m = 0; m < NMODE; m++) for (int x = X_LONGJMP; x < NEXIT; x++) {
        if (mode_of(m).global && x != X_LONGJMP) continue;
#ifdef VF_NOEXC
        if (x == X_THROW) continue;
#endif
        XM e = { (uint8_t) m, (uint8_t) x }; XMODES.push_back(e);
    }
}
static void push_misuse(Scen& s, const Mode& m, int b, int mk, size_t sz, int v) {
    int famO = (m.fam + 1 + (v & 1)) % 3;
    s.ops.push_back(opAlloc(b, m.fam, aentry(m, m.fam, v), sz, m.sep));
    switch (mk) {
    case MK_OK: s.ops.push_back(opRelease(b, m.fam, rentry(m, m.fam, v))); break;
    case MK_NULL: s.ops.push_back(opRelease(b, m.fam, rentry(m, m.fam, v), A_NULL, 0)); break;
    case MK_FOREIGN: s.ops.push_back(opRelease(b, (m.fam + v) % 3, rentry(m, (m.fam + v) % 3, v), (v & 2) ? A_STACK : A_STATIC, 0)); break;
    case MK_STALE: s.ops.push_back(opRelease(b, m.fam, rentry(m, m.fam, v))); s.ops.push_back(opRelease(b, m.fam, rentry(m, m.fam, v + 1))); break;
    case MK_INTERIOR: s.ops.push_back(opRelease(b, m.fam, rentry(m, m.fam, v), A_BLOCK, 1 + (long) (sz ? (size_t) v % sz : 0))); break;
    case MK_MISMATCH: s.ops.push_back(opRelease(b, famO, rentry(m, famO, v))); break;
    case MK_CORRUPT: s.ops.push_back(opWrite(b, W_GUARD, v % 3, (v & 4) ? V_FLIP1 : V_INV)); s.ops.push_back(opRelease(b, m.fam, rentry(m, m.fam, v))); break;
    case MK_REALLOC_FOREIGN: s.ops.push_back(opRealloc(b, m.global ? F_MAL : m.fam, m.global ? 0 : K_REC, 10, A_STATIC, 0)); break;
    }
}
static void sec_reporter_exit(vf::Ctx& c) {
    Dec d{ c.idx }; int k[3]; k[0] = (int) d.take(NMK); k[1] = (int) d.take(NMK); k[2] = (int) d.take(NMK); int sep = (int) d.take(3); const XM& xm = XMODES[d.take(XMODES.size())];
    Mode m = mode_of(xm.mode);
    Scen s; s.global = m.global; s.exitmode = xm.exit; s.nslots = 3; s.ops.reserve(16);
    s.chk0 = (k[0] + k[1] + k[2] + sep) % 5 != 0;
    for (int j = 0; j < 3; j++) {
        int v = (int) ((c.idx / 7 + (uint64_t) j * 5) % 64);
        size_t sz = SZ[(size_t) ((c.idx * 7 + (uint64_t) j * 13) % SZ.size())];
        if (j && sep) s.ops.push_back(opPeriod(sep == 1 ? 2 : 4));      // startChecking / stopChecking + startChecking between the misuses
        push_misuse(s, m, j, k[j], sz, v);
    }
    execute(c, s);
}
// 9c. the same with random lengths, other live blocks around, type-checking toggles and every period operation in between
static void sec_reporter_exit_random(vf::Ctx& c) {
    vf::Rng& r = c.rng;
    const XM& xm = XMODES[r.below(XMODES.size())];
    Mode m = mode_of(xm.mode);
    Scen s; s.global = m.global; s.exitmode = xm.exit; s.chk0 = r.chance(75);
    if (r.chance(40)) add_noise(s, r, r.range(1, 80), m.global);
    int n = r.range(2, 12);
    for (int j = 0; j < n; j++) {
        if (r.chance(25)) s.ops.push_back(opPeriod((int) r.below(5)));
        if (r.chance(15)) s.ops.push_back(opChk(r.chance(60)));
        int mk = r.chance(20) ? MK_OK : (int) r.below(NMK);
        size_t sz = r.chance(85) ? (size_t) r.below(65) : r.pick(SZ);
        push_misuse(s, m, s.nslots++, mk, sz, (int) r.below(64));
    }
    execute(c, s);
}
// 10. random histories
static void sec_histories(vf::Ctx& c) {
    vf::Rng& r = c.rng;
    Scen s; s.global = r.chance(50); s.ts = s.global && r.chance(25); s.wraps = r.chance(40); s.chk0 = r.chance(70);
    int nops = r.range(20, c.thorough && r.chance(20) ? 400 : 80);
    struct G { bool live = false, ever = false; int fam = 0, kind = 0; bool sep = false; size_t size = 0; };
    std::vector<G> g; g.reserve((size_t) nops + 4);
    int curk[3] = { K_REC, K_REC, K_REC };
    auto pick_live = [&](bool live) -> int { std::vector<int> v; for (size_t i = 0; i < g.size(); i++) if (g[i].ever && g[i].live == live) v.push_back((int) i); return v.empty() ? -1 : v[r.below(v.size())]; };
    auto pick_kind = [&](int fam) -> int {
        if (!r.chance(35)) return K_REC;
        int k = (int) r.below(s.wraps ? 7 : 3);
        return (k == K_DEFAULT && fam == F_POOL) ? K_TWIN : k;
    };
    auto rel_rep = [&](int fam, const G* blk) -> int {
        if (s.global) return (int) r.below((uint64_t) N_RENTRY[fam % 3]);
        if (blk && (blk->kind == K_MLA || blk->kind == K_CACHE)) return blk->kind;
        return pick_kind(fam);
    };
    int nfam = s.global ? 3 : 4;
    for (int i = 0; i < nops; i++) {
        int w = (int) r.below(100);
        if (w < 24 || g.empty()) {
            G n; n.fam = (int) r.below((uint64_t) nfam); if (n.fam == F_POOL && !r.chance(30)) n.fam = (int) r.below(3);
            n.sep = s.global ? n.fam == F_MAL : r.chance(50); n.size = r.chance(80) ? (size_t) r.below(65) : r.chance(70) ? (size_t) r.range(65, 300) : r.pick(SZ);
            n.kind = s.global ? curk[n.fam] : pick_kind(n.fam);
            if (!s.global && s.wraps && r.chance(6)) { n.kind = K_MLA; }
            if (!s.global && s.wraps && r.chance(4)) { n.kind = K_CACHE; n.sep = false; n.size = (size_t) r.range(257, 600); }
            n.live = n.ever = true;
            g.push_back(n);
            s.ops.push_back(opAlloc((int) g.size() - 1, n.fam, s.global ? (int) r.below((uint64_t) N_AENTRY[n.fam]) : n.kind, n.size, n.sep));
        } else if (w < 32) { int b = pick_live(true); if (b >= 0) s.ops.push_back(opWrite(b, W_USER, (long) r.below(8192), r.chance(50) ? (int) r.below(256) : V_INV)); }
        else if (w < 43) { int b = pick_live(true); if (b >= 0) { int n = r.chance(75) ? 1 : r.range(2, 3); for (int k = 0; k < n; k++) s.ops.push_back(opWrite(b, W_GUARD, (long) r.below(3), r.chance(40) ? (int) r.below(256) : r.chance(50) ? V_FLIP1 : r.chance(50) ? V_FLIP80 : V_ORIG)); } }
        else if (w < 46) { int b = pick_live(true); if (b >= 0) s.ops.push_back(opWrite(b, W_PAD, (long) r.below(8), (int) r.below(256))); }
        else if (w < 62) { int b = pick_live(true); if (b >= 0) { s.ops.push_back(opRelease(b, g[(size_t) b].fam, rel_rep(g[(size_t) b].fam, &g[(size_t) b]))); g[(size_t) b].live = false; } }
        else if (w < 70) { int b = pick_live(true); if (b >= 0) { int f = (g[(size_t) b].fam + 1 + (int) r.below((uint64_t) nfam - 1)) % nfam; s.ops.push_back(opRelease(b, f, rel_rep(f, &g[(size_t) b]))); g[(size_t) b].live = false; } }
        else if (w < 75) { int b = pick_live(false); if (b >= 0) { int f = (int) r.below((uint64_t) nfam); s.ops.push_back(opRelease(b, f, rel_rep(f, nullptr), A_BLOCK, r.chance(80) ? 0 : 1)); } }
        else if (w < 80) { int b = pick_live(true); if (b >= 0) { int f = (int) r.below((uint64_t) nfam); long sz = (long) g[(size_t) b].size; long off = r.chance(60) ? 1 + (long) r.below((uint64_t) sz + 3) : r.chance(50) ? -1 : (r.chance(50) ? 73 : 146); s.ops.push_back(opRelease(b, f, rel_rep(f, nullptr), A_BLOCK, off)); } }
        else if (w < 84) { int f = (int) r.below((uint64_t) nfam); int b = pick_live(true); s.ops.push_back(opRelease(b < 0 ? 0 : b, f, rel_rep(f, nullptr), (int) r.range(A_STACK, A_NODE), 0)); }
        else if (w < 86) { int f = (int) r.below((uint64_t) nfam); s.ops.push_back(opRelease(0, f, rel_rep(f, nullptr), A_NULL, 0)); }
        else if (w < 92) {
            int b = pick_live(r.chance(90));
            if (b >= 0 && kind_reallocable(g[(size_t) b].kind)) {
                int f = s.global ? F_MAL : (r.chance(70) ? g[(size_t) b].fam : (int) r.below((uint64_t) nfam));
                int k = s.global ? 0 : pick_kind(f);
                size_t ns = r.chance(85) ? (size_t) r.below(80) : (size_t) r.range(80, 5000);
                Op ro = opRealloc(b, f, k, ns);
                if (r.chance(20)) { ro.flag = 1; s.ops.push_back(ro); }      // the platform realloc will fail: nothing changes for the block
                else s.ops.push_back(ro);
                if (!ro.flag && g[(size_t) b].live) { g[(size_t) b].fam = f; g[(size_t) b].kind = s.global ? curk[F_MAL] : k; g[(size_t) b].size = ns; if (s.global) g[(size_t) b].sep = true; }
            }
        }
        else if (w < 96) s.ops.push_back(opChk(r.chance(50)));
        else if (w < 98) s.ops.push_back(opPeriod((int) r.below(4)));
        else if (s.global) { int f = (int) r.below(3); int k = SW_KINDS[r.below(s.wraps ? 7 : 3)]; s.ops.push_back(opSetCur(f, k)); curk[f] = k; }
    }
    s.nslots = (int) g.size();
    // drawn last (the operation lists of this section are the same as before this dimension existed)
    if (!s.ts && r.chance(50)) s.exitmode = s.global ? X_LONGJMP : (int) r.range(X_LONGJMP, X_REAL);
    execute(c, s);
}

static void init() {
    for (int b = 0; b < 256; b++) if (safe_byte((unsigned char) b)) SAFE[NSAFE++] = (unsigned char) b;
    memset(g_strsrc, 'x', sizeof g_strsrc);
    orig_realloc = PlatformSpecificRealloc; orig_free = PlatformSpecificFree;
    PlatformSpecificRealloc = seam_realloc; PlatformSpecificFree = seam_free;
    (void) MemoryLeakWarningPlugin::getGlobalDetector();
}

int main(int argc, char** argv) {
    // Outside the window the harness's own new/delete/malloc are plain libc: the monitors must not depend on the health of the
    // process-wide detector (a broken table would otherwise kill the harness before it can say what is wrong). The overloads are
    // switched on (normal or thread-safe set) only while a global-mode scenario runs against its private detector.
    MemoryLeakWarningPlugin::turnOffNewDeleteOverloads();
    for (size_t i = 0; i <= 64; i++) SZ.push_back(i);
    SZ.push_back(255); SZ.push_back(256); SZ.push_back(4095); SZ.push_back(4096);
    for (int f = 0; f < NFAM; f++) { snprintf(TWIN_NAME[f], sizeof TWIN_NAME[f], "%s", STD_NAME[f]); }
    static RecAlloc r0(0, STD_NAME[0]), r1(1, STD_NAME[1]), r2(2, STD_NAME[2]), r3(3, STD_NAME[3]);
    static RecAlloc t0(0, TWIN_NAME[0]), t1(1, TWIN_NAME[1]), t2(2, TWIN_NAME[2]), t3(3, TWIN_NAME[3]);
    g_rec[0] = &r0; g_rec[1] = &r1; g_rec[2] = &r2; g_rec[3] = &r3; g_twin[0] = &t0; g_twin[1] = &t1; g_twin[2] = &t2; g_twin[3] = &t3;
    init_fpairs(); init_addrs(); init_inb(); init_xmodes();
    uint64_t nsz = SZ.size();
    std::vector<vf::Section> S = {
        { "guard_values", 16 * 3 * NMODE * nsz, 16 * 3 * NMODE * nsz, sec_guard_values, true },
        { "guard_subsets", 8 * 2 * 3 * 3 * NMODE * nsz, 8 * 2 * 3 * 3 * NMODE * nsz, sec_guard_subsets, true },
        { "family_pairs", 3 * 2 * (uint64_t) FPAIRS.size(), 3 * 2 * (uint64_t) FPAIRS.size(), sec_family_pairs, true },
        { "global_pairs", 4 * 2 * 2 * 14 * 14 * 7, 4 * 2 * 2 * 14 * 14 * 7, sec_global_pairs, true },
        { "global_switch", 2 * 2 * 3 * 7 * 7 * 3 * 3, 2 * 2 * 3 * 7 * 7 * 3 * 3, sec_global_switch, true },
        { "addresses", 2 * 3 * NMODE * (uint64_t) ADDRS.size(), 2 * 3 * NMODE * (uint64_t) ADDRS.size(), sec_addresses, true },
        { "inbounds", 3 * NMODE * (uint64_t) INB.size(), 3 * NMODE * (uint64_t) INB.size(), sec_inbounds, true },
        { "inbounds_fill", 5 * NMODE * nsz, 5 * NMODE * nsz, sec_inbounds_fill, true },
        { "padding", 3 * 8 * NMODE * nsz, 3 * 8 * NMODE * nsz, sec_padding, true },
        { "reporter_exit", NMK * NMK * NMK * 3 * (uint64_t) XMODES.size(), NMK * NMK * NMK * 3 * (uint64_t) XMODES.size(), sec_reporter_exit, true },
        { "guard_values_x_family", 6000, (uint64_t) 16 * 3 * NMODE * nsz * 2 * 3, sec_guard_values_x, false },
        { "interior_large", 4000, (uint64_t) ADDRS_LARGE.size() * NMODE, sec_interior_large, false },
        { "inbounds_large", 4000, (uint64_t) INB_LARGE.size() * NMODE, sec_inbounds_large, false },
        { "context", 12000, 1000000, sec_context, false },
        { "reporter_exit_random", 4000, 300000, sec_reporter_exit_random, false },
        { "histories", 4000, 500000, sec_histories, false },
    };
    return vf::harness_main(argc, argv, S, init);
}
