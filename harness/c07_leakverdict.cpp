// C07 — per-test leak verdict: leaking tests fail, clean ones pass, blame is correct.
//
// Whole *programs* of scripted tests are run through a private TestRegistry with the real
// MemoryLeakWarningPlugin on the GLOBAL detector, allocating through the real overloaded
// operators (new / new[] / nothrow / located forms / typed new-expression, cpputest_malloc /
// calloc / strdup / strndup / realloc) — or, see "Detector configurations" below, with the plugin
// on a detector of its own, or with one plugin on each. Blocks live in a slot table that survives across tests,
// so a test can free or realloc blocks of earlier tests.
//
// Oracle: the harness keeps its own ledger of every block it allocated (allocation number read
// from the detector just before the call, address, size, kind, location, content pattern, the
// run that allocated it, the run that released it). Per executed test the ledger gives the set
// E of blocks allocated inside that test and still outstanding at its end, the declared
// expectation, the ignore flag and the number of own failures. Demanded:
//   leak failure present (exactly one)  <=>  own failures == 0 && !ignore && |E| != expected
//   report entries == E (identity by allocation number; size, location, type, address and the
//   dumped content are cross-checked), footer total == |E|, "No memory leaks" text when E = {}
//   the failure carries the name / file / line of the test that was running
//   FinalReport after the program == the blocks still live (key prefix final-report:)
// Detector configurations (Program::detmode):
//   0  the leak plugin works on the GLOBAL detector, blocks come from the overloaded operators (as under RUN_ALL_TESTS)
//   1  the leak plugin is constructed with its OWN detector (second constructor argument); scripts allocate through that
//      detector's allocMemory / deallocMemory / reallocMemory with the current new / new[] / malloc allocators, exactly as
//      the operators do on the global one. The global detector is idle (disabled) but still serves the runner's own `new`.
//   2  TWO leak plugins in one registry: one on the global detector, one on its own detector; every alloc / temp /
//      EXPECT / IGNORE operation is addressed to one of them. Each plugin must judge the blocks of ITS detector only; the
//      plugin whose post action runs second sees a leak failure of the first as "test already failed". A marker plugin
//      between the two records how many failures existed when the inner post action was done, which attributes every
//      leak failure to its plugin without looking at the text.
// Bystander plugins (Program::by): up to three plugins that have nothing to do with leak checking (their actions only count
// their own invocations) sit somewhere in the chain - installed before / after the leak plugin(s), between two leak plugins,
// at the head or the tail - and each is enabled or DISABLED (TestPlugin::disable) for the whole program. The leak plugin is
// installed and enabled all the same, so every verdict, report and blame demand is unchanged; a disabled bystander getting
// actions is C17's business and only counted here.
// Detector mode calls (O_DISABLE / O_ENABLE): a script - of a test, or of the code between two tests - may call the public
// MemoryLeakDetector::disable() / enable() on the detector of a leak plugin (the bracket users put around code that is not to be
// accounted), balanced or not, with a failing check in between so that enable() is never reached. The property says nothing about
// blocks allocated inside a test AFTER such a call (they are stamped 'disabled' / 'enabled', not 'checking'): those blocks are
// "ambiguous" (Block::amb). A verdict is judged unless an ambiguous block of that test is still outstanding at its end and the
// verdict depends on the count (test passed its checks, no ignore); the final report is judged unless an ambiguous block is
// live at the end. Every OTHER test is judged in full: the leak plugin's window opens at its pre action whatever an earlier test or
// the code between tests did to the detector, so a test after one that left the detector disabled is failed for its leaks as usual.
// Everything the monitor records during a run lives in static arrays / libc malloc, so that the
// monitor itself allocates nothing through the tracked operators inside a checking period; all
// judging happens after the run with the detector disabled.
#include "verif.h"
#include <new>
#include <cstdarg>
#include <string>
#include <vector>
#include <map>
#include <set>

#include "CppUTest/TestHarness.h"
#include "CppUTest/TestRegistry.h"
#include "CppUTest/TestOutput.h"
#include "CppUTest/TestResult.h"
#include "CppUTest/TestFailure.h"
#include "CppUTest/TestPlugin.h"
#include "CppUTest/MemoryLeakWarningPlugin.h"
#include "CppUTest/MemoryLeakDetector.h"
#include "CppUTest/TestMemoryAllocator.h"
#include "CppUTest/PlatformSpecificFunctions.h"
#include "CppUTest/TestHarness_c.h"
#undef new

// ------------------------------------------------------------------ program representation
enum { MAX_TESTS = 48, MAX_OPS = 64, MAX_SLOTS = 64, MAX_BLOCKS = 12288, MAX_RUNS = MAX_TESTS * 3, MAX_FAILS = 1024 };

enum Op { O_ALLOC, O_FREE, O_REALLOC, O_REALLOC_FAIL, O_FAIL, O_EXPECT, O_IGNORE, O_CHECK, O_TEMP, O_DISABLE, O_ENABLE, O_N };
static const char* OP_NAME[] = { "alloc", "free", "realloc", "realloc_fail", "fail", "expect", "ignore", "check", "temp", "detector_disable", "detector_enable" };

enum Kind { K_NEW, K_NEW_LOC, K_NEW_NT, K_NEWA, K_NEWA_LOC, K_NEWA_NT, K_OBJ, K_MALLOC, K_CALLOC, K_STRDUP, K_STRNDUP, K_REALLOC, K_N };
static const char* KIND_NAME[] = { "new", "new@loc", "new-nothrow", "new[]", "new[]@loc", "new[]-nothrow", "new-Pod@loc", "malloc", "calloc", "strdup", "strndup", "realloc" };
static int family(int k) { return k <= K_NEW_NT || k == K_OBJ ? 0 : k <= K_NEWA_NT ? 1 : 2; }
static const char* FAMILY_TYPE[] = { "new", "new []", "malloc" };
static bool located(int k) { return k == K_NEW_LOC || k == K_NEWA_LOC || k == K_OBJ || family(k) == 2; }

enum FailKind { F_FAIL, F_FAIL_C, F_CHECK, F_THROW, F_LONGS, F_N };
static const char* FAIL_NAME[] = { "FAIL", "FAIL_TEXT_C", "CHECK", "throw", "LONGS_EQUAL" };

struct OpRec { uint8_t op, slot, kind, pad; uint16_t size, arg; };
// phases 0..2 belong to the test (inside the leak plugin's window). Phases 3 / 4 are executed by a plugin at the very head of
// the chain: BEFORE the leak plugin's pre action / AFTER its post action of this test, i.e. between tests. Blocks allocated
// there belong to no test: they must never be charged to one (only the final report knows them).
enum { PH_BEFORE = 3, PH_AFTER = 4, N_PH = 5, FIRST_OUTSIDE_SLOT = 60 };
struct TestScript { uint8_t nops[N_PH]; uint8_t plugfail; OpRec ops[N_PH][MAX_OPS]; };   // plugfail: another plugin records a failure in its pre (1) / post (2) action
// bystander plugins: pos = install step they precede. Install order (the registry prepends, so later = closer to the head of the chain =
// earlier pre action, later post action): [0] plugin that fails tests [1] (inner) leak plugin [2] marker [3] outer leak plugin [4] plugin
// running the code between tests [5] end. With one leak plugin steps 2 and 3 are empty (positions 2..4 are then equivalent).
enum { MAX_BY = 3, N_BYPOS = 6 };
static const char* BYPOS_NAME[N_BYPOS] = { "installed-first", "just-before-the-(inner)-leak-plugin", "just-after-the-(inner)-leak-plugin", "just-before-the-(outer)-leak-plugin", "after-the-leak-plugins", "installed-last" };
struct Bystander { uint8_t pos, enabled; };
struct Program {
    int ntests, repeat, nslots, profile; bool threadsafe;
    int nby; Bystander by[MAX_BY];
    int detmode; bool local_outer;      // detmode see above; local_outer (mode 2): the own-detector plugin is the head of the chain (its post action runs last)
    TestScript t[MAX_TESTS];
};
static Program G;
static const char* PHASE_NAME[] = { "setup", "body", "teardown" };

static std::string describe_program(const Program& P) {
    std::vector<std::string> tests;
    for (int t = 0; t < P.ntests; t++) {
        std::string s;
        for (int ph = 0; ph < N_PH; ph++) {
            if (ph >= 3 && !P.t[t].nops[ph]) continue;
            s += ph == 0 ? "S:" : ph == 1 ? " | B:" : ph == 2 ? " | T:" : ph == PH_BEFORE ? " | between tests, before this one:" : " | between tests, after this one:";
            for (int i = 0; i < P.t[t].nops[ph]; i++) {
                const OpRec& o = P.t[t].ops[ph][i];
                char b[96];
                const char* at = (P.detmode == 2 && o.pad) ? "@own" : "";
                switch (o.op) {
                case O_ALLOC: snprintf(b, sizeof b, " alloc%s(s%d,%s,%u)", at, o.slot, KIND_NAME[o.kind], o.size); break;
                case O_FREE: snprintf(b, sizeof b, " free(s%d)", o.slot); break;
                case O_REALLOC: snprintf(b, sizeof b, " realloc(s%d,%u)", o.slot, o.size); break;
                case O_REALLOC_FAIL: snprintf(b, sizeof b, " realloc_fails(s%d,%u)", o.slot, o.size); break;
                case O_FAIL: snprintf(b, sizeof b, " %s!", FAIL_NAME[o.kind]); break;
                case O_EXPECT: snprintf(b, sizeof b, " EXPECT_N_LEAKS%s(%u)", at, o.arg); break;
                case O_IGNORE: snprintf(b, sizeof b, " IGNORE_ALL_LEAKS%s", at); break;
                case O_CHECK: snprintf(b, sizeof b, " check"); break;
                case O_DISABLE: snprintf(b, sizeof b, " detector%s->disable()", at); break;
                case O_ENABLE: snprintf(b, sizeof b, " detector%s->enable()", at); break;
                default: snprintf(b, sizeof b, " temp%s(%s,%u)", at, KIND_NAME[o.kind], o.size); break;
                }
                s += b;
            }
        }
        if (P.t[t].plugfail) s += P.t[t].plugfail == 1 ? " | other plugin fails the test in preTestAction" : " | other plugin fails the test in postTestAction";
        tests.push_back(vf::jstr(s));
    }
    std::vector<std::string> bys;
    for (int i = 0; i < P.nby; i++) bys.push_back(vf::jstr(std::string(P.by[i].enabled ? "enabled:" : "DISABLED:") + BYPOS_NAME[P.by[i].pos]));
    return vf::J().k("profile", P.profile).raw("bystander_plugins", vf::jarr(bys)).k("detectors", P.detmode == 0 ? "global" : P.detmode == 1 ? "plugin-with-own-detector" : P.local_outer ? "two-plugins:own-detector-plugin-outer" : "two-plugins:global-detector-plugin-outer").k("tests", P.ntests).k("repeat", P.repeat).k("slots", P.nslots).k("threadsafe_overloads", P.threadsafe).raw("scripts", vf::jarr(tests)).str();
}

static uint64_t program_hash(const Program& P) {
    uint64_t h = vf::fnv(&P.ntests, sizeof P.ntests);
    h = vf::fnv(&P.repeat, sizeof P.repeat, h);
    int cfg = P.detmode * 2 + (P.detmode == 2 && P.local_outer ? 1 : 0);
    if (cfg) h = vf::fnv(&cfg, sizeof cfg, h);
    for (int i = 0; i < P.nby; i++) { uint8_t b[3] = { 0xb7, P.by[i].pos, P.by[i].enabled }; h = vf::fnv(b, sizeof b, h); }
    for (int t = 0; t < P.ntests; t++) {
        h = vf::fnv(&P.t[t].plugfail, 1, h);
        for (int ph = 0; ph < N_PH; ph++) { if (ph >= 3 && !P.t[t].nops[ph]) continue; h = vf::fnv(&P.t[t].nops[ph], 1, h); h = vf::fnv(P.t[t].ops[ph], sizeof(OpRec) * P.t[t].nops[ph], h); }
    }
    return h;
}

// ------------------------------------------------------------------ ledger (static storage only)
struct Block {
    void* p; unsigned allocnum; unsigned size; int kind; int line; const char* file;
    int owner_run, freed_run; unsigned char fill; int fillmode;   // 0 pattern byte, 1 zeros, 2 letters + NUL
    bool adopted;                                                 // result of a realloc of a block that an EARLIER test allocated
    int det;                                                      // 0: tracked by the global detector, 1: by the plugin's own detector
    bool freed_outside;                                           // released between tests
    int outside;                                                  // 0: allocated by a test; PH_BEFORE / PH_AFTER: allocated between tests (while run owner_run was current)
    int amb;                                                      // allocated after a disable() (1) / enable() (2) call on its detector inside the same window (same test, or same stretch of code between two tests): the statement does not say whose block that is
};
// per-plugin inputs are indexed by detector (0 global, 1 own); mark = number of failures recorded when the inner of two leak plugins had finished its post action
struct RunRec { int test, own_fails, plugin_fails, fail_kind, freed_earlier[2], allocs, frees, realloc_failed, mark, outside_allocs, outside_frees; bool ignore[2], expect_set[2], ended; unsigned long expect[2]; unsigned phases;
                // detector mode calls per detector: calls made by the test itself, the last one it made (0 disable, 1 enable), whether a failing check of the test came
                // after its disable(), the last call anybody made before this test's window opened (-1 none), calls made by the code between tests while this run was current
                int mode_calls[2], mode_last[2], mode_before[2], mode_calls_outside[2], mode_pre_last[2]; bool failed_while_disabled[2]; };   // mode_pre_last: last call made by the code that ran just before this test's window opened
struct FailRec { int run; char* name; char* nameonly; char* file; size_t line; char* msg; };

static Block B[MAX_BLOCKS]; static int nB;
static int SLOT[MAX_SLOTS];
static RunRec R[MAX_RUNS]; static int nR, cur_run;
static FailRec FR[MAX_FAILS]; static int nFR;
static uint64_t OPC[O_N], KINDC[K_N];
static uint64_t g_skipped_ops, g_alloc_null, g_ledger_full, g_misattributed_phase;
static int g_phase;                                               // phase being executed (0..4)
// detector mode calls: window of the last call per detector and what it was. A window is a stretch of script code in which no leak plugin action
// happens: the phases 0..2 of run r (3r+1), or the code after run r-1 plus the code before run r (3r)
static int MODE_WIN[2], MODE_LAST[2];
static int current_window() { return g_phase < 3 ? 3 * cur_run + 1 : g_phase == PH_BEFORE ? 3 * cur_run : 3 * cur_run + 3; }
static int amb_now(int det) { return MODE_WIN[det] == current_window() ? (MODE_LAST[det] == 0 ? 1 : 2) : 0; }
static size_t RES_fail[4], RES_run[4];
static MemoryLeakDetector* DET;          // global detector
static MemoryLeakDetector* LDET;         // the plugin's own detector (modes 1, 2), constructed per program in static storage
static MemoryLeakWarningPlugin* PL[2];   // leak plugin per detector
static MemoryLeakDetector* detector_of(int d) { return d ? LDET : DET; }
static char SRC[80];
static char LOCAL_MISUSE[300]; static int g_local_misuse;
class LocalReporter : public MemoryLeakFailure {
public:
    void fail(char* text) override { if (!g_local_misuse++) snprintf(LOCAL_MISUSE, sizeof LOCAL_MISUSE, "%s", text); }
};

static const char* FILES[MAX_TESTS]; static const char* NAMES[MAX_TESTS]; static const char* GROUPS[MAX_TESTS];
static const char* UNKNOWN_FILE = "<unknown>";
#define OWN_TEXT "VF-OWN-FAIL"

struct Pod { char b[24]; };

static void* failing_realloc(void*, size_t) { return NULL; }
static void* (*REAL_REALLOC)(void*, size_t);

static TestMemoryAllocator* family_allocator(int fam) { return fam == 0 ? getCurrentNewAllocator() : fam == 1 ? getCurrentNewArrayAllocator() : getCurrentMallocAllocator(); }

// the same twelve kinds on the plugin's own detector: what the operators / cpputest_malloc family do on the global one
// (allocator of the family, located or unlocated form, malloc family keeps its accounting nodes separately)
static void* own_detector_alloc(int kind, unsigned& size, const char* file, int line, unsigned char fill, int& fillmode) {
    fillmode = kind == K_CALLOC ? 1 : (kind == K_STRDUP || kind == K_STRNDUP) ? 2 : 0;
    if (kind == K_OBJ) size = (unsigned) sizeof(Pod);
    if (fillmode == 2) { if (size == 0) size = 1; if (size > 64) size = 64; }
    int fam = family(kind);
    char* p = located(kind) ? LDET->allocMemory(family_allocator(fam), size, file, (size_t) line, fam == 2) : LDET->allocMemory(family_allocator(fam), size, fam == 2);
    if (!p) return NULL;
    if (fillmode == 0) memset(p, fill, size);
    else if (fillmode == 1) memset(p, 0, size);
    else { memset(p, 'a' + fill % 26, size - 1); p[size - 1] = 0; }
    return p;
}

static void* raw_alloc(int det, int kind, unsigned& size, const char* file, int line, unsigned char fill, int& fillmode) {
    if (det) return own_detector_alloc(kind, size, file, line, fill, fillmode);
    void* p = NULL; fillmode = 0;
    switch (kind) {
    case K_NEW: p = ::operator new((size_t) size); break;
    case K_NEW_LOC: p = ::operator new((size_t) size, file, (int) line); break;
    case K_NEW_NT: p = ::operator new((size_t) size, std::nothrow); break;
    case K_NEWA: p = new char[size]; break;
    case K_NEWA_LOC: p = new (file, (size_t) line) char[size]; break;
    case K_NEWA_NT: p = new (std::nothrow) char[size]; break;
    case K_OBJ: size = (unsigned) sizeof(Pod); p = new (file, (int) line) Pod; break;
    case K_MALLOC: p = cpputest_malloc_location(size, file, (size_t) line); break;
    case K_CALLOC: if (size % 2 == 0 && size) p = cpputest_calloc_location(size / 2, 2, file, (size_t) line); else p = cpputest_calloc_location(size, 1, file, (size_t) line); fillmode = 1; break;
    case K_STRDUP: {
        if (size == 0) size = 1;
        if (size > 64) size = 64;
        memset(SRC, 'a' + fill % 26, size - 1); SRC[size - 1] = 0;
        p = cpputest_strdup_location(SRC, file, (size_t) line); fillmode = 2; break; }
    case K_STRNDUP: {
        if (size == 0) size = 1;
        if (size > 64) size = 64;
        memset(SRC, 'a' + fill % 26, size + 7); SRC[size + 7] = 0;     // source longer than n
        p = cpputest_strndup_location(SRC, size - 1, file, (size_t) line); fillmode = 2; break; }
    default: p = cpputest_realloc_location(NULL, size, file, (size_t) line); break;    // K_REALLOC: realloc(NULL, n)
    }
    if (p && fillmode == 0) memset(p, fill, size);
    return p;
}

static void raw_free(const Block& b) {
    if (b.det) { int fam = family(b.kind); LDET->deallocMemory(family_allocator(fam), b.p, "c07_free.c", 7, fam == 2); return; }
    switch (family(b.kind)) {
    case 0: if (b.kind == K_OBJ) delete (Pod*) b.p; else ::operator delete(b.p); break;
    case 1: delete[] (char*) b.p; break;
    default: cpputest_free_location(b.p, "c07_free.c", 7); break;
    }
}

static void op_alloc(RunRec& rr, int test, int s, int kind, unsigned size, int det) {
    if (SLOT[s] >= 0) { g_skipped_ops++; return; }
    if (nB >= MAX_BLOCKS) { g_ledger_full++; return; }
    Block& b = B[nB];
    b.kind = kind; b.fill = (unsigned char) (0x21 + (nB * 7) % 0x5d);
    b.file = located(kind) ? FILES[test] : UNKNOWN_FILE; b.line = located(kind) ? 1000 + nB : 0;
    unsigned num = detector_of(det)->getCurrentAllocationNumber();
    unsigned sz = size; int fm = 0;
    void* p = raw_alloc(det, kind, sz, b.file, b.line, b.fill, fm);
    if (!p) { g_alloc_null++; return; }
    b.p = p; b.allocnum = num; b.size = sz; b.fillmode = fm; b.owner_run = cur_run; b.freed_run = -1; b.adopted = false; b.det = det; b.outside = g_phase >= 3 ? g_phase : 0; b.freed_outside = false; b.amb = amb_now(det);
    SLOT[s] = nB++; KINDC[kind]++;
    if (b.outside) rr.outside_allocs++; else rr.allocs++;
}

static void op_free(RunRec& rr, int s) {
    int bi = SLOT[s];
    if (bi < 0) { g_skipped_ops++; return; }
    Block& b = B[bi];
    raw_free(b);
    SLOT[s] = -1;
    if (g_phase >= 3) { b.freed_run = g_phase == PH_AFTER ? cur_run + 1 : cur_run; b.freed_outside = true; rr.outside_frees++; return; }   // after the window of run r: the block was still outstanding at r's end
    b.freed_run = cur_run; rr.frees++;
    if (b.owner_run < cur_run) rr.freed_earlier[b.det]++;
}

static void op_realloc(RunRec& rr, int test, int s, unsigned size, bool fail, int det) {     // det: where a realloc(NULL, n) goes; an existing block stays with its detector
    int bi = SLOT[s];
    if (size == 0) size = 1;
    if (fail && G.threadsafe) { g_skipped_ops++; return; }   // a mishandled failure would end in a misuse report that leaves the detector's lock held (C10's known finding): keep the two apart
    if (bi < 0) { if (fail) { g_skipped_ops++; return; } op_alloc(rr, test, s, K_REALLOC, size, det); return; }
    if (family(B[bi].kind) != 2) { g_skipped_ops++; return; }
    if (nB >= MAX_BLOCKS) { g_ledger_full++; return; }
    Block& o = B[bi];
    Block& b = B[nB];
    b.kind = K_REALLOC; b.fill = (unsigned char) (0x21 + (nB * 7) % 0x5d); b.file = FILES[test]; b.line = 1000 + nB;
    unsigned num = detector_of(o.det)->getCurrentAllocationNumber();
    PlatformSpecificRealloc = fail ? failing_realloc : REAL_REALLOC;
    void* q = o.det ? (void*) LDET->reallocMemory(getCurrentMallocAllocator(), (char*) o.p, size, b.file, (size_t) b.line, true) : cpputest_realloc_location(o.p, size, b.file, (size_t) b.line);
    PlatformSpecificRealloc = REAL_REALLOC;
    if (!q) { rr.realloc_failed++; return; }                       // the old block is still valid and still outstanding
    memset(q, b.fill, size);
    b.p = q; b.allocnum = num; b.size = size; b.fillmode = 0; b.owner_run = cur_run; b.freed_run = -1; b.adopted = o.owner_run < cur_run; b.det = o.det; b.outside = 0; b.freed_outside = false; b.amb = amb_now(o.det);
    o.freed_run = cur_run; rr.frees++;
    if (o.owner_run < cur_run) rr.freed_earlier[o.det]++;
    SLOT[s] = nB++; rr.allocs++; KINDC[K_REALLOC]++;
}

static void op_temp(int test, int kind, unsigned size, int det) {
    Block b; b.kind = kind; b.fill = 0x7e; b.det = det; unsigned sz = size; int fm;
    b.p = raw_alloc(det, kind, sz, FILES[test], 9, b.fill, fm);
    if (b.p) raw_free(b);
}

static char PLUGIN_STORAGE[sizeof(MemoryLeakWarningPlugin)] __attribute__((aligned(16)));
static char PLUGIN2_STORAGE[sizeof(MemoryLeakWarningPlugin)] __attribute__((aligned(16)));
static char LDET_STORAGE[sizeof(MemoryLeakDetector)] __attribute__((aligned(16)));
static bool plugin_is_first(int det) { return (void*) PL[det] == (void*) PLUGIN_STORAGE; }

static void run_phase(int test, int phase) {
    if (cur_run < 0 || cur_run >= MAX_RUNS) return;
    RunRec& rr = R[cur_run];
    if (rr.test != test) g_misattributed_phase++;
    PlatformSpecificRealloc = REAL_REALLOC;
    if (phase < 3 && !(rr.phases & 7u)) for (int d = 0; d < 2; d++) rr.mode_before[d] = MODE_LAST[d];      // first phase of the test: its window has just been opened
    rr.phases |= 1u << phase;
    g_phase = phase;
    const TestScript& ts = G.t[test];
    for (int i = 0; i < ts.nops[phase]; i++) {
        const OpRec& o = ts.ops[phase][i];
        OPC[o.op]++;
        int det = G.detmode == 2 ? (o.pad & 1) : G.detmode;        // the detector / plugin the operation is addressed to
        switch (o.op) {
        case O_ALLOC: op_alloc(rr, test, o.slot, o.kind, o.size, det); break;
        case O_FREE: op_free(rr, o.slot); break;
        case O_REALLOC: op_realloc(rr, test, o.slot, o.size, false, det); break;
        case O_REALLOC_FAIL: op_realloc(rr, test, o.slot, o.size, true, det); break;
        case O_TEMP: op_temp(test, o.kind, o.size, det); break;
        case O_CHECK: UtestShell::getCurrent()->assertTrue(true, "CHECK", "true", NULL, FILES[test], 50 + (size_t) i); break;
        case O_DISABLE: case O_ENABLE: {
            MemoryLeakDetector* md = detector_of(det);
            if (!md) { g_skipped_ops++; break; }
            if (o.op == O_DISABLE) md->disable(); else md->enable();
            MODE_WIN[det] = current_window(); MODE_LAST[det] = o.op == O_ENABLE;
            if (phase < 3) { rr.mode_calls[det]++; rr.mode_last[det] = MODE_LAST[det]; } else { rr.mode_calls_outside[det]++; if (phase == PH_BEFORE) rr.mode_pre_last[det] = MODE_LAST[det]; }
            break; }
        // the macros talk to the first plugin ever constructed (always the one in PLUGIN_STORAGE); a second leak plugin is told directly
        case O_EXPECT: if (plugin_is_first(det)) { EXPECT_N_LEAKS(o.arg); } else PL[det]->expectLeaksInTest(o.arg); rr.expect[det] = o.arg; rr.expect_set[det] = true; break;
        case O_IGNORE: if (plugin_is_first(det)) { IGNORE_ALL_LEAKS_IN_TEST(); } else PL[det]->ignoreAllLeaksInTest(); rr.ignore[det] = true; break;
        case O_FAIL:
            rr.own_fails++; rr.fail_kind = o.kind;
            for (int d = 0; d < 2; d++) if (rr.mode_calls[d] && rr.mode_last[d] == 0) rr.failed_while_disabled[d] = true;
            switch (o.kind) {
            case F_FAIL: UtestShell::getCurrent()->fail(OWN_TEXT, FILES[test], 60 + (size_t) i); break;
            case F_FAIL_C: FAIL_TEXT_C_LOCATION(OWN_TEXT, FILES[test], 60 + (size_t) i); break;
            case F_CHECK: UtestShell::getCurrent()->assertTrue(false, "CHECK", OWN_TEXT, NULL, FILES[test], 60 + (size_t) i); break;
            case F_THROW: throw 42;
            default: UtestShell::getCurrent()->assertLongsEqual(1, 2, OWN_TEXT, FILES[test], 60 + (size_t) i); break;
            }
            break;
        }
    }
}

// ------------------------------------------------------------------ scripted tests
class ScriptTest : public Utest {
    int idx_;
public:
    explicit ScriptTest(int i) : idx_(i) {}
    void setup() override { run_phase(idx_, 0); }
    void testBody() override { run_phase(idx_, 1); }
    void teardown() override { run_phase(idx_, 2); }
};
class ScriptShell : public UtestShell {
public:
    int idx;
    ScriptShell(int i, const char* g, const char* n, const char* f, size_t l) : UtestShell(g, n, f, l), idx(i) {}
    Utest* createTest() override { return new ScriptTest(idx); }     // tracked `new`, released by destroyTest inside the checking period — like a TEST()
};
static ScriptShell* SH[MAX_TESTS];

// a second plugin, installed before the leak plugin (as user plugins are before RUN_ALL_TESTS installs the leak plugin):
// its actions run inside the leak plugin's window and may fail the test without the test body noticing
class FailPlugin : public TestPlugin {
public:
    FailPlugin() : TestPlugin("C07FailPlugin") {}
    void act(UtestShell& t, TestResult& res, int when) {
        if (cur_run < 0 || R[cur_run].test < 0 || (const UtestShell*) SH[R[cur_run].test] != &t) return;
        if (G.t[R[cur_run].test].plugfail != when) return;
        R[cur_run].own_fails++; R[cur_run].plugin_fails++;
        res.addFailure(TestFailure(&t, OWN_TEXT " recorded by another plugin"));
    }
    void preTestAction(UtestShell& t, TestResult& r) override { act(t, r, 1); }
    void postTestAction(UtestShell& t, TestResult& r) override { act(t, r, 2); }
};
static FailPlugin* FAILPLUGIN;

// head of the whole chain: its pre action runs before every leak plugin opens its window, its post action after every leak
// plugin has closed it and given its verdict — the code between two tests
class OuterPlugin : public TestPlugin {
public:
    OuterPlugin() : TestPlugin("C07OuterPlugin") {}
    void preTestAction(UtestShell&, TestResult&) override { if (cur_run >= 0 && R[cur_run].test >= 0) run_phase(R[cur_run].test, PH_BEFORE); }
    void postTestAction(UtestShell&, TestResult&) override { if (cur_run >= 0 && R[cur_run].test >= 0) run_phase(R[cur_run].test, PH_AFTER); }
};
static OuterPlugin* OUTER;

// sits between two leak plugins: when its post action runs, exactly the inner leak plugin has given its verdict
class MarkerPlugin : public TestPlugin {
public:
    MarkerPlugin() : TestPlugin("C07MarkerPlugin") {}
    void postTestAction(UtestShell&, TestResult&) override;
};
static MarkerPlugin* MARKER;

// plugins that have nothing to do with leak checking: they only count how often they were asked to act
static uint64_t BY_PRE[MAX_BY], BY_POST[MAX_BY];
class BystanderPlugin : public TestPlugin {
    int id_;
public:
    BystanderPlugin(const char* name, int id) : TestPlugin(name), id_(id) {}
    void preTestAction(UtestShell&, TestResult&) override { BY_PRE[id_]++; }
    void postTestAction(UtestShell&, TestResult&) override { BY_POST[id_]++; }
};
static BystanderPlugin* BY[MAX_BY];

// ------------------------------------------------------------------ recording output (libc malloc only)
class Recorder : public TestOutput {
public:
    void printBuffer(const char*) override {}
    void flush() override {}
    void printCurrentTestStarted(const UtestShell& t) override {
        if (nR >= MAX_RUNS) { cur_run = -1; return; }
        cur_run = nR++;
        RunRec& rr = R[cur_run]; memset(&rr, 0, sizeof rr);
        rr.test = -1; rr.mark = -1;
        for (int d = 0; d < 2; d++) rr.mode_last[d] = rr.mode_before[d] = rr.mode_pre_last[d] = -1;
        for (int i = 0; i < G.ntests; i++) if ((const UtestShell*) SH[i] == &t) rr.test = i;
    }
    void printCurrentTestEnded(const TestResult&) override { if (cur_run >= 0) R[cur_run].ended = true; }
    void printCurrentGroupStarted(const UtestShell&) override {}
    void printCurrentGroupEnded(const TestResult&) override {}
    void printTestsStarted() override {}
    void printTestsEnded(const TestResult&) override {}
    void printFailure(const TestFailure& f) override {
        if (nFR >= MAX_FAILS) return;
        FailRec& r = FR[nFR++];
        r.run = (cur_run >= 0 && !R[cur_run].ended) ? cur_run : -1;
        r.name = strdup(f.getTestName().asCharString());
        r.nameonly = strdup(f.getTestNameOnly().asCharString());
        r.file = strdup(f.getFileName().asCharString());
        r.line = f.getFailureLineNumber();
        r.msg = strdup(f.getMessage().asCharString());
    }
};

void MarkerPlugin::postTestAction(UtestShell&, TestResult&) { if (cur_run >= 0 && !R[cur_run].ended) R[cur_run].mark = nFR; }

// Leftover blocks are released from inside a test of their own (no leak plugin): should a broken detector answer a
// release with a misuse failure, the failure is contained by the test runner instead of unwinding the harness.
static char SWEEP_MSG[400]; static int g_sweep_failures;
class SweepTest : public Utest {
public:
    void testBody() override { for (int i = 0; i < nB; i++) if (B[i].freed_run == -1) { B[i].freed_run = nR; raw_free(B[i]); } }
};
class SweepShell : public UtestShell {
public:
    SweepShell() : UtestShell("c07sweep", "release_leftovers", "c07_sweep.cpp", 1) {}
    Utest* createTest() override { return new SweepTest; }
};
static SweepShell* SWEEP;
class SilentOutput : public TestOutput {
public:
    void printBuffer(const char*) override {}
    void flush() override {}
    void printFailure(const TestFailure& f) override { if (!g_sweep_failures++) snprintf(SWEEP_MSG, sizeof SWEEP_MSG, "%s", f.getMessage().asCharString()); }
};
static void release_leftovers() {
    g_sweep_failures = 0;
    for (int round = 0; round < nB + 2; round++) {
        bool any = false;
        for (int i = 0; i < nB; i++) if (B[i].freed_run == -1) any = true;
        if (!any) break;
        TestRegistry reg; reg.addTest(SWEEP);
        SilentOutput out; TestResult tr(out);
        reg.runAllTests(tr);
    }
}

// ------------------------------------------------------------------ report parser
struct Entry { unsigned num = 0; unsigned long size = 0; std::string file; int line = 0; std::string type; uintptr_t addr = 0; std::vector<int> bytes; bool has_mem = false; };
struct Parsed { bool header = false, none_msg = false, truncated = false, has_total = false, note = false; long total = -1; std::vector<Entry> e; int odd_lines = 0; };

static Parsed parse_report(const char* text) {
    Parsed P;
    std::string s(text);
    if (s == "No memory leaks were detected.") { P.none_msg = true; return P; }
    size_t pos = 0; bool in_note = false;
    while (pos <= s.size()) {
        size_t nl = s.find('\n', pos);
        std::string ln = s.substr(pos, nl == std::string::npos ? std::string::npos : nl - pos);
        pos = nl == std::string::npos ? s.size() + 1 : nl + 1;
        if (ln.empty()) continue;
        if (ln == "Memory leak(s) found.") { P.header = true; continue; }
        if (ln.compare(0, 11, "Alloc num (") == 0) {
            Entry e; char fbuf[256], tbuf[32];
            int n = sscanf(ln.c_str(), "Alloc num (%u) Leak size: %lu Allocated at: %255s and line: %d. Type: \"%31[^\"]\"", &e.num, &e.size, fbuf, &e.line, tbuf);
            if (n == 5 && ln.size() && ln[ln.size() - 1] == '"') { e.file = fbuf; e.type = tbuf; P.e.push_back(e); }
            else P.odd_lines++;
            continue;
        }
        if (ln.compare(0, 10, "\tMemory: <") == 0) {
            void* a = NULL;
            if (!P.e.empty() && sscanf(ln.c_str(), "\tMemory: <%p> Content:", &a) == 1 && ln.find("> Content:") != std::string::npos) { P.e.back().addr = (uintptr_t) a; P.e.back().has_mem = true; }
            else P.odd_lines++;
            continue;
        }
        if (ln.compare(0, 4, "    ") == 0 && ln.size() > 10 && ln[8] == ':') {
            if (P.e.empty()) { P.odd_lines++; continue; }
            size_t i = 10;
            while (i + 1 < ln.size() && ln[i] != '|') {
                if (ln[i] == ' ') { i++; continue; }
                if (isxdigit((unsigned char) ln[i]) && isxdigit((unsigned char) ln[i + 1])) { P.e.back().bytes.push_back((int) strtol(ln.substr(i, 2).c_str(), NULL, 16)); i += 2; }
                else break;
            }
            continue;
        }
        if (ln.compare(0, 24, "etc etc etc etc. !!!! To") == 0) { P.truncated = true; continue; }
        if (ln.compare(0, 23, "Total number of leaks: ") == 0) { P.has_total = true; P.total = atol(ln.c_str() + 23); continue; }
        if (ln == "NOTE:") { P.note = true; in_note = true; continue; }
        if (in_note && ln[0] == '\t') continue;
        P.odd_lines++;
    }
    return P;
}

// ------------------------------------------------------------------ judge
struct Judge {
    vf::Ctx& c;
    std::map<uint64_t, int> by_num;                                  // (detector, allocation number) -> ledger block
    static uint64_t key(int det, unsigned num) { return ((uint64_t) det << 32) | num; }
    explicit Judge(vf::Ctx& cc) : c(cc) { for (int i = 0; i < nB; i++) by_num[key(B[i].det, B[i].allocnum)] = i; }

    static int expected_byte(const Block& b, unsigned i) {
        if (b.fillmode == 1) return 0;
        if (b.fillmode == 2) return i + 1 < b.size ? 'a' + b.fill % 26 : 0;
        return b.fill;
    }
    static unsigned estimate(const std::set<int>& E) {
        unsigned est = 40;
        for (int bi : E) est += 150 + 78 * ((B[bi].size + 15) / 16);
        return est;
    }
    // compares a report text with the set E of ledger blocks; `at_run` = run whose end the report describes (nR for the final report)
    // sfx: key suffix naming the plugin configuration ("" for the plugin on the global detector)
    void check_report(const std::string& pfx0, const std::string& sfx, int det, const char* text, const std::set<int>& E, int at_run, const std::string& where) {
        struct Pfx { std::string p, s; std::string operator+(const std::string& k) const { return p + k + s; } } pfx { pfx0, sfx };
        Parsed P = parse_report(text);
        c.count("reports_parsed");
        if (E.empty()) {
            if (!P.none_msg) c.violation(pfx + "blocks-listed-though-none-outstanding", where + ": no block of this test is outstanding but the report is: " + std::string(text).substr(0, 300));
            else c.count("reports_no_leaks_text");
            return;
        }
        if (P.none_msg) { c.violation(pfx + "omits-all-blocks", where + ": " + std::to_string(E.size()) + " block(s) outstanding but the report says no leaks"); return; }
        if (!P.header) c.violation(pfx + "header-missing", where + ": report does not start with the leak header: " + std::string(text).substr(0, 120));
        bool trunc = P.truncated;
        if (P.odd_lines) { c.count(trunc ? "report_cut_lines_in_truncated_reports" : "report_unrecognised_lines", (uint64_t) P.odd_lines); if (!trunc && getenv("C07_DEBUG")) fprintf(stderr, "ODD REPORT:\n%s\n", text); }
        if (trunc) {
            c.count("reports_truncated");
            if (estimate(E) <= 3000) c.violation(pfx + "truncated-below-capacity", where + ": report of " + std::to_string(E.size()) + " small block(s) was cut off");
            if (!P.e.empty() && !P.e.back().has_mem) P.e.pop_back();     // the entry the cut went through
        }
        std::set<int> seen;
        for (const Entry& e : P.e) {
            c.count("report_entries_checked");
            auto it = by_num.find(key(det, e.num));
            if (it == by_num.end()) {
                // a block that only the OTHER detector tracks? (same address and size under the other detector's numbering)
                bool foreign = false;
                for (int i = 0; i < nB && !foreign; i++) if (B[i].det != det && B[i].allocnum == e.num && e.has_mem && (uintptr_t) B[i].p == e.addr && B[i].size == e.size) foreign = true;
                if (foreign) { c.violation(pfx + "lists-block-of-other-detector", where + ": alloc num " + std::to_string(e.num) + " size " + std::to_string(e.size) + " at " + e.file + ":" + std::to_string(e.line) + " is tracked by the other plugin's detector"); continue; }
            }
            if (it == by_num.end()) { c.violation(pfx + "lists-unknown-block", where + ": alloc num " + std::to_string(e.num) + " size " + std::to_string(e.size) + " at " + e.file + ":" + std::to_string(e.line) + " was not allocated by any test script"); continue; }
            int bi = it->second; const Block& b = B[bi];
            if (!E.count(bi)) {
                std::string d = where + ": lists block #" + std::to_string(bi) + " (alloc num " + std::to_string(e.num) + ", size " + std::to_string(b.size) + ") allocated in run " + std::to_string(b.owner_run) + ", released in run " + std::to_string(b.freed_run);
                if (b.freed_run >= 0 && b.freed_run <= at_run) c.violation(pfx + "lists-released-block", d);
                else if (b.outside && at_run < nR) c.violation(pfx + "lists-block-allocated-between-tests", d);
                else if (b.owner_run < at_run) c.violation(pfx + "lists-earlier-tests-block", d);
                else c.violation(pfx + "lists-later-tests-block", d);
                continue;
            }
            if (!seen.insert(bi).second) { c.violation(pfx + "duplicate-entry", where + ": alloc num " + std::to_string(e.num) + " listed twice"); continue; }
            if (e.size != b.size) c.violation(pfx + "entry-field-wrong:size", where + ": block of " + std::to_string(b.size) + " bytes listed with size " + std::to_string(e.size));
            if (e.file != b.file || e.line != b.line) c.violation(pfx + "entry-field-wrong:location", where + ": block allocated at " + std::string(b.file) + ":" + std::to_string(b.line) + " listed at " + e.file + ":" + std::to_string(e.line));
            if (e.type != FAMILY_TYPE[family(b.kind)]) c.violation(pfx + "entry-field-wrong:type", where + ": " + KIND_NAME[b.kind] + " block listed with type " + e.type);
            if (e.has_mem && e.addr != (uintptr_t) b.p) c.violation(pfx + "entry-field-wrong:address", where + ": block listed with another address");
            bool last_cut = trunc && &e == &P.e.back();
            if (!last_cut) {
                bool ok = e.bytes.size() == b.size;
                for (unsigned i = 0; ok && i < b.size; i++) ok = e.bytes[i] == expected_byte(b, i);
                if (!ok) c.violation(pfx + "entry-field-wrong:content", where + ": dumped content of block #" + std::to_string(bi) + " (" + KIND_NAME[b.kind] + ", " + std::to_string(b.size) + " bytes) differs from what the test wrote (" + std::to_string(e.bytes.size()) + " bytes dumped)");
            }
        }
        if (!trunc && seen.size() != E.size()) {
            for (int bi : E) if (!seen.count(bi)) { c.violation(pfx + (std::string("omits-outstanding-block") + (B[bi].adopted && at_run < nR ? ":realloc-of-earlier-tests-block" : "")), where + ": block #" + std::to_string(bi) + " (alloc num " + std::to_string(B[bi].allocnum) + ", " + KIND_NAME[B[bi].kind] + ", size " + std::to_string(B[bi].size) + ", run " + std::to_string(B[bi].owner_run) + ") is not listed"); break; }
        }
        if (!P.has_total) c.violation(pfx + "total-missing", where + ": no 'Total number of leaks' line");
        else if (P.total != (long) E.size()) c.violation(pfx + "total-wrong", where + ": footer says " + std::to_string(P.total) + ", outstanding blocks: " + std::to_string(E.size()));
        if (!trunc) c.count("reports_exact");
    }
};

// runs G, judges, cleans up. Everything from `enable` to `disable` is allocation-free on the harness side.
static void run_and_judge(vf::Ctx& c) {
    c.begin([] { return describe_program(G); });
    nB = 0; nR = 0; nFR = 0; cur_run = -1;
    for (int i = 0; i < MAX_SLOTS; i++) SLOT[i] = -1;
    memset(OPC, 0, sizeof OPC); memset(KINDC, 0, sizeof KINDC);
    g_skipped_ops = g_alloc_null = g_ledger_full = g_misattributed_phase = 0;
    for (int d = 0; d < 2; d++) { MODE_WIN[d] = -1000; MODE_LAST[d] = -1; }
    int rep = G.repeat < 1 ? 1 : G.repeat > 3 ? 3 : G.repeat;

    DET = MemoryLeakWarningPlugin::getGlobalDetector();
    DET->disable();
    PlatformSpecificRealloc = REAL_REALLOC;
    const int mode = G.detmode;
    const int nby = G.nby < 0 ? 0 : G.nby > MAX_BY ? MAX_BY : G.nby;
    const bool has[2] = { mode != 1, mode != 0 };             // which detectors carry a leak plugin
    g_local_misuse = 0; LDET = NULL; PL[0] = PL[1] = NULL;
    static LocalReporter local_reporter;
    // the plugin's own detector: constructed and destroyed with the operator overloads OFF (its mutex comes from plain malloc)
    if (has[1]) LDET = ::new ((void*) LDET_STORAGE) MemoryLeakDetector(&local_reporter);
    // Outside the program window the harness (vf runtime, judge, std containers) runs with cpputest's operator overloads
    // switched OFF, so none of its own memory ever enters the detector's 73-bucket table (hundreds of thousands of
    // long-lived signature nodes would make every table walk slow). Inside the window the harness allocates nothing that
    // outlives the window and releases nothing that was allocated outside it.
    MemoryLeakWarningPlugin::turnOnDefaultNotThreadSafeNewDeleteOverloads();
    size_t residual_before = DET->totalMemoryLeaks(mem_leak_period_enabled);
    char* final_text[2] = { NULL, NULL };
    {
        // fresh plugin objects per program, always at the same addresses (EXPECT_N_LEAKS talks to the first plugin ever
        // constructed: PLUGIN_STORAGE). Each constructor enables the detector it is given.
        MemoryLeakWarningPlugin* first = mode == 1 ? ::new ((void*) PLUGIN_STORAGE) MemoryLeakWarningPlugin("C07LeakPluginOwnDetector", LDET)
                                                   : ::new ((void*) PLUGIN_STORAGE) MemoryLeakWarningPlugin("C07LeakPlugin");
        PL[mode == 1 ? 1 : 0] = first;
        if (mode == 2) PL[1] = ::new ((void*) PLUGIN2_STORAGE) MemoryLeakWarningPlugin("C07LeakPluginOwnDetector", LDET);
        if (G.threadsafe) MemoryLeakWarningPlugin::turnOnThreadSafeNewDeleteOverloads();
        TestRegistry reg;
        bool anyplug = false, anyoutside = false;
        for (int i = G.ntests - 1; i >= 0; i--) { reg.addTest(SH[i]); anyplug |= G.t[i].plugfail != 0; anyoutside |= G.t[i].nops[PH_BEFORE] || G.t[i].nops[PH_AFTER]; }
        for (int i = 0; i < MAX_BY; i++) { BY_PRE[i] = BY_POST[i] = 0; BY[i]->enable(); if (i < nby && !G.by[i].enabled) BY[i]->disable(); }
        auto install_bystanders = [&](int step) { for (int i = 0; i < nby; i++) if (G.by[i].pos == step) reg.installPlugin(BY[i]); };
        install_bystanders(0);
        if (anyplug) reg.installPlugin(FAILPLUGIN);
        install_bystanders(1);
        // head of the chain: first pre action, last post action, as in RunAllTests
        if (mode == 2) { int outer = G.local_outer ? 1 : 0; reg.installPlugin(PL[1 - outer]); install_bystanders(2); reg.installPlugin(MARKER); install_bystanders(3); reg.installPlugin(PL[outer]); }
        else { reg.installPlugin(first); install_bystanders(2); install_bystanders(3); }
        install_bystanders(4);
        if (anyoutside) reg.installPlugin(OUTER);
        install_bystanders(5);
        Recorder out;
        for (int k = 0; k < rep; k++) {
            TestResult tr(out);
            reg.runAllTests(tr);
            RES_fail[k] = tr.getFailureCount(); RES_run[k] = tr.getRunCount();
        }
        cur_run = -1;
        PlatformSpecificRealloc = REAL_REALLOC;
        // the detector's text buffer accumulates until startChecking(): drop the last test's report so that the
        // text returned below is the final report alone (period is `enabled` before and after)
        for (int d = 0; d < 2; d++) if (has[d]) {
            detector_of(d)->startChecking(); detector_of(d)->stopChecking();
            final_text[d] = strdup(PL[d]->FinalReport(0));
        }
        DET->disable();
        if (LDET) LDET->disable();
        MemoryLeakWarningPlugin::turnOnDefaultNotThreadSafeNewDeleteOverloads();
        reg.resetPlugins();
        for (int i = 0; i < MAX_BY; i++) BY[i]->enable();
        for (int d = 0; d < 2; d++) if (has[d]) PL[d]->~MemoryLeakWarningPlugin();
        MemoryLeakWarningPlugin::turnOffNewDeleteOverloads();
    }

    // ---------------- judge (operator overloads off and detectors disabled: std containers are invisible to them)
    Judge J(c);
    bool nontrivial = false;
    static const char* SFX[2] = { "", ":plugin-with-own-detector" };
    if (residual_before) c.violation("harness:residual-blocks-before-program", std::to_string(residual_before) + " enabled-period blocks were live before the program started");
    if (g_misattributed_phase) c.violation("harness:phase-ran-outside-its-test", "a test phase executed while the output reported another current test");
    if (nR != G.ntests * rep) c.violation("harness:tests-run-mismatch", std::to_string(nR) + " tests started, expected " + std::to_string(G.ntests * rep));
    if (g_local_misuse) c.violation("own-detector:misuse-reported", std::to_string(g_local_misuse) + " misuse report(s) from the plugin's own detector although every release matched its allocation, first: " + std::string(LOCAL_MISUSE).substr(0, 300));
    size_t total_fail_seen = 0;
    for (int k = 0; k < rep; k++) total_fail_seen += RES_fail[k];
    if ((int) total_fail_seen != nFR) c.violation("result:failure-count-mismatch", "TestResult counted " + std::to_string(total_fail_seen) + " failures, output received " + std::to_string(nFR));

    for (int i = 0; i < nFR; i++) if (FR[i].run == -1) { c.violation("blame:failure-outside-any-test", std::string(FR[i].name) + ": " + std::string(FR[i].msg).substr(0, 200)); break; }
    for (int r = 0; r < nR; r++) {
        const RunRec& rr = R[r];
        if (rr.test < 0) { c.violation("harness:unknown-test-started", "run " + std::to_string(r)); continue; }
        if (mode == 2 && rr.mark < 0) {
            int dis = 0; for (int i = 0; i < nby; i++) if (!G.by[i].enabled && G.by[i].pos > 2) dis++;
            c.violation("harness:marker-plugin-not-run", "run " + std::to_string(r) + ": the (enabled) plugin between the two leak plugins did not get its post action; disabled plugins ahead of it in the chain: " + std::to_string(dis)); continue; }
        std::vector<const FailRec*> own, other, leak[2];
        // with two leak plugins: failures recorded before the marker's post action belong to the inner plugin, later ones to the outer
        const int inner = mode == 2 ? (G.local_outer ? 0 : 1) : (mode == 1 ? 1 : 0);
        for (int i = 0; i < nFR; i++) if (FR[i].run == r) {
            const char* m = FR[i].msg;
            if (strncmp(m, "Memory leak(s) found.", 21) == 0 || strncmp(m, "No memory leaks were detected.", 30) == 0) leak[mode == 2 ? (i < rr.mark ? inner : 1 - inner) : inner].push_back(&FR[i]);
            else if (strstr(m, OWN_TEXT) || strncmp(m, "Unexpected exception", 20) == 0) own.push_back(&FR[i]);
            else other.push_back(&FR[i]);
        }
        std::string where0 = "run " + std::to_string(r) + " (test " + NAMES[rr.test] + "): own failures " + std::to_string(rr.own_fails);
        if (!other.empty()) { std::string m(other[0]->msg); c.violation("unclassified-failure:" + m.substr(0, std::min(m.find('\n'), (size_t) 48)), where0 + ": " + m.substr(0, 300)); }
        if ((int) own.size() != rr.own_fails) c.violation("harness:own-failure-count", where0 + ": " + std::to_string(own.size()) + " own failures recorded by the output");
        c.count("tests_run");
        if (rr.realloc_failed) c.count("realloc_failures_injected", (uint64_t) rr.realloc_failed);
        if (rr.outside_allocs) c.count("blocks_allocated_between_tests", (uint64_t) rr.outside_allocs);
        if (rr.outside_frees) c.count("blocks_released_between_tests", (uint64_t) rr.outside_frees);
        for (int i = 0; i < nB; i++) if (B[i].owner_run == r && !B[i].outside && B[i].freed_run == r + 1 && B[i].freed_outside) { c.count("tests_whose_leak_is_released_before_the_next_test_starts"); break; }
        if (!(rr.phases & 2)) c.count("tests_body_skipped");

        size_t earlier_failures = (size_t) rr.own_fails;         // failures the test already has when a leak plugin's post action runs
        size_t leaking_detectors = 0;
        for (int step = 0; step < 2; step++) {
            const int d = step == 0 ? inner : 1 - inner;
            if (!has[d]) continue;
            const std::string sfx = SFX[d];
            const bool second_of_two = mode == 2 && step == 1;
            std::set<int> E; size_t earlier_live = 0, between_live = 0;      // earlier_live: blocks of this detector from before this test's window that are still live at its end
            size_t amb_live = 0, amb_live_disabled = 0;                        // own blocks allocated after the test called disable() / enable() on this detector and still outstanding
            for (int i = 0; i < nB; i++) if (B[i].det == d) {
                bool live_at_end = B[i].freed_run == -1 || B[i].freed_run > r;
                if (B[i].owner_run == r && !B[i].outside) { if (B[i].amb) { c.count(B[i].amb == 1 ? "blocks_allocated_in_a_test_after_its_disable_call" : "blocks_allocated_in_a_test_after_its_enable_call"); if (live_at_end) { amb_live++; if (B[i].amb == 1) amb_live_disabled++; } } else if (live_at_end) E.insert(i); }
                else if (live_at_end && (B[i].owner_run < r || (B[i].owner_run == r && B[i].outside == PH_BEFORE))) { earlier_live++; if (B[i].outside) between_live++; }
            }
            unsigned long expected = rr.expect_set[d] ? rr.expect[d] : 0;
            const std::vector<const FailRec*>& lk = leak[d];
            // detector mode calls: evidence, and the one situation that is left unjudged
            if (rr.mode_calls[d]) {
                c.count("verdicts_of_tests_calling_detector_disable_or_enable");
                if (rr.mode_last[d] == 0) { c.count("tests_leaving_the_detector_disabled"); if (rr.failed_while_disabled[d]) c.count("tests_leaving_the_detector_disabled_by_a_failing_check_before_enable"); }
                else if (rr.failed_while_disabled[d]) c.count("tests_failing_while_disabled_but_enabling_later");
                else c.count("tests_with_balanced_or_enable_last_mode_calls");
            }
            if (rr.mode_calls_outside[d]) c.count("detector_mode_calls_between_tests", (uint64_t) rr.mode_calls_outside[d]);
            if (amb_live && earlier_failures == 0 && !rr.ignore[d]) {
                // the count the verdict depends on includes blocks the statement does not clearly assign: no demand on presence or content of a
                // leak failure (more than one is wrong under every reading)
                c.count("verdicts_unjudged_block_allocated_after_own_mode_call_outstanding");
                if (amb_live_disabled) c.count("verdicts_unjudged_block_allocated_while_disabled_outstanding");
                if (lk.size() > 1) c.violation(std::string("verdict:leak-failure-repeated") + SFX[d], where0 + ": " + std::to_string(lk.size()) + " leak failures for one test");
                if (!lk.empty()) c.count("leak_failures_observed_in_unjudged_verdicts");
                earlier_failures += lk.size();
                continue;
            }
            bool want = earlier_failures == 0 && !rr.ignore[d] && E.size() != expected;
            bool suppressed_by_inner = second_of_two && rr.own_fails == 0 && earlier_failures != 0 && !rr.ignore[d] && E.size() != expected;
            std::string where = where0 + (mode == 0 ? "" : d ? " [plugin with its own detector" : " [plugin on the global detector") + (mode == 2 ? (second_of_two ? ", outer of two leak plugins" : ", inner of two leak plugins") : "") + (mode == 0 ? "" : "]") +
                                (second_of_two ? ", leak failures of the inner plugin " + std::to_string(earlier_failures - (size_t) rr.own_fails) : std::string()) +
                                ", ignore " + std::to_string(rr.ignore[d]) + ", expected " + (rr.expect_set[d] ? std::to_string(rr.expect[d]) : std::string("default 0")) +
                                ", outstanding own blocks " + std::to_string(E.size()) + ", released blocks of earlier tests " + std::to_string(rr.freed_earlier[d]) + ", blocks from before this test still live " + std::to_string(earlier_live) + (between_live ? " (" + std::to_string(between_live) + " of them allocated between tests)" : std::string());
            if (rr.mode_before[d] >= 0) where += std::string(", last detector mode call before this test: ") + (rr.mode_before[d] ? "enable()" : "disable()");
            if (rr.mode_calls[d]) where += ", the test itself made " + std::to_string(rr.mode_calls[d]) + " disable()/enable() call(s), the last one " + (rr.mode_last[d] ? "enable()" : "disable()");
            std::string decl = rr.expect_set[d] ? "declared" : "default";
            // would the observed verdict be right if a realloc'ed block still belonged to the test that first allocated it? (diagnostic suffix only)
            size_t adopted = 0; for (int bi : E) if (B[bi].adopted) adopted++;
            bool want_alt = earlier_failures == 0 && !rr.ignore[d] && E.size() - adopted != expected;
            std::string alt = (adopted && want_alt == !lk.empty()) ? ":consistent-if-realloc-of-earlier-tests-block-is-not-an-allocation" : "";
            if (adopted) c.count("tests_leaking_realloc_of_earlier_tests_block");
            // bystander plugins relative to THIS leak plugin: "ahead" = installed after it = closer to the head of the chain
            // (their post action runs after the leak plugin's; the post-action call reaches the leak plugin through them)
            const int my_step = second_of_two ? 3 : 1;
            int dis_ahead = 0, dis_behind = 0, en_ahead = 0, en_behind = 0;
            for (int i = 0; i < nby; i++) { bool ahead = G.by[i].pos > my_step; if (G.by[i].enabled) (ahead ? en_ahead : en_behind)++; else (ahead ? dis_ahead : dis_behind)++; }
            if (nby) where += ", bystander plugins ahead of this leak plugin in the chain: " + std::to_string(en_ahead) + " enabled / " + std::to_string(dis_ahead) + " disabled, behind it: " + std::to_string(en_behind) + " enabled / " + std::to_string(dis_behind) + " disabled";
            // verdict
            if (lk.size() > 1) c.violation("verdict:leak-failure-repeated" + sfx, where + ": " + std::to_string(lk.size()) + " leak failures for one test");
            if (want && lk.empty()) {
                std::string k = "verdict:leak-failure-missing:" + std::string(E.size() > expected ? "more-than-" : "fewer-than-") + decl + (rr.freed_earlier[d] ? ":released-earlier-tests-blocks" : "") + alt + (dis_ahead ? ":leak-plugin-behind-a-disabled-plugin" : "") + (rr.mode_before[d] == 0 ? ":detector-disable-called-before-this-test" : "") + sfx;
                c.violation(k, where);
            }
            if (!want && !lk.empty()) {
                std::string reason = rr.own_fails ? "test-already-failed" : earlier_failures ? "other-leak-plugin-already-failed-the-test" : rr.ignore[d] ? "leaks-ignored" : "count-equals-" + decl;
                Parsed P = parse_report(lk[0]->msg);
                bool earlier = false, between = false;
                for (const Entry& e : P.e) { auto it = J.by_num.find(Judge::key(d, e.num)); if (it == J.by_num.end()) continue; if (B[it->second].outside) between = true; else if (B[it->second].owner_run < r) earlier = true; }
                c.violation("verdict:leak-failure-spurious:" + reason + (earlier ? ":blames-earlier-tests-blocks" : "") + (between ? ":blames-blocks-allocated-between-tests" : "") + alt + sfx, where + ": " + std::string(lk[0]->msg).substr(0, 400));
            }
            if (!lk.empty()) {
                const FailRec* f = lk[0];
                if (strcmp(f->nameonly, NAMES[rr.test]) != 0 || !strstr(f->name, GROUPS[rr.test])) c.violation("blame:leak-failure-names-other-test" + sfx, where + ": failure is attributed to " + f->name);
                if (strcmp(f->file, FILES[rr.test]) != 0 || f->line != SH[rr.test]->getLineNumber()) c.violation("blame:leak-failure-location" + sfx, where + ": failure located at " + std::string(f->file) + ":" + std::to_string(f->line));
                if (want) J.check_report("report:", sfx, d, f->msg, E, r, where);
                c.count("leak_failures_observed");
                if (d) c.count("own_detector_leak_failures_observed");
            }
            // evidence (verdict counters are per plugin verdict: a test under two leak plugins contributes two)
            if (want) c.count(E.size() > expected ? "verdict_leak_more_than_expected" : "verdict_leak_fewer_than_expected");
            else if (earlier_failures) c.count(E.empty() ? "verdict_failed_test_clean" : "verdict_failed_test_with_outstanding_blocks");
            else if (rr.ignore[d]) c.count(E.empty() ? "verdict_ignore_clean" : "verdict_ignore_with_outstanding_blocks");
            else c.count(expected ? "verdict_pass_expected_count_met" : "verdict_pass_clean");
            if (rr.mode_before[d] == 0) {
                // the situation in which "the window opens at the pre action whatever happened before" is put to the test
                const char* what = want ? (E.size() > expected ? "leak_more" : "leak_fewer") : earlier_failures ? "failed_test" : rr.ignore[d] ? "ignore" : "pass";
                c.count(std::string("verdict_after_detector_disable_call_") + what);
                if (want && !E.empty() && !lk.empty()) c.count("leak_failures_observed_after_detector_disable_call");
                if (r > 0 && R[r - 1].mode_calls[d] && R[r - 1].mode_last[d] == 0 && rr.mode_pre_last[d] < 0) c.count(std::string("verdict_right_after_a_test_that_left_the_detector_disabled_") + what);
                if (rr.mode_pre_last[d] == 0) c.count(std::string("verdict_after_disable_call_in_the_code_just_before_the_test_") + what);
            }
            if (rr.mode_calls[d]) { c.count("verdicts_judged_in_tests_calling_detector_disable_or_enable"); if (want && !E.empty()) c.count("leak_verdicts_for_blocks_allocated_before_the_tests_own_mode_call"); }
            if (rr.freed_earlier[d]) c.count("tests_releasing_earlier_tests_blocks");
            if (rr.freed_earlier[d] && !E.empty()) { c.count("tests_releasing_earlier_and_leaking_own"); nontrivial = true; }
            if (rr.freed_earlier[d] && (size_t) rr.freed_earlier[d] == E.size()) c.count("tests_release_exactly_offsets_leak");
            if (rr.expect_set[d] && rr.expect[d] > 0) { c.count("tests_declaring_nonzero_expectation"); nontrivial = true; }
            if (rr.plugin_fails) c.count(E.empty() ? "tests_failed_by_other_plugin_clean" : "tests_failed_by_other_plugin_with_outstanding_blocks");
            for (int bi : E) c.count(std::string("leaked_kind_") + KIND_NAME[B[bi].kind]);
            if (between_live) {
                c.count("verdicts_with_blocks_allocated_between_tests_live");
                if (!want && earlier_failures == 0 && !rr.ignore[d]) c.count("verdict_pass_while_blocks_allocated_between_tests_live");
                if (want && !E.empty()) c.count("leak_reports_while_blocks_allocated_between_tests_live");
            }
            if (d) {
                // the situations that tell "the plugin worked on its own detector" from "it worked on the global one"
                c.count("own_detector_verdicts");
                if (earlier_live) {
                    c.count("own_detector_verdicts_with_earlier_tests_blocks_live");
                    if (!want && earlier_failures == 0 && !rr.ignore[d]) c.count(expected ? "own_detector_count_met_while_earlier_blocks_live" : "own_detector_clean_pass_while_earlier_blocks_live");
                    if (want && !E.empty()) c.count("own_detector_leak_reports_while_earlier_blocks_live");
                }
                if (rr.freed_earlier[d] && !E.empty()) c.count("own_detector_tests_releasing_earlier_and_leaking_own");
                if (want) c.count("own_detector_verdict_leak");
            }
            if (nby) {
                const char* what = want ? (E.size() > expected ? "leak_more" : "leak_fewer") : earlier_failures ? "failed_test" : rr.ignore[d] ? "ignore" : "pass";
                if (dis_ahead) c.count(std::string("bystander_disabled_ahead_of_leak_plugin_verdict_") + what);
                if (dis_behind) c.count(std::string("bystander_disabled_behind_leak_plugin_verdict_") + what);
                if (en_ahead) c.count(std::string("bystander_enabled_ahead_of_leak_plugin_verdict_") + what);
                if (en_behind) c.count(std::string("bystander_enabled_behind_leak_plugin_verdict_") + what);
                if (dis_ahead && want && !lk.empty()) c.count("leak_failures_delivered_through_disabled_plugin");
                if (dis_ahead && earlier_live && !E.empty() && want) c.count("bystander_disabled_ahead_leak_report_while_earlier_blocks_live");
            }
            if (mode == 2) {
                c.count(d ? "two_plugins_verdicts_own_detector" : "two_plugins_verdicts_global_detector");
                if (!E.empty()) leaking_detectors++;
                if (suppressed_by_inner) c.count(d ? "two_plugins_outer_own_detector_verdict_suppressed_by_inner_leak_failure" : "two_plugins_outer_global_verdict_suppressed_by_inner_leak_failure");
                if (want && second_of_two) c.count("two_plugins_outer_leak_verdict_after_silent_inner");
            }
            earlier_failures += lk.size();
        }
        if (mode == 2) {
            if (leaking_detectors == 2) c.count("two_plugins_tests_leaking_on_both_detectors");
            else if (leaking_detectors == 1) c.count("two_plugins_tests_leaking_on_one_detector_only");
        }
    }
    // final report, per plugin: the blocks of its detector that are still live
    for (int d = 0; d < 2; d++) if (has[d]) {
        const std::string pfx = "final-report:", sfx = SFX[d];
        std::set<int> L; size_t amb_final = 0;
        for (int i = 0; i < nB; i++) if (B[i].det == d && B[i].freed_run == -1) { L.insert(i); if (B[i].amb) amb_final++; }
        bool any_mode = false; for (int r = 0; r < nR; r++) any_mode |= R[r].mode_calls[d] || R[r].mode_calls_outside[d];
        if (amb_final) { c.count("final_reports_unjudged_block_allocated_after_mode_call_live"); continue; }
        if (any_mode) c.count("final_reports_judged_in_programs_with_detector_mode_calls");
        if (L.empty()) {
            if (final_text[d][0]) c.violation(pfx + "not-empty-though-nothing-outstanding" + sfx, std::string(final_text[d]).substr(0, 300));
            c.count("final_reports_empty");
        } else {
            if (!final_text[d][0]) c.violation(pfx + "empty-though-blocks-outstanding" + sfx, std::to_string(L.size()) + " blocks are still live at the end of the program");
            else J.check_report(pfx, sfx, d, final_text[d], L, nR, std::string("final report ") + (d ? "of the plugin with its own detector " : "") + "after " + std::to_string(nR) + " tests");
            c.count("final_reports_with_leaks");
            if (d) c.count("own_detector_final_reports_with_leaks");
        }
    }
    c.count(mode == 0 ? "programs_global_detector" : mode == 1 ? "programs_plugin_with_own_detector" : G.local_outer ? "programs_two_leak_plugins_own_detector_outer" : "programs_two_leak_plugins_global_detector_outer");
    c.count("programs");
    if (nby) {
        c.count("programs_with_bystander_plugins");
        bool anydis = false;
        for (int i = 0; i < nby; i++) {
            const bool en = G.by[i].enabled != 0;
            c.count(std::string(en ? "bystander_enabled_at_" : "bystander_disabled_at_") + BYPOS_NAME[G.by[i].pos]);
            anydis |= !en;
            // what the bystanders themselves saw is evidence only (who gets actions is C17's property)
            if (en) { c.count("bystander_actions_received_while_enabled", BY_PRE[i] + BY_POST[i]); if (BY_PRE[i] != (uint64_t) nR || BY_POST[i] != (uint64_t) nR) c.count("bystander_enabled_action_count_differs_from_tests_run"); }
            else if (BY_PRE[i] + BY_POST[i]) c.count("bystander_actions_received_while_disabled", BY_PRE[i] + BY_POST[i]);
        }
        if (anydis) c.count("programs_with_disabled_bystander_plugin");
        if (anydis && rep > 1) c.count("programs_repeated_with_disabled_bystander_plugin");
    }
    for (int i = 0; i < O_N; i++) if (OPC[i]) c.count(std::string("op_") + OP_NAME[i], OPC[i]);
    for (int i = 0; i < K_N; i++) if (KINDC[i]) c.count(std::string("alloc_") + KIND_NAME[i], KINDC[i]);
    if (g_skipped_ops) c.count("ops_skipped_slot_state", g_skipped_ops);
    if (g_alloc_null) c.violation("harness:allocation-returned-null", std::to_string(g_alloc_null) + " allocations returned NULL");
    if (g_ledger_full) c.count("ledger_full", g_ledger_full);
    if (G.threadsafe) c.count("programs_threadsafe_overloads");
    { bool any_mode = false; for (int r = 0; r < nR; r++) for (int d = 0; d < 2; d++) any_mode |= R[r].mode_calls[d] || R[r].mode_calls_outside[d]; if (any_mode) c.count("programs_with_detector_mode_calls"); }
    if (rep > 1) c.count("programs_repeated");
    if (nontrivial) { char hb[40]; snprintf(hb, sizeof hb, "%016llx", (unsigned long long) program_hash(G)); c.nontrivial(hb); }

    // ---------------- cleanup: release everything still live, detectors stay disabled
    MemoryLeakWarningPlugin::turnOnDefaultNotThreadSafeNewDeleteOverloads();
    int misuse_before_sweep = g_local_misuse;
    release_leftovers();
    size_t residual = DET->totalMemoryLeaks(mem_leak_period_enabled);
    if (residual) DET->clearAllAccounting(mem_leak_period_enabled);
    size_t residual_own = LDET ? LDET->totalMemoryLeaks(mem_leak_period_all) : 0;
    MemoryLeakWarningPlugin::turnOffNewDeleteOverloads();
    if (LDET) { LDET->~MemoryLeakDetector(); LDET = NULL; }
    PL[0] = PL[1] = NULL;
    if (g_sweep_failures) c.violation("harness:misuse-reported-while-releasing-leftover-blocks", std::to_string(g_sweep_failures) + " failure(s), first: " + std::string(SWEEP_MSG).substr(0, 300));
    if (g_local_misuse != misuse_before_sweep) c.violation("own-detector:misuse-reported-while-releasing-leftover-blocks", std::string(LOCAL_MISUSE).substr(0, 300));
    if (residual) c.violation("harness:residual-blocks-after-cleanup", std::to_string(residual) + " enabled-period blocks remain after every script block was released");
    if (residual_own) c.violation("own-detector:residual-blocks-after-cleanup", std::to_string(residual_own) + " blocks remain in the plugin's own detector after every script block was released");
    for (int i = 0; i < nFR; i++) { free(FR[i].name); free(FR[i].nameonly); free(FR[i].file); free(FR[i].msg); }
    free(final_text[0]); free(final_text[1]);
    nFR = 0;
}

// ------------------------------------------------------------------ generators
static void clear_program(int ntests) {
    G.ntests = ntests; G.repeat = 1; G.nslots = 16; G.profile = 0; G.threadsafe = false; G.detmode = 0; G.local_outer = false; G.nby = 0; memset(G.by, 0, sizeof G.by);
    for (int t = 0; t < ntests; t++) memset(&G.t[t], 0, sizeof(TestScript));
}
static void push(int t, int ph, OpRec o) { TestScript& ts = G.t[t]; if (ts.nops[ph] < MAX_OPS) ts.ops[ph][ts.nops[ph]++] = o; }
static void insert_at(int t, int ph, int pos, OpRec o) {
    TestScript& ts = G.t[t]; if (ts.nops[ph] >= MAX_OPS) return;
    for (int i = ts.nops[ph]; i > pos; i--) ts.ops[ph][i] = ts.ops[ph][i - 1];
    ts.ops[ph][pos] = o; ts.nops[ph]++;
}
// OpRec::pad: with two leak plugins (detmode 2), 1 = the operation is addressed to the plugin with its own detector
static OpRec mk(int op, int slot = 0, int kind = 0, unsigned size = 0, unsigned arg = 0, int det = 0) { OpRec o; o.op = (uint8_t) op; o.slot = (uint8_t) slot; o.kind = (uint8_t) kind; o.pad = (uint8_t) det; o.size = (uint16_t) size; o.arg = (uint16_t) arg; return o; }

struct Prof { int w_alloc, w_free_own, w_free_old, w_realloc, w_realloc_fail, w_temp, w_check; int p_fail, p_ignore, p_expect; int max_ops; };
static const Prof PROFILES[] = {
    /* 0 general      */ { 34, 18, 16, 9, 3, 6, 4,   22, 8, 45,  4 },
    /* 1 offsetting   */ { 40, 6, 40, 6, 0, 4, 4,     4, 2, 10,  4 },
    /* 2 expectations */ { 45, 15, 12, 6, 1, 4, 2,   10, 6, 90,  3 },
    /* 3 failing      */ { 40, 12, 14, 6, 2, 4, 6,   65, 8, 40,  3 },
    /* 4 realloc      */ { 25, 8, 10, 40, 8, 4, 2,   10, 4, 30,  5 },
};

static int pick_kind(vf::Rng& r, int profile) {
    if (profile == 4) { static const int ks[] = { K_MALLOC, K_CALLOC, K_STRDUP, K_STRNDUP, K_REALLOC, K_MALLOC, K_NEWA }; return r.pick(ks); }
    return (int) r.below(K_N);
}
static unsigned pick_size(vf::Rng& r) {
    switch (r.below(8)) { case 0: return (unsigned) r.below(3); case 1: return 15 + (unsigned) r.below(4); case 2: return 31 + (unsigned) r.below(3); default: return 1 + (unsigned) r.below(40); }
}

// generator-side prediction of the slot table (workload shaping only; the oracle uses the ledger of what really executed)
struct GenState { int occ[MAX_SLOTS]; int fam[MAX_SLOTS]; int det[MAX_SLOTS]; };

static void gen_test(vf::Rng& r, const Prof& pf, int profile, int t, GenState& gs) {
    const bool two = G.detmode == 2;                             // no extra draws in the single-plugin modes
    auto pick_det = [&]() { return two ? (int) r.below(2) : 0; };
    int fail_ph = -1, fail2_ph = -1;
    if (r.chance(pf.p_fail)) { fail_ph = (int) r.below(3); if (fail_ph < 2 && r.chance(25)) fail2_ph = 2; }
    int alive_len[3] = { 0, 0, 0 };
    bool body_dead = false;
    for (int ph = 0; ph < 3; ph++) {
        int n = r.chance(15) ? 0 : r.range(0, pf.max_ops);
        int fail_at = (ph == fail_ph || ph == fail2_ph) ? r.range(0, n) : -1;
        bool dead = ph == 1 && body_dead;
        for (int i = 0; i <= n; i++) {
            if (i == fail_at) {
                push(t, ph, mk(O_FAIL, 0, (int) r.below(F_N)));
                if (!dead) { alive_len[ph] = G.t[t].nops[ph] - 1; dead = true; if (ph == 0) body_dead = true; }
                if (i == n) break;
                if (r.chance(60)) break;                  // mostly nothing after the failing statement, sometimes dead code
            }
            if (i == n) break;
            int tot = pf.w_alloc + pf.w_free_own + pf.w_free_old + pf.w_realloc + pf.w_realloc_fail + pf.w_temp + pf.w_check;
            int w = (int) r.below((uint64_t) tot);
            int choice;
            if ((w -= pf.w_alloc) < 0) choice = 0; else if ((w -= pf.w_free_own) < 0) choice = 1; else if ((w -= pf.w_free_old) < 0) choice = 2;
            else if ((w -= pf.w_realloc) < 0) choice = 3; else if ((w -= pf.w_realloc_fail) < 0) choice = 4; else if ((w -= pf.w_temp) < 0) choice = 5; else choice = 6;
            int cand[MAX_SLOTS]; int nc = 0;
            auto collect = [&](int what) { nc = 0; for (int s = 0; s < G.nslots; s++) { bool ok = what == 0 ? gs.occ[s] < 0 : what == 1 ? gs.occ[s] == t : what == 2 ? (gs.occ[s] >= 0 && gs.occ[s] != t) : (gs.occ[s] >= 0 && gs.fam[s] == 2); if (ok) cand[nc++] = s; } };
            if (choice == 1) { collect(1); if (!nc) choice = 0; }
            if (choice == 2) { collect(2); if (!nc) choice = 0; }
            if (choice == 3 || choice == 4) { collect(3); if (!nc) { if (choice == 3 && r.chance(50)) { collect(0); if (nc) { int s = cand[r.below((uint64_t) nc)]; int d = pick_det(); push(t, ph, mk(O_REALLOC, s, 0, 1 + (unsigned) r.below(40), 0, d)); if (!dead) { gs.occ[s] = t; gs.fam[s] = 2; gs.det[s] = d; } continue; } } choice = 0; } }
            if (choice == 0) { collect(0); if (!nc) { collect(1); if (!nc) collect(2); choice = nc ? 1 : 6; } }
            switch (choice) {
            case 0: { int s = cand[r.below((uint64_t) nc)]; int k = pick_kind(r, profile); unsigned sz = pick_size(r); int d = pick_det(); push(t, ph, mk(O_ALLOC, s, k, sz, 0, d)); if (!dead) { gs.occ[s] = t; gs.fam[s] = family(k); gs.det[s] = d; } break; }
            case 1: case 2: { int s = cand[r.below((uint64_t) nc)]; push(t, ph, mk(O_FREE, s)); if (!dead) gs.occ[s] = -1; break; }
            case 3: { int s = cand[r.below((uint64_t) nc)]; push(t, ph, mk(O_REALLOC, s, 0, 1 + (unsigned) r.below(44))); if (!dead) gs.occ[s] = t; break; }
            case 4: { int s = cand[r.below((uint64_t) nc)]; push(t, ph, mk(O_REALLOC_FAIL, s, 0, 1 + (unsigned) r.below(44))); break; }
            case 5: { unsigned sz = pick_size(r); int k = pick_kind(r, profile); push(t, ph, mk(O_TEMP, 0, k, sz, 0, pick_det())); break; }
            default: push(t, ph, mk(O_CHECK)); break;
            }
        }
        if (!dead) alive_len[ph] = G.t[t].nops[ph];
        if (ph == 1 && body_dead) alive_len[ph] = -1;      // body never runs
    }
    auto place = [&](OpRec o) {
        int ph; do ph = (int) r.below(3); while (alive_len[ph] < 0);
        bool deadzone = r.chance(6) && G.t[t].nops[ph] > alive_len[ph];
        int pos = deadzone ? G.t[t].nops[ph] : r.range(0, alive_len[ph]);
        insert_at(t, ph, pos, o);
        if (!deadzone) alive_len[ph]++;
    };
    for (int d = 0; d < (two ? 2 : 1); d++) {                    // declarations per leak plugin, shaped around the predicted number of its own leaks
        int L = 0; for (int s = 0; s < G.nslots; s++) if (gs.occ[s] == t && (!two || gs.det[s] == d)) L++;
        if (r.chance(pf.p_expect)) {
            unsigned n;
            switch (r.below(20)) {
            case 0: case 1: case 2: case 3: case 4: case 5: case 6: case 7: n = (unsigned) L; break;
            case 8: case 9: case 10: case 11: n = (unsigned) L + 1; break;
            case 12: case 13: case 14: n = L > 0 ? (unsigned) L - 1 : 2; break;
            case 15: case 16: n = (unsigned) r.below(6); break;
            case 17: n = 0; break;
            case 18: n = 7 + (unsigned) r.below(3); break;
            default: n = 100 + (unsigned) r.below(60000); break;
            }
            if (r.chance(12)) place(mk(O_EXPECT, 0, 0, 0, (unsigned) r.below(5), d));    // an earlier declaration that the later one replaces (usually)
            place(mk(O_EXPECT, 0, 0, 0, n, d));
        }
        if (r.chance(pf.p_ignore)) place(mk(O_IGNORE, 0, 0, 0, 0, d));
    }
    if (r.chance(profile == 3 ? 12 : 3)) G.t[t].plugfail = (uint8_t) (1 + r.below(2));
}

static void gen_random_program(vf::Ctx& c, int profile, int max_tests, int detmode = 0, int mode_pct = 15) {
    vf::Rng& r = c.rng;
    int nt;
    switch (r.below(4)) { case 0: nt = r.range(1, 3); break; case 1: nt = r.range(2, 6); break; default: nt = r.range(1, max_tests); break; }
    clear_program(nt);
    G.profile = profile; G.detmode = detmode;
    if (detmode == 2) G.local_outer = r.chance(50);
    G.nslots = r.range(3, 16);
    G.repeat = r.chance(80) ? 1 : r.chance(75) ? 2 : 3;
    G.threadsafe = r.chance(15);
    GenState gs; for (int s = 0; s < MAX_SLOTS; s++) { gs.occ[s] = -1; gs.fam[s] = 0; gs.det[s] = 0; }
    for (int t = 0; t < nt; t++) gen_test(r, PROFILES[profile], profile, t, gs);
    // code between the tests (drawn after everything else: the test scripts of a given (seed, index) do not depend on it).
    // Blocks allocated there live in reserved slots that no test script addresses; releases may hit those or whatever a test
    // left in its slots (also the block the test that just ended has leaked: it stays that test's leak).
    if (r.chance(30)) for (int t = 0; t < nt; t++) for (int ph = PH_BEFORE; ph <= PH_AFTER; ph++) {
        if (!r.chance(45)) continue;
        int n = r.range(1, 3);
        for (int i = 0; i < n; i++) {
            int d = detmode == 2 ? (int) r.below(2) : 0;
            switch (r.below(8)) {
            case 0: case 1: case 2: case 3: { int k = pick_kind(r, profile); push(t, ph, mk(O_ALLOC, FIRST_OUTSIDE_SLOT + (int) r.below(4), k, pick_size(r), 0, d)); break; }
            case 4: case 5: push(t, ph, mk(O_FREE, FIRST_OUTSIDE_SLOT + (int) r.below(4))); break;
            case 6: push(t, ph, mk(O_FREE, (int) r.below((uint64_t) G.nslots))); break;
            default: { int k = pick_kind(r, profile); push(t, ph, mk(O_TEMP, 0, k, pick_size(r), 0, d)); break; }
            }
        }
    }
    // bystander plugins (drawn last of all, for the same reason): 1..3 of them anywhere in the chain, each enabled or disabled
    if (r.chance(30)) {
        G.nby = r.chance(50) ? 1 : r.chance(60) ? 2 : 3;
        for (int i = 0; i < G.nby; i++) { G.by[i].pos = (uint8_t) r.below(N_BYPOS); G.by[i].enabled = (uint8_t) (r.chance(55) ? 0 : 1); }
    }
    // detector mode calls (drawn after everything else again): 1..3 events, each a disable()/enable() shape put into one test's scripts or
    // into the code between tests. Failing statements that the scripts already contain land between a disable() and its enable() by themselves.
    if (r.chance(mode_pct)) {
        int ne = r.range(1, 3);
        for (int e = 0; e < ne; e++) {
            int t = (int) r.below((uint64_t) nt); int d = detmode == 2 ? (int) r.below(2) : 0;
            const OpRec dis = mk(O_DISABLE, 0, 0, 0, 0, d), en = mk(O_ENABLE, 0, 0, 0, 0, d);
            switch (r.below(9)) {
            case 0: case 1: {                                    // bracket inside one phase, case 1: with a failing check of its own in between
                bool with_fail = r.below(2) == 1; int ph = (int) r.below(3); int n = G.t[t].nops[ph]; int i = r.range(0, n); int j = r.range(i, n);
                insert_at(t, ph, j, en); if (with_fail) insert_at(t, ph, j, mk(O_FAIL, 0, (int) r.below(F_N))); insert_at(t, ph, i, dis); break; }
            case 2: {                                            // bracket across phases
                int a = (int) r.below(2); int b = a + 1 + (int) r.below((uint64_t) (2 - a));
                insert_at(t, a, r.range(0, G.t[t].nops[a]), dis); insert_at(t, b, r.range(0, G.t[t].nops[b]), en); break; }
            case 3: case 4: { int ph = (int) r.below(3); insert_at(t, ph, r.range(0, G.t[t].nops[ph]), dis); break; }      // disable() without enable()
            case 5: { int ph = (int) r.below(3); insert_at(t, ph, r.range(0, G.t[t].nops[ph]), en); break; }               // enable() alone
            case 6: case 7: {                                    // in the code between tests
                int ph = r.chance(50) ? PH_BEFORE : PH_AFTER; int n = G.t[t].nops[ph]; int i = r.range(0, n);
                if (r.chance(35)) insert_at(t, ph, r.range(i, n), en);
                insert_at(t, ph, i, dis); break; }
            default: insert_at(t, 0, 0, dis); if (r.chance(50)) push(t, 2, en); break;                                   // the whole test, from the first statement of setup
            }
        }
    }
}

static void sec_random(vf::Ctx& c) {
    int profile = c.rng.chance(50) ? 0 : 1 + (int) c.rng.below(4);
    gen_random_program(c, profile, c.thorough ? 40 : 12);
    run_and_judge(c);
}
static void sec_offset(vf::Ctx& c) {
    gen_random_program(c, 1, c.thorough ? 24 : 10);
    G.repeat = 1;
    run_and_judge(c);
}

// the same program space with the leak plugin on a detector of its own, and with two leak plugins (one per detector)
static void sec_own_detector(vf::Ctx& c) {
    int profile = c.rng.chance(40) ? 0 : 1 + (int) c.rng.below(4);
    gen_random_program(c, profile, c.thorough ? 30 : 12, 1);
    run_and_judge(c);
}
static void sec_two_plugins(vf::Ctx& c) {
    int profile = c.rng.chance(40) ? 0 : 1 + (int) c.rng.below(4);
    gen_random_program(c, profile, c.thorough ? 30 : 12, 2);
    run_and_judge(c);
}

// verdict matrix: one subject test between a leaking predecessor and clean successors, every combination enumerated
static const int MX_KINDS[] = { K_NEW_LOC, K_NEWA, K_MALLOC, K_STRDUP };
enum { MX_L = 4, MX_PH = 3, MX_EXP = 6, MX_IGN = 2, MX_FAIL = 5, MX_FE = 3, MX_K = 4, MX_DET = 2 };     // MX_DET: plugin on the global detector / on its own detector
static const uint64_t MX_TOTAL = (uint64_t) MX_L * MX_PH * MX_EXP * MX_IGN * MX_FAIL * MX_FE * MX_K * MX_DET;
static void sec_matrix(vf::Ctx& c) {
    uint64_t i = c.idx;
    int L = (int) (i % MX_L); i /= MX_L; int ph = (int) (i % MX_PH); i /= MX_PH; int ex = (int) (i % MX_EXP); i /= MX_EXP; int ign = (int) (i % MX_IGN); i /= MX_IGN;
    int fl = (int) (i % MX_FAIL); i /= MX_FAIL; int fe = (int) (i % MX_FE); i /= MX_FE; int kind = MX_KINDS[i % MX_K]; i /= MX_K;
    clear_program(4); G.profile = 10; G.nslots = 8; G.detmode = (int) (i % MX_DET);
    push(0, 1, mk(O_ALLOC, 0, kind, 9)); push(0, 1, mk(O_ALLOC, 1, kind, 17));              // predecessor leaks two blocks (and is reported for them)
    if (ign) push(1, 0, mk(O_IGNORE));
    if (ex) push(1, 0, mk(O_EXPECT, 0, 0, 0, (unsigned) ex - 1));
    for (int k = 0; k < L; k++) push(1, ph, mk(O_ALLOC, 2 + k, kind, 5 + 6 * (unsigned) k));
    for (int k = 0; k < fe; k++) push(1, 2, mk(O_FREE, k));                                  // subject releases blocks of the predecessor in teardown
    if (fl) push(1, fl == 4 ? 1 : fl - 1, mk(O_FAIL, 0, fl == 4 ? F_FAIL_C : fl == 2 ? F_CHECK : F_FAIL));
    push(2, 1, mk(O_ALLOC, 5, kind, 12)); push(2, 2, mk(O_FREE, 5));                         // clean successor
    for (int s = 0; s < 5; s++) push(3, 1, mk(O_FREE, s));                                   // sweeper: releases everything earlier tests left, leaks nothing
    run_and_judge(c);
}

// two leak plugins, one per detector: every combination of (#blocks leaked on each detector) x (declaration given to each
// plugin) x (ignore given to each) x own failure x chain order x which detector's earlier blocks the subject releases,
// around a predecessor that leaks on both detectors and clean successors
enum { TP_L = 3, TP_EXP = 4, TP_IGN = 2, TP_FAIL = 2, TP_ORD = 2, TP_FE = 4 };
static const uint64_t TP_TOTAL = (uint64_t) TP_L * TP_L * TP_EXP * TP_EXP * TP_IGN * TP_IGN * TP_FAIL * TP_ORD * TP_FE;
static void sec_two_plugin_matrix(vf::Ctx& c) {
    uint64_t i = c.idx;
    int L[2], ex[2], ign[2];
    L[0] = (int) (i % TP_L); i /= TP_L; L[1] = (int) (i % TP_L); i /= TP_L;
    ex[0] = (int) (i % TP_EXP); i /= TP_EXP; ex[1] = (int) (i % TP_EXP); i /= TP_EXP;
    ign[0] = (int) (i % TP_IGN); i /= TP_IGN; ign[1] = (int) (i % TP_IGN); i /= TP_IGN;
    int fl = (int) (i % TP_FAIL); i /= TP_FAIL; int ord = (int) (i % TP_ORD); i /= TP_ORD; int fe = (int) (i % TP_FE);
    clear_program(4); G.profile = 12; G.nslots = 12; G.detmode = 2; G.local_outer = ord != 0;
    static const int kinds[2] = { K_NEWA, K_MALLOC };
    for (int d = 0; d < 2; d++) push(0, 1, mk(O_ALLOC, d, kinds[d], 9 + 8 * (unsigned) d, 0, d));      // predecessor: one block on each detector (slots 0, 1)
    for (int d = 0; d < 2; d++) {
        if (ign[d]) push(1, 0, mk(O_IGNORE, 0, 0, 0, 0, d));
        if (ex[d]) push(1, 0, mk(O_EXPECT, 0, 0, 0, (unsigned) ex[d] - 1, d));
        for (int k = 0; k < L[d]; k++) push(1, 1, mk(O_ALLOC, 2 + 2 * d + k, kinds[(d + k) % 2], 5 + 6 * (unsigned) k, 0, d));
    }
    if (fe & 1) push(1, 2, mk(O_FREE, 0));                                                   // subject releases the predecessor's global / own-detector block
    if (fe & 2) push(1, 2, mk(O_FREE, 1));
    if (fl) push(1, 1, mk(O_FAIL, 0, F_CHECK));
    push(2, 1, mk(O_ALLOC, 8, K_NEW, 12, 0, 0)); push(2, 1, mk(O_ALLOC, 9, K_STRDUP, 12, 0, 1)); push(2, 2, mk(O_FREE, 8)); push(2, 2, mk(O_FREE, 9));   // clean successor
    for (int s = 0; s < 6; s++) push(3, 1, mk(O_FREE, s));                                   // sweeper
    run_and_judge(c);
}

// chain shapes: every placement of one or two bystander plugins (6 positions x enabled / disabled each) x the four detector /
// leak-plugin configurations x a small verdict matrix (#leaked 0..2 x declaration unset / 1 x own failure x code between tests)
enum { BC_CFG = 4, BC_A = N_BYPOS * 2, BC_B = N_BYPOS * 2 + 1, BC_L = 3, BC_EXP = 2, BC_FAIL = 2, BC_OUT = 2 };
static const uint64_t BC_TOTAL = (uint64_t) BC_CFG * BC_A * BC_B * BC_L * BC_EXP * BC_FAIL * BC_OUT;
static void sec_bystander_matrix(vf::Ctx& c) {
    uint64_t i = c.idx;
    int L = (int) (i % BC_L); i /= BC_L; int ex = (int) (i % BC_EXP); i /= BC_EXP; int fl = (int) (i % BC_FAIL); i /= BC_FAIL; int outside = (int) (i % BC_OUT); i /= BC_OUT;
    int a = (int) (i % BC_A); i /= BC_A; int b = (int) (i % BC_B); i /= BC_B; int cfg = (int) (i % BC_CFG);
    clear_program(4); G.profile = 13; G.nslots = 12;
    G.detmode = cfg >= 2 ? 2 : cfg; G.local_outer = cfg == 3;
    G.nby = b ? 2 : 1;
    G.by[0].pos = (uint8_t) (a % N_BYPOS); G.by[0].enabled = (uint8_t) (a / N_BYPOS);
    if (b) { G.by[1].pos = (uint8_t) ((b - 1) % N_BYPOS); G.by[1].enabled = (uint8_t) ((b - 1) / N_BYPOS); }
    const int ndet = G.detmode == 2 ? 2 : 1;
    static const int kinds[2] = { K_NEW_LOC, K_MALLOC };
    for (int d = 0; d < ndet; d++) push(0, 1, mk(O_ALLOC, d, kinds[d], 9 + 8 * (unsigned) d, 0, d));          // predecessor leaks one block per leak plugin
    for (int d = 0; d < ndet; d++) {
        if (ex) push(1, 0, mk(O_EXPECT, 0, 0, 0, 1, d));
        for (int k = 0; k < L; k++) push(1, k == 0 ? 1 : 2, mk(O_ALLOC, 2 + 2 * d + k, kinds[(d + k) % 2], 5 + 6 * (unsigned) k, 0, d));
    }
    push(1, 2, mk(O_FREE, 0));                                                                                // subject releases the predecessor's block (does not offset its own leaks)
    if (fl) push(1, 1, mk(O_FAIL, 0, F_CHECK));
    push(2, 1, mk(O_ALLOC, 8, K_NEWA, 12, 0, 0)); push(2, 2, mk(O_FREE, 8));                                  // clean successor
    if (outside) { push(2, PH_BEFORE, mk(O_ALLOC, FIRST_OUTSIDE_SLOT, K_NEW, 20, 0, 0)); push(2, PH_AFTER, mk(O_FREE, FIRST_OUTSIDE_SLOT)); push(1, PH_AFTER, mk(O_TEMP, 0, K_MALLOC, 6, 0, ndet - 1)); }
    for (int s = 0; s < 6; s++) push(3, 1, mk(O_FREE, s));                                                    // sweeper
    run_and_judge(c);
}

// the same program space with detector mode calls in every program
static void sec_mode_calls(vf::Ctx& c) {
    int profile = c.rng.chance(40) ? 0 : 1 + (int) c.rng.below(4);
    int detmode = c.rng.chance(50) ? 0 : 1 + (int) c.rng.below(2);
    gen_random_program(c, profile, c.thorough ? 24 : 10, detmode, 100);
    run_and_judge(c);
}

// detector mode calls, enumerated: a predecessor that leaks, a test (or the code after it / before the next one) that calls disable() / enable()
// in one of twelve shapes, a SUBJECT that leaks 0..2 blocks and must get its usual verdict, a clean successor, a sweeper.
//   shape 0 none (control)           1 disable; enable in the body         2 disable; failing check; enable (never reached)
//         3 disable alone (body)     4 disable in setup, enable in teardown  5 the same with a failing check in the body (teardown still enables)
//         6 enable alone             7 disable as the last statement of teardown   8 disable in the code after the test
//         9 disable in the code just before the subject    10 disable; enable there    11 enable; disable in the body
//   own blocks of the mode caller: 0 none, 1 one allocated before every mode call and leaked (judged), 2 one allocated right after the first mode
//   call and left outstanding (ambiguous: that verdict is not judged), 3 one allocated there and released in the caller's teardown
enum { DM_CFG = 6, DM_SHAPE = 12, DM_A = 4, DM_L = 3, DM_EXP = 2, DM_FE = 2, DM_FAIL = 2 };
static const uint64_t DM_TOTAL = (uint64_t) DM_CFG * DM_SHAPE * DM_A * DM_L * DM_EXP * DM_FE * DM_FAIL;
static void sec_mode_matrix(vf::Ctx& c) {
    uint64_t i = c.idx;
    int L = (int) (i % DM_L); i /= DM_L; int ex = (int) (i % DM_EXP); i /= DM_EXP; int fe = (int) (i % DM_FE); i /= DM_FE; int fl = (int) (i % DM_FAIL); i /= DM_FAIL;
    int a = (int) (i % DM_A); i /= DM_A; int shape = (int) (i % DM_SHAPE); i /= DM_SHAPE; int cfg = (int) (i % DM_CFG);
    clear_program(5); G.profile = 14; G.nslots = 12;
    G.detmode = cfg >= 2 ? 2 : cfg; G.local_outer = cfg >= 2 && ((cfg - 2) & 1);
    const int md = cfg >= 2 ? (cfg - 2) >> 1 : 0;                                                             // the detector whose mode is changed (with one leak plugin: its detector)
    const int ndet = G.detmode == 2 ? 2 : 1;
    static const int kinds[2] = { K_NEWA_LOC, K_MALLOC };
    const int T1 = 1, T2 = 2;
    for (int d = 0; d < ndet; d++) push(0, 1, mk(O_ALLOC, d, kinds[d], 9 + 8 * (unsigned) d, 0, d));          // predecessor leaks one block per leak plugin
    bool placed = false, placed_outside = false;
    auto later_block = [&](int t, int ph) {
        if (a < 2 || placed) return;
        placed = true; placed_outside = ph >= 3;
        int slot = ph >= 3 ? FIRST_OUTSIDE_SLOT : 3;
        push(t, ph, mk(O_ALLOC, slot, kinds[md], 21, 0, md));
        if (a == 3 && ph >= 3) push(t, ph, mk(O_FREE, slot));
    };
    auto dis = [&](int t, int ph) { push(t, ph, mk(O_DISABLE, 0, 0, 0, 0, md)); later_block(t, ph); };
    auto en = [&](int t, int ph) { push(t, ph, mk(O_ENABLE, 0, 0, 0, 0, md)); };
    if (a == 1) push(T1, 0, mk(O_ALLOC, 2, kinds[md], 13, 0, md));
    switch (shape) {
    case 0: later_block(T1, 1); break;
    case 1: dis(T1, 1); en(T1, 1); break;
    case 2: dis(T1, 1); push(T1, 1, mk(O_FAIL, 0, F_CHECK)); en(T1, 1); break;
    case 3: dis(T1, 1); break;
    case 4: dis(T1, 0); en(T1, 2); break;
    case 5: dis(T1, 0); push(T1, 1, mk(O_FAIL, 0, F_FAIL)); en(T1, 2); break;
    case 6: en(T1, 1); later_block(T1, 1); break;
    case 7: dis(T1, 2); break;
    case 8: dis(T1, PH_AFTER); break;
    case 9: dis(T2, PH_BEFORE); break;
    case 10: dis(T2, PH_BEFORE); en(T2, PH_BEFORE); break;
    default: en(T1, 1); dis(T1, 1); break;
    }
    if (a == 3 && placed && !placed_outside) push(T1, 2, mk(O_FREE, 3));
    for (int d = 0; d < ndet; d++) {                                                                           // the subject
        if (ex) push(T2, 0, mk(O_EXPECT, 0, 0, 0, 1, d));
        for (int k = 0; k < L; k++) push(T2, k == 0 ? 1 : 0, mk(O_ALLOC, 4 + 2 * d + k, kinds[(d + k) % 2], 5 + 6 * (unsigned) k, 0, d));
    }
    if (fe) push(T2, 2, mk(O_FREE, md < ndet ? md : 0));                                                       // releases the predecessor's block on the detector in question
    if (fl) push(T2, 1, mk(O_FAIL, 0, F_CHECK));
    push(3, 1, mk(O_ALLOC, 8, K_NEW, 12, 0, md)); push(3, 2, mk(O_FREE, 8));                                   // clean successor
    if (a == 2 && placed_outside) push(3, PH_AFTER, mk(O_FREE, FIRST_OUTSIDE_SLOT));
    for (int s = 0; s < 8; s++) push(4, 1, mk(O_FREE, s));                                                    // sweeper
    run_and_judge(c);
}

// many leaks in one test (reports near and beyond the detector's text capacity)
static void sec_bulk(vf::Ctx& c) {
    vf::Rng& r = c.rng;
    clear_program(3); G.profile = 11; G.nslots = MAX_SLOTS;
    int n = r.chance(50) ? r.range(6, 14) : r.range(15, 60);
    int s = 0;
    for (int k = 0; k < n; k++) push(0, (int) r.below(3), mk(O_ALLOC, s++, (int) r.below(K_N), 1 + (unsigned) r.below(20)));
    if (r.chance(40)) insert_at(0, 0, 0, mk(O_EXPECT, 0, 0, 0, (unsigned) (r.chance(50) ? n : n - 1)));
    int m = r.range(0, n);                                                                    // second test releases m of them and leaks a few of its own
    for (int k = 0; k < m; k++) push(1, (int) r.below(3), mk(O_FREE, (int) r.below((uint64_t) n)));
    int own = r.range(0, 3);
    for (int k = 0; k < own && s < MAX_SLOTS; k++) push(1, 1, mk(O_ALLOC, s++, (int) r.below(K_N), 1 + (unsigned) r.below(20)));
    if (r.chance(50)) for (int k = 0; k < n; k++) if (r.chance(80)) push(2, 2, mk(O_FREE, k));
    G.detmode = r.chance(70) ? 0 : 1;                                                         // long reports from the plugin's own detector as well
    run_and_judge(c);
}

static void init() {
    SWEEP = new SweepShell;
    FAILPLUGIN = new FailPlugin;
    MARKER = new MarkerPlugin;
    OUTER = new OuterPlugin;
    static const char* by_names[MAX_BY] = { "C07BystanderA", "C07BystanderB", "C07BystanderC" };
    for (int i = 0; i < MAX_BY; i++) BY[i] = new BystanderPlugin(by_names[i], i);
    REAL_REALLOC = PlatformSpecificRealloc;
    for (int i = 0; i < MAX_TESTS; i++) {
        char* f = (char*) malloc(24); snprintf(f, 24, "c07_t%02d.cpp", i); FILES[i] = f;
        char* n = (char*) malloc(16); snprintf(n, 16, "t%02d", i); NAMES[i] = n;
        char* g = (char*) malloc(16); snprintf(g, 16, "grp%d", i / 5); GROUPS[i] = g;
        SH[i] = new ScriptShell(i, GROUPS[i], NAMES[i], FILES[i], 100 + (size_t) i);
    }
    MemoryLeakWarningPlugin::getGlobalDetector()->disable();
    MemoryLeakWarningPlugin::turnOffNewDeleteOverloads();      // see run_and_judge: overloads are on only inside a program window
}

int main(int argc, char** argv) {
    std::vector<vf::Section> S = {
        { "verdict_matrix", MX_TOTAL, MX_TOTAL, sec_matrix, true },
        { "random_programs", 40000, 600000, sec_random, false },
        { "offsetting_releases", 10000, 150000, sec_offset, false },
        { "bulk_leaks", 2000, 30000, sec_bulk, false },
        { "own_detector_programs", 12000, 150000, sec_own_detector, false },
        { "two_leak_plugins_programs", 12000, 150000, sec_two_plugins, false },
        { "two_leak_plugins_matrix", TP_TOTAL, TP_TOTAL, sec_two_plugin_matrix, true },
        { "bystander_plugins_matrix", BC_TOTAL, BC_TOTAL, sec_bystander_matrix, true },
        { "detector_mode_calls_matrix", DM_TOTAL, DM_TOTAL, sec_mode_matrix, true },
        { "detector_mode_calls_programs", 8000, 100000, sec_mode_calls, false },
    };
    return vf::harness_main(argc, argv, S, init);
}
