// C04 — leak accounting is exact for every allocation history.
//
// The real MemoryLeakDetector (a private instance with a recording MemoryLeakFailure) is driven through
// generated histories of alloc / free / realloc / period / stage / clear / mark / report operations, in two
// modes (direct calls on the detector; the global operator new/delete/new[]/delete[] and cpputest_malloc/
// realloc/free entry points re-routed to the private detector) and two address regimes (libc addresses; an
// arena allocator that hands out addresses with chosen residues mod 73, so long hash chains, head/middle/tail
// removal and cross-bucket iteration are the norm).
//
// Oracle: std::map<address, block> updated by the property's own definition of "outstanding for a period";
// compared after every operation (totalMemoryLeaks for all four periods, allocation counter, callback count)
// and at every report (entries parsed: allocation number, size, location, allocator kind, address; footer
// total; "No memory leaks were detected."). Identity of the tracked set is additionally probed through
// invalidateMemory (tracked blocks get poisoned, untracked ones do not) and by the final drain (every model
// block must be releasable without a callback). Blocks carry an id-derived fill pattern verified at release.
//
// Isolation of the monitors: outside a "window" the global operator new/delete and cpputest_malloc/free are
// switched to plain libc (turnOffNewDeleteOverloads), so the harness' own containers never pass through any
// detector; a window installs the private detector + recording allocators + the leak-detecting overloads
// around exactly one call of the entry point under test. Bookkeeping that runs inside a window (recording
// allocators, realloc seam, failure recorder) uses libc malloc / static buffers only.
#include "verif.h"
#include <new>
#include <memory>
#include <sys/mman.h>
#if defined(__SANITIZE_ADDRESS__)
#include <sanitizer/asan_interface.h>
#define VF_POISON(p, n) __asan_poison_memory_region((p), (n))
#define VF_UNPOISON(p, n) __asan_unpoison_memory_region((p), (n))
#else
#define VF_POISON(p, n) ((void) 0)
#define VF_UNPOISON(p, n) ((void) 0)
#endif

#include "CppUTest/TestHarness.h"
#include "CppUTest/MemoryLeakDetector.h"
#include "CppUTest/TestMemoryAllocator.h"
#include "CppUTest/MemoryLeakWarningPlugin.h"
#include "CppUTest/PlatformSpecificFunctions.h"
#include "CppUTest/TestHarness_c.h"
#undef new

// ================================================================ malloc-backed containers (usable inside a window)
template <class T> struct MA {
    typedef T value_type;
    MA() {}
    template <class U> MA(const MA<U>&) {}
    T* allocate(size_t n) { void* p = std::malloc(n * sizeof(T)); if (!p) abort(); return (T*) p; }
    void deallocate(T* p, size_t) { std::free(p); }
    template <class U> bool operator==(const MA<U>&) const { return true; }
    template <class U> bool operator!=(const MA<U>&) const { return false; }
};

enum { HASHP = 73 };
enum { P_ALL = 0, P_DIS = 1, P_EN = 2, P_CHK = 3 };
static const char* PNAME[] = { "all", "disabled", "enabled", "checking" };
static const char* FAM_ALLOC[] = { "new", "new []", "malloc" };

struct Runaway {};   // thrown out of a detector loop that provably iterates more often than blocks exist

// ================================================================ underlying memory: libc or arena, always recorded
enum { K_BLOCK = 0, K_NODE = 1 };
struct Under { size_t size; size_t cap; unsigned char kind; bool arena; };
typedef std::map<uintptr_t, Under, std::less<uintptr_t>, MA<std::pair<const uintptr_t, Under> > > UnderMap;
static UnderMap g_under;

static char* g_arena = nullptr;
static const size_t ARENA_CAP = 24u << 20;
static const size_t FOREIGN_ZONE = 1u << 16;          // tail of the mapping, never handed out
static size_t g_arena_cur = 0;
struct FreeChunk { uintptr_t addr; size_t cap; };
static std::vector<FreeChunk, MA<FreeChunk> > g_freelist[HASHP];

// knobs set by the history before it calls into the detector
static bool g_regime_arena = false;
static bool g_arena_reuse = false;
static int g_next_residue = 0;
static size_t g_next_slack = 0;
static bool g_realloc_inplace = false;
static bool g_fail_next_alloc = false;
static bool g_fail_next_realloc = false;
// observations made inside detector calls
static unsigned long g_under_allocs = 0, g_under_frees = 0, g_arena_reused = 0, g_realloc_inplace_done = 0, g_realloc_moved = 0;
static char g_anomaly_key[96] = "";
static char g_anomaly_detail[200] = "";
static bool g_arena_exhausted = false;
static long g_name_limit = -1, g_name_calls = 0;

static void anomaly(const char* key, const char* fmt, ...) {
    if (g_anomaly_key[0]) return;
    snprintf(g_anomaly_key, sizeof g_anomaly_key, "%s", key);
    va_list ap; va_start(ap, fmt); vsnprintf(g_anomaly_detail, sizeof g_anomaly_detail, fmt, ap); va_end(ap);
}

static inline size_t align8(size_t x) { return (x + 7) & ~(size_t) 7; }

static char* arena_alloc(size_t size, int residue, size_t slack) {
    if (g_arena_reuse) {
        std::vector<FreeChunk, MA<FreeChunk> >& fl = g_freelist[residue];
        for (size_t i = fl.size(); i-- > 0;) {
            if (fl[i].cap >= size) {
                FreeChunk ch = fl[i]; fl.erase(fl.begin() + (long) i);
                VF_UNPOISON((void*) ch.addr, size);
                Under u = { size, ch.cap, K_BLOCK, true }; g_under[ch.addr] = u;
                g_arena_reused++;
                return (char*) ch.addr;
            }
        }
    }
    uintptr_t a = (uintptr_t) g_arena + align8(g_arena_cur);
    unsigned r = (unsigned) (a % HASHP);
    unsigned k = (((unsigned) residue + HASHP - r) % HASHP * 64u) % HASHP;     // 64 = 8^-1 mod 73
    a += 8u * k;
    size_t cap = align8(size + slack); if (cap < 8) cap = 8;
    if (a + cap > (uintptr_t) g_arena + ARENA_CAP) { g_arena_exhausted = true; return nullptr; }
    g_arena_cur = (size_t) (a + cap - (uintptr_t) g_arena);
    VF_UNPOISON((void*) a, size);
    Under u = { size, cap, K_BLOCK, true }; g_under[a] = u;
    return (char*) a;
}

static void arena_release(uintptr_t a, const Under& u) {
    VF_POISON((void*) a, u.cap);
    FreeChunk ch = { a, u.cap };
    g_freelist[a % HASHP].push_back(ch);
}

static char* under_alloc_block(size_t size) {
    g_under_allocs++;
    if (g_regime_arena) return arena_alloc(size, g_next_residue, g_next_slack);
    char* p = (char*) std::malloc(size ? size : 1);
    if (p) { Under u = { size, size, K_BLOCK, false }; g_under[(uintptr_t) p] = u; }
    return p;
}

static bool under_free(char* mem, int expect_kind) {
    UnderMap::iterator it = g_under.find((uintptr_t) mem);
    if (it == g_under.end()) { anomaly("underlying-free-of-unknown-pointer", "the detector asked its allocator to free %p which is not an outstanding underlying allocation (double free / wrong pointer)", (void*) mem); return false; }
    if ((int) it->second.kind != expect_kind) { anomaly("underlying-free-kind-confused", "%p freed as %s but was allocated as %s", (void*) mem, expect_kind == K_NODE ? "node" : "block", it->second.kind == K_NODE ? "node" : "block"); return false; }
    g_under_frees++;
    Under u = it->second; g_under.erase(it);
    if (u.arena) arena_release((uintptr_t) mem, u); else std::free(mem);
    return true;
}

static void* my_realloc(void* p, size_t n) {
    if (g_fail_next_realloc) { g_fail_next_realloc = false; return nullptr; }
    if (p == nullptr) return under_alloc_block(n);
    UnderMap::iterator it = g_under.find((uintptr_t) p);
    if (it == g_under.end()) { anomaly("underlying-realloc-of-unknown-pointer", "platform realloc called with %p which is not an outstanding underlying allocation", p); return nullptr; }
    Under u = it->second;
    if (!u.arena) {
        char* q = (char*) std::realloc(p, n ? n : 1);
        if (!q) return nullptr;
        g_under.erase(it);
        Under nu = { n, n, K_BLOCK, false }; g_under[(uintptr_t) q] = nu;
        if (q == p) g_realloc_inplace_done++; else g_realloc_moved++;
        return q;
    }
    if (g_realloc_inplace && n <= u.cap) {
        VF_POISON(p, u.cap); VF_UNPOISON(p, n);
        it->second.size = n;
        g_realloc_inplace_done++;
        return p;
    }
    char* q = arena_alloc(n, g_next_residue, g_next_slack);
    if (!q) return nullptr;
    memcpy(q, p, u.size < n ? u.size : n);
    g_under.erase((uintptr_t) p);
    arena_release((uintptr_t) p, u);
    g_realloc_moved++;
    return q;
}

static void under_reset() {
    for (UnderMap::iterator it = g_under.begin(); it != g_under.end(); ++it) if (!it->second.arena) std::free((void*) it->first);
    g_under.clear();
    for (int i = 0; i < HASHP; i++) g_freelist[i].clear();
    if (g_arena_cur) VF_POISON(g_arena, g_arena_cur);
    g_arena_cur = 0;
    g_anomaly_key[0] = 0; g_anomaly_detail[0] = 0; g_arena_exhausted = false;
    g_fail_next_alloc = g_fail_next_realloc = false;
    g_under_allocs = g_under_frees = g_arena_reused = g_realloc_inplace_done = g_realloc_moved = 0;
    g_name_limit = -1; g_name_calls = 0;
}

struct RecAllocator : public TestMemoryAllocator {
    RecAllocator(const char* n, const char* a, const char* f) : TestMemoryAllocator(n, a, f) {}
    char* alloc_memory(size_t size, const char*, size_t) { if (g_fail_next_alloc) { g_fail_next_alloc = false; return nullptr; } return under_alloc_block(size); }
    void free_memory(char* memory, size_t, const char*, size_t) { under_free(memory, K_BLOCK); }
    char* allocMemoryLeakNode(size_t size) {
        char* p = (char*) std::malloc(size);
        if (p) { Under u = { size, size, K_NODE, false }; g_under[(uintptr_t) p] = u; }
        return p;
    }
    void freeMemoryLeakNode(char* memory) { under_free(memory, K_NODE); }
    const char* alloc_name() const { if (g_name_limit >= 0 && ++g_name_calls > g_name_limit) throw Runaway(); return alloc_name_; }
};
static RecAllocator A[3] = { RecAllocator("Standard New Allocator", "new", "delete"),
                             RecAllocator("Standard New [] Allocator", "new []", "delete []"),
                             RecAllocator("Standard Malloc Allocator", "malloc", "free") };

struct Recorder : public MemoryLeakFailure {
    unsigned long count; long limit; char last[4400];
    Recorder() : count(0), limit(-1) { last[0] = 0; }
    void fail(char* s) {
        count++;
        size_t n = strlen(s); if (n >= sizeof last) n = sizeof last - 1;
        memcpy(last, s, n); last[n] = 0;
        if (limit >= 0 && (long) count > limit) throw Runaway();
    }
};
static Recorder g_rec;

// ================================================================ the window: private detector installed as the global one
static MemoryLeakDetector* g_saved_det = nullptr;
static MemoryLeakFailure* g_saved_rep = nullptr;
static MemoryLeakDetector* g_det = nullptr;
static bool g_threadsafe = false;
struct Win {
    Win() {
        setCurrentNewAllocator(&A[0]); setCurrentNewArrayAllocator(&A[1]); setCurrentMallocAllocator(&A[2]);
        MemoryLeakWarningPlugin::setGlobalDetector(g_det, &g_rec);
        if (g_threadsafe) MemoryLeakWarningPlugin::turnOnThreadSafeNewDeleteOverloads(); else MemoryLeakWarningPlugin::turnOnDefaultNotThreadSafeNewDeleteOverloads();
    }
    ~Win() {
        MemoryLeakWarningPlugin::turnOffNewDeleteOverloads();      // the harness' own allocations never go through any detector
        MemoryLeakWarningPlugin::setGlobalDetector(g_saved_det, g_saved_rep);
        setCurrentNewAllocatorToDefault(); setCurrentNewArrayAllocatorToDefault(); setCurrentMallocAllocatorToDefault();
    }
};
struct Seam {
    void* (*saved)(void*, size_t);
    Seam() { saved = PlatformSpecificRealloc; PlatformSpecificRealloc = my_realloc; }
    ~Seam() { PlatformSpecificRealloc = saved; }
};

// ================================================================ report parser
struct REntry { unsigned long num; unsigned long size; std::string file; long line; std::string type; bool has_addr; uintptr_t addr; };
struct RParsed { bool none, header, truncated, footer; long footer_n; std::vector<REntry> entries; };
static const char* NOLEAKS = "No memory leaks were detected.";

static bool eat(const char*& p, const char* lit) { size_t n = strlen(lit); if (strncmp(p, lit, n) != 0) return false; p += n; return true; }

static RParsed parse_report(const char* s) {
    RParsed r; r.none = strcmp(s, NOLEAKS) == 0; r.header = strncmp(s, "Memory leak(s) found.\n", 22) == 0;
    r.truncated = strstr(s, "Too many memory leaks to report") != nullptr;
    r.footer = false; r.footer_n = -1;
    const char* p = s;
    while (*p) {
        // at a line start
        const char* q = p;
        if (eat(q, "Alloc num (")) {
            REntry e; char* end;
            e.num = strtoul(q, &end, 10); bool ok = end != q; q = end;
            ok = ok && eat(q, ") Leak size: ");
            if (ok) { e.size = strtoul(q, &end, 10); ok = end != q; q = end; }
            ok = ok && eat(q, " Allocated at: ");
            if (ok) {
                const char* eol = strchr(q, '\n'); if (!eol) eol = q + strlen(q);
                const char* m = nullptr;
                for (const char* t = q; t + 11 <= eol; t++) if (strncmp(t, " and line: ", 11) == 0) m = t;   // last occurrence on the line
                if (!m) ok = false; else { e.file.assign(q, (size_t) (m - q)); q = m + 11; }
            }
            if (ok) { e.line = strtol(q, &end, 10); ok = end != q; q = end; }
            ok = ok && eat(q, ". Type: \"");
            if (ok) { const char* z = strchr(q, '"'); const char* eol = strchr(q, '\n'); if (!z || (eol && z > eol)) ok = false; else { e.type.assign(q, (size_t) (z - q)); q = z + 1; } }
            if (ok) {
                e.has_addr = false; e.addr = 0;
                const char* t = q;
                if (eat(t, "\n\tMemory: <")) {
                    const char* gt = strchr(t, '>');
                    if (gt && gt - t < 24 && strncmp(gt, "> Content:\n", 11) == 0) { e.has_addr = true; e.addr = strncmp(t, "(nil)", 5) == 0 ? 0 : (uintptr_t) strtoull(t, nullptr, 16); }
                }
                r.entries.push_back(e);
            }
        } else if (eat(q, "Total number of leaks:  ")) {
            char* end; long n = strtol(q, &end, 10);
            if (end != q && *end == '\n') { r.footer = true; r.footer_n = n; }
        }
        const char* nl = strchr(p, '\n');
        if (!nl) break;
        p = nl + 1;
    }
    return r;
}

// ================================================================ model + history runner
struct MBlock { uintptr_t addr; size_t size; unsigned seq; const char* file; long line; int fam; bool sep; int period; unsigned char stage; uint64_t id; uint64_t order; };

static inline unsigned char pat(uint64_t id, size_t i) { return (unsigned char) (id * 131u + i * 7u + 13u); }
static void fill(const MBlock& b) { unsigned char* m = (unsigned char*) b.addr; for (size_t i = 0; i < b.size; i++) m[i] = pat(b.id, i); }
static long first_bad(const MBlock& b, uint64_t id, size_t n) { const unsigned char* m = (const unsigned char*) b.addr; for (size_t i = 0; i < n; i++) if (m[i] != pat(id, i)) return (long) i; return -1; }

static const char* FILES[] = { "fa.cpp", "src/dir/fb.cpp", "c.c", "../x/y-z_0.cc", "a.h" };
static const char* UNKNOWN_FILE = "<unknown>";
static char g_foreign_static[4096];
static std::string g_trace;

enum OpKind { O_ALLOC_NEW, O_ALLOC_NEWARR, O_ALLOC_MALLOC, O_ALLOC_FAIL, O_FREE, O_FREE_MISMATCH, O_FREE_STALE, O_FREE_FOREIGN, O_FREE_INTERIOR, O_FREE_NULL, O_FREE_CLEARED,
              O_REALLOC_GROW, O_REALLOC_SHRINK, O_REALLOC_NULL, O_REALLOC_NONLIVE, O_REALLOC_FAIL, O_ENABLE, O_DISABLE, O_START, O_STOP, O_STAGE_INC, O_STAGE_DEC, O_STAGE_RELEASE,
              O_CLEAR_ALL, O_CLEAR_DIS, O_CLEAR_EN, O_CLEAR_CHK, O_MARK, O_REPORT_ALL, O_REPORT_DIS, O_REPORT_EN, O_REPORT_CHK, O_PROBE, O_TESTBOUNDARY, O_FORGET, O_N };
static const char* OPNAME[] = { "alloc_new", "alloc_newarr", "alloc_malloc", "alloc_fail", "free", "free_mismatch", "free_stale", "free_foreign", "free_interior", "free_null", "free_cleared",
                                "realloc_grow", "realloc_shrink", "realloc_null", "realloc_nonlive", "realloc_fail", "enable", "disable", "startChecking", "stopChecking", "stage_inc", "stage_dec", "stage_release",
                                "clear_all", "clear_disabled", "clear_enabled", "clear_checking", "mark", "report_all", "report_disabled", "report_enabled", "report_checking", "probe", "test_boundary", "forget" };

struct Hist {
    vf::Ctx& c; bool global, arena;
    MemoryLeakDetector* det;
    std::map<uintptr_t, MBlock> live, cleared;
    std::vector<uintptr_t> stale;
    int period; unsigned char stage; unsigned next_seq; size_t buflen; uint64_t next_id, order_ctr;
    bool dead;
    // per-op scratch
    unsigned long cb_before; size_t buflen_before;
    // evidence
    bool nt_nonhead, nt_period_change; size_t max_chain; std::vector<unsigned char> kinds;
    unsigned long n_ops;

    Hist(vf::Ctx& cc, bool g, bool a, bool threadsafe, bool reuse) : c(cc), global(g), arena(a), det(nullptr), period(P_DIS), stage(0), next_seq(1), buflen(0), next_id(1), order_ctr(0), dead(false),
        cb_before(0), buflen_before(0), nt_nonhead(false), nt_period_change(false), max_chain(0), n_ops(0) {
        under_reset();
        g_regime_arena = a; g_arena_reuse = reuse; g_threadsafe = threadsafe;
        g_rec.count = 0; g_rec.limit = -1; g_rec.last[0] = 0;
        g_trace.clear();
        det = new MemoryLeakDetector(&g_rec);
        g_det = det;
    }
    ~Hist() {
        // leave no trace: underlying leftovers (cleared blocks, nodes of mismatched / stage-released blocks) are returned here
        size_t left_nodes = 0, left_blocks = 0;
        for (UnderMap::iterator it = g_under.begin(); it != g_under.end(); ++it) { if (it->second.kind == K_NODE) left_nodes++; else left_blocks++; }
        if (left_nodes) c.count("underlying_nodes_left_at_end", left_nodes);
        if (left_blocks) c.count("underlying_blocks_left_at_end", left_blocks);
        c.count("underlying_allocs", g_under_allocs); c.count("underlying_frees", g_under_frees);
        c.count("arena_chunks_reused", g_arena_reused); c.count("realloc_in_place", g_realloc_inplace_done); c.count("realloc_moved", g_realloc_moved);
        under_reset();
        g_det = nullptr; g_threadsafe = false;
        delete det;
    }

    // ---------------------------------------------------------- trace / verdict helpers
    void tok(const char* fmt, ...) {
        char b[96]; va_list ap; va_start(ap, fmt); vsnprintf(b, sizeof b, fmt, ap); va_end(ap);
        if (g_trace.size() < 200000) { g_trace += b; g_trace += ' '; }
    }
    void kind(int k) { kinds.push_back((unsigned char) k); c.count(std::string("op_") + OPNAME[k]); n_ops++; }
    const char* mode() const { return global ? (arena ? "global/arena" : "global/libc") : (arena ? "private/arena" : "private/libc"); }
    void viol(const std::string& key, const std::string& detail) {
        if (dead) return;
        dead = true;
        c.violation(key, "[" + std::string(mode()) + (g_threadsafe ? ",threadsafe" : "") + ", after " + std::to_string(n_ops) + " ops] " + detail);
    }
    bool in_period(const MBlock& b, int p) const { return p == P_ALL || b.period == p || (p == P_EN && b.period == P_CHK); }
    size_t count_in(int p) const { size_t n = 0; for (auto& kv : live) if (in_period(kv.second, p)) n++; return n; }

    void pre() { cb_before = g_rec.count; buflen_before = buflen; }
    // operation class used in violation keys (one defect should not fan out over every operation spelling)
    static const char* opclass(const char* op) {
        if (!strncmp(op, "alloc", 5) || !strcmp(op, "realloc_null")) return "allocation";
        if (!strcmp(op, "realloc") || !strcmp(op, "realloc_fail")) return op;
        if (!strcmp(op, "free") || !strcmp(op, "free_mismatch")) return op;
        if (!strcmp(op, "free_null")) return op;
        if (!strncmp(op, "free_", 5) || !strcmp(op, "realloc_nonlive")) return "release-of-non-live-address";
        if (!strcmp(op, "enable") || !strcmp(op, "disable") || !strcmp(op, "startChecking") || !strcmp(op, "stopChecking")) return "period-change";
        if (!strcmp(op, "stage_inc") || !strcmp(op, "stage_dec")) return "stage-change";
        if (!strncmp(op, "clear_", 6)) return "clearAllAccounting";
        if (!strncmp(op, "report_", 7)) return "report";
        return op;
    }

    // after every operation: callbacks, totals for all four periods, allocation counter, allocator anomalies
    void post(const char* opname, unsigned expected_cb, const char* expected_msg) {
        if (dead) return;
        const char* op = opclass(opname);
        if (g_anomaly_key[0]) { viol(std::string(g_anomaly_key) + ":op=" + op, g_anomaly_detail); return; }
        unsigned long got = g_rec.count - cb_before;
        if (got != expected_cb) {
            std::string first(g_rec.last + (buflen_before < strlen(g_rec.last) ? buflen_before : 0)); first = first.substr(0, first.find('\n'));
            if (expected_cb == 0) viol(std::string("callback-unexpected:op=") + op, "the failure callback fired " + std::to_string(got) + " time(s) for an operation that is valid in the model; text: " + first);
            else if (got == 0) viol(std::string("callback-missing:op=") + op, std::string("expected the failure callback (") + (expected_msg ? expected_msg : "") + ") but it did not fire");
            else viol(std::string("callback-repeated:op=") + op, "expected 1 callback, got " + std::to_string(got));
            return;
        }
        if (got) {
            size_t l = strlen(g_rec.last);
            if (expected_msg && buflen_before + 400 < 4095 && l >= buflen_before) {
                if (strncmp(g_rec.last + buflen_before, expected_msg, strlen(expected_msg)) != 0) { viol(std::string("callback-text:op=") + op, std::string("expected message '") + expected_msg + "', new text is '" + std::string(g_rec.last + buflen_before).substr(0, 80) + "'"); return; }
                c.count(std::string("callback_") + (expected_msg[0] == 'D' ? "nonallocated" : "mismatch"));
            }
            buflen = l;
        }
        size_t exp[4] = { 0, 0, 0, 0 };
        for (auto& kv : live) { exp[P_ALL]++; exp[kv.second.period]++; if (kv.second.period == P_CHK) exp[P_EN]++; }
        for (int p = 0; p < 4; p++) {
            size_t g = det->totalMemoryLeaks((MemLeakPeriod) p);
            if (g != exp[p]) { viol(std::string(g > exp[p] ? "total-too-high" : "total-too-low") + ":after=" + op + ":period=" + PNAME[p], "totalMemoryLeaks(" + std::string(PNAME[p]) + ")=" + std::to_string(g) + ", model holds " + std::to_string(exp[p]) + " (all/dis/en/chk model: " + std::to_string(exp[0]) + "/" + std::to_string(exp[1]) + "/" + std::to_string(exp[2]) + "/" + std::to_string(exp[3]) + ")"); return; }
        }
        c.count("totals_compared", 4);
        unsigned an = det->getCurrentAllocationNumber();
        if (an != next_seq) { viol(std::string("alloc-number:after=") + op, "getCurrentAllocationNumber()=" + std::to_string(an) + ", model expects " + std::to_string(next_seq) + " (one per successful allocation/reallocation)"); return; }
    }

    // ---------------------------------------------------------- chain statistics for the non-trivial rule
    void note_removal(const MBlock& b) {
        size_t n = 0; bool newer = false, older = false;
        unsigned bk = (unsigned) (b.addr % HASHP);
        for (auto& kv : live) if (kv.first % HASHP == bk) { n++; if (kv.second.order > b.order) newer = true; if (kv.second.order < b.order) older = true; }
        if (n >= 3 && newer) nt_nonhead = true;
        if (n >= 2) c.count(!newer ? "removal_chain_head" : older ? "removal_chain_middle" : "removal_chain_tail");
        else c.count("removal_single");
    }
    void note_insert(uintptr_t a) {
        size_t n = 0; unsigned bk = (unsigned) (a % HASHP);
        for (auto& kv : live) if (kv.first % HASHP == bk) n++;
        if (n > max_chain) max_chain = n;
    }

    bool check_pattern(const MBlock& b, const char* op) {
        long bad = first_bad(b, b.id, b.size);
        if (bad >= 0) { viol(std::string("block-content-changed:before=") + op, "user byte " + std::to_string(bad) + " of live block #" + std::to_string(b.seq) + " (size " + std::to_string(b.size) + ") no longer holds its fill pattern: memory handed out twice or written by the detector"); return false; }
        return true;
    }

    // ---------------------------------------------------------- raw calls (private detector API or global entry points)
    char* raw_alloc(int fam, bool sep, size_t size, const char* file, size_t line, int variant) {
        if (!global) {
            if (variant == 0) return det->allocMemory(&A[fam], size, sep);
            return det->allocMemory(&A[fam], size, file, line, sep);
        }
        Win w;
        try { return raw_alloc_global(fam, size, file, line, variant); } catch (...) { return nullptr; }   // bad_alloc when the arena is exhausted: environment, not a verdict
    }
    static char* raw_alloc_global(int fam, size_t size, const char* file, size_t line, int variant) {
        if (fam == 0) switch (variant) {
            case 0: return (char*) operator new(size);
            case 1: return (char*) operator new(size, file, line);
            case 2: return (char*) operator new(size, file, (int) line);
            default: return (char*) operator new(size, std::nothrow);
        }
        if (fam == 1) switch (variant) {
            case 0: return (char*) operator new[](size);
            case 1: return (char*) operator new[](size, file, line);
            case 2: return (char*) operator new[](size, file, (int) line);
            default: return (char*) operator new[](size, std::nothrow);
        }
        switch (variant) {
            case 0: return (char*) cpputest_malloc(size);
            case 1: return (char*) cpputest_malloc_location(size, file, line);
            case 2: return (char*) cpputest_calloc_location(1, size, file, line);
            default: return (char*) cpputest_calloc_location(size, 1, file, line);
        }
    }
    void raw_free(int fam, bool sep, char* p, const char* file, size_t line, int variant, size_t size_hint) {
        if (!global) {
            if (variant & 4) det->invalidateMemory(p);
            if ((variant & 3) == 0) det->deallocMemory(&A[fam], p, sep);
            else det->deallocMemory(&A[fam], p, file, line, sep);
            return;
        }
        Win w;
        if (fam == 0) switch (variant & 3) {
            case 0: operator delete(p); return;
            case 1: operator delete(p, file, line); return;
            case 2: operator delete(p, size_hint); return;
            default: operator delete(p, std::nothrow); return;
        }
        if (fam == 1) switch (variant & 3) {
            case 0: operator delete[](p); return;
            case 1: operator delete[](p, file, (int) line); return;
            case 2: operator delete[](p, size_hint); return;
            default: operator delete[](p, std::nothrow); return;
        }
        if (variant & 1) cpputest_free(p); else cpputest_free_location(p, file, line);
    }
    char* raw_realloc(int fam, bool sep, char* p, size_t size, const char* file, size_t line, int variant) {
        Seam seam;
        if (!global) return det->reallocMemory(&A[fam], p, size, file, line, sep);
        Win w;
        if (variant == 0) return (char*) cpputest_realloc(p, size);
        return (char*) cpputest_realloc_location(p, size, file, line);
    }

    // ---------------------------------------------------------- primitives
    void reg_block(char* p, size_t size, const char* file, long line, int fam, bool sep, const char* op) {
        uintptr_t a = (uintptr_t) p;
        auto nx = live.lower_bound(a);
        if (nx != live.end() && nx->first < a + (size ? size : 1)) { viol(std::string("overlapping-handout:op=") + op, "new block overlaps live block #" + std::to_string(nx->second.seq)); return; }
        if (nx != live.begin()) { auto pv = std::prev(nx); if (pv->first + pv->second.size > a) { viol(std::string("overlapping-handout:op=") + op, "new block lies inside live block #" + std::to_string(pv->second.seq)); return; } }
        MBlock b = { a, size, next_seq++, file, line, fam, sep, period, stage, next_id++, order_ctr++ };
        fill(b);
        live[a] = b;
        note_insert(a);
    }

    // returns the address (0 when nothing was allocated)
    uintptr_t op_alloc(int fam, bool sep, size_t size, int residue, int variant, bool fail) {
        kind(fail ? O_ALLOC_FAIL : O_ALLOC_NEW + fam);
        uint64_t id = next_id;
        const char* file = FILES[id % 5]; long line = (long) (id % 90000) + 1;
        bool unknown_loc = global ? (variant == 0 || (fam != 2 && variant == 3)) : variant == 0;
        if (global) sep = fam == 2;
        tok("%s%c%zu%s@%d/v%d", fail ? "!" : "", "naM"[fam], size, sep ? "s" : "", residue, variant);
        g_next_residue = residue; g_next_slack = (size_t) (id * 37 % 48);
        pre();
        if (fail) g_fail_next_alloc = true;
        char* p = raw_alloc(fam, sep, size, file, (size_t) line, variant);
        g_fail_next_alloc = false;
        if (fail) {
            if (p) { viol("alloc-nonnull-on-failure", "allocator returned NULL but allocMemory returned a block"); return 0; }
            post("alloc_fail", 0, nullptr);
            return 0;
        }
        if (!p) {   // environment (arena exhausted / out of memory): not a verdict on the property
            c.count(g_arena_exhausted ? "arena_exhausted" : "alloc_returned_null_env"); dead = true; return 0;
        }
        reg_block(p, size, unknown_loc ? UNKNOWN_FILE : file, unknown_loc ? 0 : line, fam, sep, "alloc");
        post("alloc", 0, nullptr);
        return (uintptr_t) p;
    }

    void op_free_live(uintptr_t a, int variant, bool mismatch) {
        auto it = live.find(a); if (it == live.end()) return;
        MBlock b = it->second;
        kind(mismatch ? O_FREE_MISMATCH : O_FREE);
        tok("%s#%u", mismatch ? "Fx" : "F", b.seq);
        if (!check_pattern(b, "free")) return;
        int fam = b.fam;
        if (mismatch) fam = global ? (b.fam == 0 ? 1 : 0) : (b.fam + 1 + (int) (b.id % 2)) % 3;
        note_removal(b);
        live.erase(it); stale.push_back(a);
        pre();
        raw_free(fam, b.sep, (char*) a, FILES[(b.id + 1) % 5], (size_t) (b.id % 977) + 1, variant, b.size);
        post(mismatch ? "free_mismatch" : "free", mismatch ? 1 : 0, mismatch ? "Allocation/deallocation type mismatch\n" : nullptr);
    }

    void op_free_nonlive(int k, uintptr_t a, int fam, bool sep, int variant) {
        kind(k);
        tok("%s", k == O_FREE_STALE ? "Fs" : k == O_FREE_FOREIGN ? "Ff" : k == O_FREE_INTERIOR ? "Fi" : k == O_FREE_CLEARED ? "Fc" : "F0");
        if (global) sep = fam == 2;
        pre();
        raw_free(fam, sep, (char*) a, FILES[a % 5], (size_t) (a % 977) + 1, variant, 1);
        if (a == 0) post(OPNAME[k], 0, nullptr);
        else post(OPNAME[k], 1, "Deallocating non-allocated memory\n");
    }

    void op_realloc_live(uintptr_t a, size_t newsize, int residue, bool inplace, int variant, bool fail) {
        auto it = live.find(a); if (it == live.end()) return;
        MBlock b = it->second;
        kind(fail ? O_REALLOC_FAIL : newsize >= b.size ? O_REALLOC_GROW : O_REALLOC_SHRINK);
        tok("%s#%u>%zu@%d%s", fail ? "R!" : "R", b.seq, newsize, residue, inplace ? "i" : "");
        if (!check_pattern(b, "realloc")) return;
        uint64_t id = next_id;
        const char* file = FILES[id % 5]; long line = (long) (id % 90000) + 1;
        bool unknown_loc = global && variant == 0;
        g_next_residue = residue; g_next_slack = (size_t) (id * 37 % 48); g_realloc_inplace = inplace;
        pre();
        if (fail) g_fail_next_realloc = true;
        char* q = raw_realloc(b.fam, b.sep, (char*) a, newsize, file, (size_t) line, variant);
        g_fail_next_realloc = false;
        if (fail) {
            if (q) { viol("realloc-nonnull-on-failure", "platform realloc returned NULL but reallocMemory returned a block"); return; }
            // the original block is still valid and not released: it must stay outstanding, unchanged
            if (!check_pattern(b, "realloc_fail(after)")) return;
            it->second.order = order_ctr++;
            post("realloc_fail", 0, nullptr);
            return;
        }
        if (!q) { c.count(g_arena_exhausted ? "arena_exhausted" : "alloc_returned_null_env"); dead = true; return; }
        size_t keep = b.size < newsize ? b.size : newsize;
        if (first_bad(MBlock{ (uintptr_t) q, keep, 0, nullptr, 0, 0, false, 0, 0, b.id, 0 }, b.id, keep) >= 0) c.count("realloc_content_not_preserved_observed");
        note_removal(b);
        live.erase(it);
        if ((uintptr_t) q != a) stale.push_back(a);
        reg_block(q, newsize, unknown_loc ? UNKNOWN_FILE : file, unknown_loc ? 0 : line, b.fam, b.sep, "realloc");
        post("realloc", 0, nullptr);
    }

    void op_realloc_null(int fam, bool sep, size_t size, int residue, int variant) {
        kind(O_REALLOC_NULL);
        if (global) { fam = 2; sep = true; }
        uint64_t id = next_id;
        const char* file = FILES[id % 5]; long line = (long) (id % 90000) + 1;
        bool unknown_loc = global && variant == 0;
        tok("R0>%zu@%d", size, residue);
        g_next_residue = residue; g_next_slack = 0;
        pre();
        char* q = raw_realloc(fam, sep, nullptr, size, file, (size_t) line, variant);
        if (!q) { c.count(g_arena_exhausted ? "arena_exhausted" : "alloc_returned_null_env"); dead = true; return; }
        reg_block(q, size, unknown_loc ? UNKNOWN_FILE : file, unknown_loc ? 0 : line, fam, sep, "realloc_null");
        post("realloc_null", 0, nullptr);
    }

    void op_realloc_nonlive(uintptr_t a, int fam, bool sep, size_t size) {
        kind(O_REALLOC_NONLIVE);
        if (global) { fam = 2; sep = true; }
        tok("Rx>%zu", size);
        g_next_residue = 0; g_next_slack = 0;
        pre();
        char* q = raw_realloc(fam, sep, (char*) a, size, FILES[0], 7, 1);
        if (q) c.count("realloc_nonlive_returned_nonnull_observed");
        post("realloc_nonlive", 1, "Deallocating non-allocated memory\n");
    }

    // removeMemoryLeakInformationWithout...: the block leaves the accounting, its memory stays with the caller
    void op_forget(uintptr_t a) {
        auto it = live.find(a); if (it == live.end()) return;
        MBlock b = it->second;
        kind(O_FORGET); tok("G#%u", b.seq);
        if (!check_pattern(b, "forget")) return;
        note_removal(b);
        live.erase(it); cleared[a] = b;
        pre();
        det->removeMemoryLeakInformationWithoutCheckingOrDeallocatingTheMemoryButDeallocatingTheAccountInformation(&A[b.fam], (void*) a, b.sep);
        post("forget", 0, nullptr);
    }

    void note_period_change(int np) { if (np != period && !live.empty()) { nt_period_change = true; c.count("period_change_with_live_blocks"); } }
    void op_period(int k) {
        kind(k);
        pre();
        switch (k) {
            case O_ENABLE: tok("en"); note_period_change(P_EN); det->enable(); period = P_EN; break;
            case O_DISABLE: tok("dis"); note_period_change(P_DIS); det->disable(); period = P_DIS; break;
            case O_START: tok("start"); note_period_change(P_CHK); det->startChecking(); period = P_CHK; buflen = 0; break;
            default: tok("stop"); note_period_change(P_EN); det->stopChecking(); period = P_EN; break;
        }
        post(OPNAME[k], 0, nullptr);
    }
    void set_period(int p) { if (p == period) return; op_period(p == P_DIS ? O_DISABLE : p == P_EN ? O_ENABLE : O_START); }

    void op_stage(bool inc) {
        kind(inc ? O_STAGE_INC : O_STAGE_DEC); tok(inc ? "s+" : "s-");
        pre();
        if (inc) { det->increaseAllocationStage(); stage = (unsigned char) (stage + 1); } else { det->decreaseAllocationStage(); stage = (unsigned char) (stage - 1); }
        if (det->getCurrentAllocationStage() != stage) { viol("stage-counter", "getCurrentAllocationStage()=" + std::to_string((int) det->getCurrentAllocationStage()) + " model " + std::to_string((int) stage)); return; }
        post(inc ? "stage_inc" : "stage_dec", 0, nullptr);
    }
    void set_stage(unsigned char t) { while (stage != t && !dead) op_stage((unsigned char) (t - stage) < 128); }

    void op_stage_release() {
        kind(O_STAGE_RELEASE); tok("srel%d", (int) stage);
        std::vector<uintptr_t> victims;
        for (auto& kv : live) if (kv.second.stage == stage) { if (!check_pattern(kv.second, "stage_release")) return; victims.push_back(kv.first); }
        size_t sepn = 0;
        for (uintptr_t a : victims) { MBlock& b = live[a]; if (b.sep) sepn++; note_removal(b); }
        for (uintptr_t a : victims) { live.erase(a); stale.push_back(a); }
        c.count("stage_release_blocks", victims.size()); if (sepn) c.count("stage_release_separate_node_blocks", sepn);
        pre();
        g_rec.limit = (long) (g_rec.count + victims.size() + 8);
        size_t frees_before = g_under_frees;
        try { det->deallocAllMemoryInCurrentAllocationStage(); }
        catch (Runaway&) { g_rec.limit = -1; viol("stage-release-runaway", "deallocAllMemoryInCurrentAllocationStage raised more failure callbacks than blocks exist in the stage (" + std::to_string(victims.size()) + ")"); return; }
        g_rec.limit = -1;
        (void) frees_before;
        post("stage_release", 0, nullptr);
    }

    void op_clear(int p) {
        kind(O_CLEAR_ALL + p); tok("clr%d", p);
        std::vector<uintptr_t> victims;
        for (auto& kv : live) if (in_period(kv.second, p)) victims.push_back(kv.first);
        for (uintptr_t a : victims) { note_removal(live[a]); }
        for (uintptr_t a : victims) { cleared[a] = live[a]; live.erase(a); }
        c.count("clear_blocks", victims.size());
        pre();
        det->clearAllAccounting((MemLeakPeriod) p);
        post(OPNAME[O_CLEAR_ALL + p], 0, nullptr);
    }

    void op_mark() {
        kind(O_MARK); tok("mark");
        size_t n = 0;
        for (auto& kv : live) if (kv.second.period == P_CHK) { kv.second.period = P_EN; n++; }
        c.count("mark_blocks", n);
        pre();
        det->markCheckingPeriodLeaksAsNonCheckingPeriod();
        post("mark", 0, nullptr);
    }

    void op_report(int p, bool clear_first) {
        kind(O_REPORT_ALL + p); tok("rep%d%s", p, clear_first ? "c" : "");
        pre();
        if (clear_first) {   // the text buffer accumulates: clear it, then restore the period (pure setters)
            det->startChecking();
            if (period == P_DIS) det->disable(); else if (period == P_EN) det->enable();
            buflen = 0; buflen_before = 0;
        }
        std::map<unsigned long, const MBlock*> want;
        for (auto& kv : live) if (in_period(kv.second, p)) want[kv.second.seq] = &kv.second;
        g_name_calls = 0; g_name_limit = (long) (2 * want.size() + 8);
        const char* text;
        try { text = det->report((MemLeakPeriod) p); }
        catch (Runaway&) { g_name_limit = -1; viol(std::string("report-runaway:period=") + PNAME[p], "report() enumerated more entries than blocks are outstanding (" + std::to_string(want.size()) + "): the cross-bucket iteration does not advance"); return; }
        g_name_limit = -1;
        size_t tl = strlen(text);
        if (tl < buflen_before) { viol("report-buffer-shrunk", "report text is shorter than the text that was in the buffer before"); return; }
        const char* suf = text + buflen_before;
        bool room = buflen_before + 64 < 3400;
        std::string ps = PNAME[p];
        RParsed r = parse_report(suf);
        if (want.empty()) {
            if (r.none) c.count("reports_no_leaks");
            else if (!room) c.count("reports_unjudgeable_buffer_full");
            else { viol("report-claims-leaks-but-none:period=" + ps, "model set is empty, report says: " + std::string(suf).substr(0, 160)); return; }
        } else {
            if (r.none) { viol("report-says-no-leaks:period=" + ps, "model holds " + std::to_string(want.size()) + " outstanding block(s) for the period"); return; }
            std::set<unsigned long> seen;
            for (const REntry& e : r.entries) {
                auto w = want.find(e.num);
                std::string es = "entry {num " + std::to_string(e.num) + ", size " + std::to_string(e.size) + ", " + e.file + ":" + std::to_string(e.line) + ", type " + e.type + "}";
                if (w == want.end()) {
                    bool other = false; for (auto& kv : live) if (kv.second.seq == e.num) other = true;
                    if (other) viol("report-entry-wrong-period:period=" + ps, es + " is outstanding, but not for this period");
                    else viol("report-entry-without-block:period=" + ps, es + " does not correspond to any outstanding block");
                    return;
                }
                if (!seen.insert(e.num).second) { viol("report-duplicate-entry:period=" + ps, es + " is listed twice"); return; }
                const MBlock& b = *w->second;
                if (e.size != b.size) { viol("report-entry-field:size", es + ": block has size " + std::to_string(b.size)); return; }
                if (e.file != b.file) { viol("report-entry-field:file", es + ": block was allocated at " + b.file + ":" + std::to_string(b.line)); return; }
                if (e.line != (long) (int) b.line) { viol("report-entry-field:line", es + ": block was allocated at " + b.file + ":" + std::to_string(b.line)); return; }
                if (e.type != FAM_ALLOC[b.fam]) { viol("report-entry-field:type", es + ": block was allocated with " + FAM_ALLOC[b.fam]); return; }
                if (e.has_addr && e.addr != b.addr) { viol("report-entry-field:address", es + ": address differs from the block with that allocation number"); return; }
                c.count("report_entries_checked");
            }
            if (r.footer && r.footer_n != (long) want.size()) { viol("report-total-wrong:period=" + ps, "footer says " + std::to_string(r.footer_n) + ", model holds " + std::to_string(want.size())); return; }
            if (r.footer && !r.truncated) {
                if (r.entries.size() != want.size()) {
                    unsigned long missing = 0; for (auto& kv : want) if (!seen.count(kv.first)) { missing = kv.first; break; }
                    viol("report-missing-entry:period=" + ps, "report lists " + std::to_string(r.entries.size()) + " of " + std::to_string(want.size()) + " outstanding blocks and does not say it is truncated; e.g. allocation number " + std::to_string(missing) + " is missing"); return;
                }
                if (!r.header && room) { viol("report-header-missing", "entries without the 'Memory leak(s) found.' header"); return; }
                c.count("reports_complete");
                if (want.size() >= 3) c.count("reports_complete_ge3");
            } else if (r.footer) c.count("reports_truncated");
            else if (room && !r.truncated) { viol("report-footer-missing:period=" + ps, "no 'Total number of leaks' footer although the buffer had room; text: " + std::string(suf).substr(0, 120)); return; }
            else c.count("reports_unjudgeable_buffer_full");
        }
        buflen = tl;
        post(OPNAME[O_REPORT_ALL + p], 0, nullptr);
    }

    // identity probe: invalidateMemory poisons exactly the blocks the table holds
    void op_probe() {
#ifndef CPPUTEST_DISABLE_HEAP_POISON
        kind(O_PROBE); tok("probe");
        pre();
        for (auto& kv : live) {
            MBlock& b = kv.second; if (b.size < 2) continue;
            det->invalidateMemory((char*) b.addr);
            if (first_bad(b, b.id, b.size) < 0) { viol("tracked-block-not-found", "invalidateMemory left outstanding block #" + std::to_string(b.seq) + " (size " + std::to_string(b.size) + ") untouched: the table does not find it"); return; }
            fill(b); c.count("probes_tracked");
        }
        for (auto& kv : cleared) {
            MBlock& b = kv.second; if (b.size < 2) continue;
            det->invalidateMemory((char*) b.addr);
            if (first_bad(b, b.id, b.size) >= 0) { viol("cleared-block-still-found", "invalidateMemory wrote into block #" + std::to_string(b.seq) + " whose accounting was cleared"); return; }
            c.count("probes_untracked");
        }
        post("probe", 0, nullptr);
#endif
    }

    void full_check() {
        for (int p = 0; p < 4 && !dead; p++) op_report(p, true);
        if (!dead) op_probe();
    }

    void drain(vf::Rng& rng) {
        tok("drain");
        std::vector<uintptr_t> as; for (auto& kv : live) as.push_back(kv.first);
        for (size_t i = as.size(); i > 1; i--) std::swap(as[i - 1], as[rng.below(i)]);
        for (uintptr_t a : as) { if (dead) return; op_free_live(a, (int) rng.below(8), false); }
        if (dead) return;
        op_report(P_ALL, true);
    }

    void finish(const std::string& extra_sig) {
        if (max_chain >= 3) c.count("cases_chain_ge3");
        if (max_chain >= 10) c.count("cases_chain_ge10");
        if (max_chain >= 30) c.count("cases_chain_ge30");
        if (nt_nonhead) c.count("cases_nonhead_removal_in_chain_ge3");
        if (nt_nonhead || nt_period_change) {
            std::set<uint32_t> grams;
            for (size_t i = 0; i + 2 < kinds.size(); i++) grams.insert((uint32_t) kinds[i] << 16 | (uint32_t) kinds[i + 1] << 8 | kinds[i + 2]);
            uint64_t h = 0xcbf29ce484222325ull;
            for (uint32_t g : grams) h = vf::fnv(&g, 4, h);
            c.nontrivial(std::string(mode()) + ":" + extra_sig + ":" + std::to_string(h));
        }
    }
};

static std::string trace_excerpt() {
    if (g_trace.size() <= 3600) return g_trace;
    return g_trace.substr(0, 1200) + " ... " + g_trace.substr(g_trace.size() - 2200);
}

// ================================================================ random histories
struct Params { int nops; int sizeprof; int maxlive; std::vector<int> residues; bool threadsafe, reuse; int style; };

static size_t gen_size(vf::Rng& r, int prof) {
    switch (prof) {
        case 0: return (size_t) r.below(25);
        case 1: return (size_t) r.below(65);
        default: if (r.chance(2)) return (size_t) r.range(301, 3000); return (size_t) r.below(301);
    }
}

static uintptr_t foreign_addr(vf::Rng& r, Hist& h, int residue) {
    switch (r.below(6)) {
        case 0: return (uintptr_t) g_foreign_static + r.below(sizeof g_foreign_static);
        case 1: { static const uintptr_t odd[] = { 1, 8, 73, 146, (uintptr_t) -1, (uintptr_t) -73, (uintptr_t) -8 }; return r.pick(odd); }
        case 2: { int x; return (uintptr_t) &x; }
        default: {   // inside the never-handed-out tail of the arena mapping, same bucket as the blocks in use
            uintptr_t a = (uintptr_t) g_arena + ARENA_CAP + 8 * r.below(FOREIGN_ZONE / 16);
            unsigned k = (((unsigned) residue + HASHP - (unsigned) (a % HASHP)) % HASHP * 64u) % HASHP;
            return a + 8u * k;
        }
    }
}

static void run_random(vf::Ctx& c, bool global, bool arena) {
    vf::Rng& r = c.rng;
    Params P;
    if (c.thorough) P.nops = r.chance(8) ? r.range(1000, 5000) : r.range(20, 700); else P.nops = r.chance(5) ? r.range(400, 900) : r.range(20, 400);
    P.sizeprof = (int) r.below(3);
    { static const int ML[] = { 5, 12, 30, 60, 150 }; P.maxlive = r.pick(ML); if (c.thorough && r.chance(10)) P.maxlive = 500; }
    int nres = 1;
    if (arena) { static const int NR[] = { 1, 1, 2, 3, 3, 6, 73 }; nres = r.pick(NR); }
    int r0 = r.chance(30) ? (HASHP - nres + (r.chance(50) ? 0 : 1) + HASHP) % HASHP : r.chance(30) ? 0 : (int) r.below(HASHP);
    for (int i = 0; i < nres; i++) P.residues.push_back((r0 + i) % HASHP);
    P.threadsafe = global && r.chance(30);
    P.reuse = arena && r.chance(50);
    P.style = (int) r.below(4);
    int nops = P.nops, sizeprof = P.sizeprof, maxlive = P.maxlive, style = P.style; bool ts = P.threadsafe, reuse = P.reuse;
    c.begin([=] { return vf::J().k("mode", global ? "global" : "private").k("regime", arena ? "arena" : "libc").k("nops", nops).k("size_profile", sizeprof).k("max_live", maxlive)
                      .k("residues", nres).k("first_residue", r0).k("threadsafe_overloads", ts).k("arena_reuse", reuse).k("style", style).k("trace", trace_excerpt()).str(); });
    Hist h(c, global, arena, P.threadsafe, P.reuse);
    // weights by style: 0 balanced, 1 churn (many frees/reallocs), 2 period/stage heavy, 3 bulk (clear/stage release/mark) heavy
    int W[O_N];
    auto setw = [&](int alloc, int fre, int nonlive, int re, int per, int stg, int bulk, int rep) {
        for (int i = 0; i < O_N; i++) W[i] = 0;
        W[O_ALLOC_NEW] = W[O_ALLOC_NEWARR] = W[O_ALLOC_MALLOC] = alloc; W[O_ALLOC_FAIL] = global ? 0 : 2;
        W[O_FREE] = fre; W[O_FREE_MISMATCH] = 2;
        W[O_FREE_STALE] = W[O_FREE_FOREIGN] = W[O_FREE_INTERIOR] = nonlive; W[O_FREE_NULL] = 1; W[O_FREE_CLEARED] = nonlive;
        W[O_REALLOC_GROW] = W[O_REALLOC_SHRINK] = re; W[O_REALLOC_NULL] = 2; W[O_REALLOC_NONLIVE] = 2; W[O_REALLOC_FAIL] = 2;
        W[O_ENABLE] = W[O_DISABLE] = W[O_START] = W[O_STOP] = per;
        W[O_STAGE_INC] = W[O_STAGE_DEC] = stg; W[O_STAGE_RELEASE] = bulk;
        W[O_CLEAR_ALL] = bulk > 1 ? bulk / 2 : 1; W[O_CLEAR_DIS] = W[O_CLEAR_EN] = W[O_CLEAR_CHK] = bulk; W[O_MARK] = bulk * 2;
        W[O_REPORT_ALL] = W[O_REPORT_DIS] = W[O_REPORT_EN] = W[O_REPORT_CHK] = rep; W[O_PROBE] = 6; W[O_TESTBOUNDARY] = per; W[O_FORGET] = global ? 0 : 2;
    };
    switch (P.style) {
        case 0: setw(40, 60, 4, 12, 5, 4, 1, 4); break;
        case 1: setw(40, 90, 6, 30, 3, 2, 1, 3); break;
        case 2: setw(40, 50, 3, 10, 14, 10, 2, 6); break;
        default: setw(50, 40, 3, 8, 8, 8, 5, 5); break;
    }
    auto pick_live = [&]() -> uintptr_t { auto it = h.live.begin(); std::advance(it, (long) r.below(h.live.size())); return it->first; };
    auto residue = [&]() -> int { return P.residues[r.below(P.residues.size())]; };

    // a realistic prologue: the plugin enables the detector and starts checking
    if (r.chance(70)) h.op_period(O_ENABLE);
    if (r.chance(50)) h.op_period(O_START);

    for (int i = 0; i < P.nops && !h.dead; i++) {
        size_t nl = h.live.size();
        int w[O_N]; long tot = 0;
        for (int k = 0; k < O_N; k++) {
            w[k] = W[k];
            bool is_alloc = k <= O_ALLOC_MALLOC || k == O_REALLOC_NULL;
            if (is_alloc) { if ((int) nl >= P.maxlive) w[k] = 0; else if ((int) nl < P.maxlive / 3) w[k] *= 3; }
            if ((k == O_FREE || k == O_FREE_MISMATCH || k == O_FREE_INTERIOR || k == O_REALLOC_GROW || k == O_REALLOC_SHRINK || k == O_REALLOC_FAIL || k == O_FORGET) && nl == 0) w[k] = 0;
            if (k == O_FREE && (int) nl >= P.maxlive) w[k] *= 3;
            if (k == O_FREE_STALE && h.stale.empty()) w[k] = 0;
            if (k == O_FREE_CLEARED && h.cleared.empty()) w[k] = 0;
            if ((k >= O_CLEAR_ALL && k <= O_MARK) && nl < 2) w[k] = 0;
            tot += w[k];
        }
        long x = (long) r.below((uint64_t) tot); int k = 0;
        while (x >= w[k]) { x -= w[k]; k++; }
        switch (k) {
            case O_ALLOC_NEW: case O_ALLOC_NEWARR: case O_ALLOC_MALLOC: {
                int fam = k - O_ALLOC_NEW; bool sep = fam == 2 ? !r.chance(15) : r.chance(25);
                h.op_alloc(fam, sep, gen_size(r, P.sizeprof), residue(), (int) r.below(4), false); break; }
            case O_ALLOC_FAIL: h.op_alloc((int) r.below(3), r.chance(50), gen_size(r, P.sizeprof), residue(), 1, true); break;
            case O_FREE: h.op_free_live(pick_live(), (int) r.below(8), false); break;
            case O_FREE_MISMATCH: {
                uintptr_t a = pick_live();
                if (global && h.live[a].fam == 2) { h.op_free_live(a, (int) r.below(8), false); break; }   // malloc<->new mixes node layouts: caller obligation
                h.op_free_live(a, (int) r.below(8), true); break; }
            case O_FREE_STALE: {
                uintptr_t a = h.stale[r.below(h.stale.size())];
                if (h.live.count(a) || h.cleared.count(a)) break;    // address is in use again
                h.op_free_nonlive(O_FREE_STALE, a, (int) r.below(3), r.chance(50), (int) r.below(8)); break; }
            case O_FREE_FOREIGN: {
                uintptr_t a = foreign_addr(r, h, residue());
                if (a == 0 || h.live.count(a) || h.cleared.count(a)) break;
                h.op_free_nonlive(O_FREE_FOREIGN, a, (int) r.below(3), r.chance(50), (int) r.below(8)); break; }
            case O_FREE_INTERIOR: {
                uintptr_t a = pick_live(); const MBlock& b = h.live[a];
                size_t off = b.size >= HASHP && r.chance(60) ? HASHP * (1 + r.below(b.size / HASHP)) : 1 + r.below(b.size + 1);
                if (h.live.count(a + off) || h.cleared.count(a + off)) break;
                h.op_free_nonlive(O_FREE_INTERIOR, a + off, b.fam, b.sep, (int) r.below(8)); break; }
            case O_FREE_NULL: h.op_free_nonlive(O_FREE_NULL, 0, (int) r.below(3), r.chance(50), (int) r.below(8)); break;
            case O_FREE_CLEARED: {
                auto it = h.cleared.begin(); std::advance(it, (long) r.below(h.cleared.size()));
                h.op_free_nonlive(O_FREE_CLEARED, it->first, it->second.fam, it->second.sep, (int) r.below(8)); break; }
            case O_REALLOC_GROW: case O_REALLOC_SHRINK: case O_REALLOC_FAIL: {
                uintptr_t a = 0;
                if (global) { std::vector<uintptr_t> ms; for (auto& kv : h.live) if (kv.second.fam == 2) ms.push_back(kv.first); if (ms.empty()) break; a = ms[r.below(ms.size())]; }
                else a = pick_live();
                size_t os = h.live[a].size, ns;
                if (k == O_REALLOC_SHRINK) ns = os ? (size_t) r.below(os + 1) : 0; else ns = os + (r.chance(50) ? r.below(17) : gen_size(r, P.sizeprof));
                h.op_realloc_live(a, ns, residue(), r.chance(50), (int) r.below(2), k == O_REALLOC_FAIL); break; }
            case O_REALLOC_NULL: h.op_realloc_null((int) r.below(3), r.chance(60), gen_size(r, P.sizeprof), residue(), (int) r.below(2)); break;
            case O_REALLOC_NONLIVE: {
                uintptr_t a = !h.stale.empty() && r.chance(50) ? h.stale[r.below(h.stale.size())] : foreign_addr(r, h, residue());
                if (a == 0 || h.live.count(a) || h.cleared.count(a)) break;
                h.op_realloc_nonlive(a, (int) r.below(3), r.chance(50), gen_size(r, P.sizeprof)); break; }
            case O_ENABLE: case O_DISABLE: case O_START: case O_STOP: h.op_period(k); break;
            case O_STAGE_INC: h.op_stage(true); break;
            case O_STAGE_DEC: h.op_stage(false); break;
            case O_STAGE_RELEASE: h.op_stage_release(); break;
            case O_CLEAR_ALL: case O_CLEAR_DIS: case O_CLEAR_EN: case O_CLEAR_CHK: h.op_clear(k - O_CLEAR_ALL); break;
            case O_MARK: h.op_mark(); break;
            case O_REPORT_ALL: case O_REPORT_DIS: case O_REPORT_EN: case O_REPORT_CHK: h.op_report(k - O_REPORT_ALL, h.buflen > 1000 || r.chance(60)); break;
            case O_PROBE: h.op_probe(); break;
            case O_FORGET: h.op_forget(pick_live()); break;
            default: {   // what MemoryLeakWarningPlugin does between two tests
                h.kind(O_TESTBOUNDARY);
                h.op_period(O_STOP); if (h.dead) break;
                h.op_report(P_CHK, false); if (h.dead) break;
                h.op_mark(); if (h.dead) break;
                h.op_period(O_START); break; }
        }
    }
    if (!h.dead && r.chance(85)) h.drain(r);
    else if (!h.dead) h.full_check();
    h.finish("rand");
}

static void sec_private_libc(vf::Ctx& c) { run_random(c, false, false); }
static void sec_private_arena(vf::Ctx& c) { run_random(c, false, true); }
static void sec_global_libc(vf::Ctx& c) { run_random(c, true, false); }
static void sec_global_arena(vf::Ctx& c) { run_random(c, true, true); }

// ================================================================ exhaustive: removal orders out of chains of 1..5 blocks
static std::vector<std::vector<int> > g_perms;
static void init_perms() {
    for (int L = 1; L <= 5; L++) { std::vector<int> p; for (int i = 0; i < L; i++) p.push_back(i); do g_perms.push_back(p); while (std::next_permutation(p.begin(), p.end())); }
}
static uint64_t chain_orders_total() { return (uint64_t) g_perms.size() * 3 * 2 * 2; }

static void sec_chain_orders(vf::Ctx& c) {
    uint64_t i = c.idx;
    size_t pi = (size_t) (i % g_perms.size()); i /= g_perms.size();
    int pattern = (int) (i % 3); i /= 3; int layout = (int) (i % 2); i /= 2; int rkind = (int) (i % 2);
    const std::vector<int>& perm = g_perms[pi];
    int L = (int) perm.size();
    std::string ps; for (int x : perm) ps += (char) ('0' + x);
    c.begin([=] { return vf::J().k("chain_length", L).k("removal_order", ps).k("bucket_pattern", pattern == 0 ? "one bucket" : pattern == 1 ? "buckets 0,0,1,72,72" : "libc").k("layout", layout ? "alternating separate/inline" : "inline")
                      .k("removal", rkind ? "realloc" : "free").k("trace", trace_excerpt()).str(); });
    Hist h(c, false, pattern != 2, false, false);
    static const int SPREAD[] = { 0, 0, 1, 72, 72 };
    int r1 = (int) ((pi * 7) % HASHP);
    std::vector<uintptr_t> addr;
    for (int b = 0; b < L && !h.dead; b++) {
        h.set_period(1 + (b + (int) pi) % 3);
        h.set_stage((unsigned char) (b % 2));
        addr.push_back(h.op_alloc(b % 3, layout ? (b % 2 == 1) : false, (size_t) (3 * b + 2), pattern == 0 ? r1 : SPREAD[b], 1, false));
    }
    if (!h.dead) h.full_check();
    for (int s = 0; s < L && !h.dead; s++) {
        uintptr_t a = addr[(size_t) perm[(size_t) s]];
        int per = h.live[a].period;
        if (rkind == 0) h.op_free_live(a, s, false);
        else h.op_realloc_live(a, h.live[a].size + 5, pattern == 0 ? r1 : SPREAD[perm[(size_t) s]], false, 1, false);
        if (h.dead) break;
        h.op_report(P_ALL, true); if (h.dead) break;
        h.op_report(per, true); if (h.dead) break;
        h.op_probe();
    }
    if (!h.dead) h.drain(c.rng);
    h.finish("orders:" + std::to_string(c.idx));
}

// ================================================================ exhaustive: bulk operations over every period / stage assignment of 1..6 chained blocks
static const uint64_t POW3[] = { 1, 3, 9, 27, 81, 243, 729 };
static const uint64_t BULK_ASSIGN = 3 + 9 + 27 + 81 + 243 + 729;   // 1092
static uint64_t chain_bulk_total() { return BULK_ASSIGN * 8 * 3; }

static void sec_chain_bulk(vf::Ctx& c) {
    uint64_t i = c.idx;
    uint64_t a = i % BULK_ASSIGN; i /= BULK_ASSIGN; int op = (int) (i % 8); i /= 8; int pattern = (int) (i % 3);
    int L = 1; while (a >= POW3[L]) { a -= POW3[L]; L++; }
    int d[6]; std::string ds;
    for (int b = 0; b < L; b++) { d[b] = (int) (a % 3); a /= 3; ds += (char) ('0' + d[b]); }
    static const char* OPN[] = { "clear(all)", "clear(disabled)", "clear(enabled)", "clear(checking)", "mark", "stage_release(0)", "stage_release(1)", "stage_release(2)" };
    c.begin([=] { return vf::J().k("chain_length", L).k(op < 5 ? "periods(0=dis,1=en,2=chk)" : "stages", ds).k("operation", OPN[op]).k("bucket_pattern", pattern == 0 ? "one bucket" : pattern == 1 ? "adjacent buckets" : "libc").k("trace", trace_excerpt()).str(); });
    Hist h(c, false, pattern != 2, false, false);
    int base = (c.idx % 2) ? 0 : 70;
    for (int b = 0; b < L && !h.dead; b++) {
        int per = op < 5 ? d[b] + 1 : 1 + b % 3;
        int stg = op < 5 ? b % 3 : d[b];
        h.set_period(per); h.set_stage((unsigned char) stg);
        h.op_alloc((b + op) % 3, (b + op) % 2 == 1, (size_t) (2 + (b * 5 + op) % 19), pattern == 0 ? base : base + b % 3, 1, false);
    }
    if (!h.dead) h.full_check();
    if (!h.dead) {
        if (op < 4) h.op_clear(op);
        else if (op == 4) h.op_mark();
        else { h.set_stage((unsigned char) (op - 5)); if (!h.dead) h.op_stage_release(); }
    }
    if (!h.dead) h.full_check();
    if (!h.dead) h.drain(c.rng);
    h.finish("bulk:" + std::to_string(c.idx));
}

static void init_env() {
    void* m = mmap(nullptr, ARENA_CAP + FOREIGN_ZONE + 4096, PROT_READ | PROT_WRITE, MAP_PRIVATE | MAP_ANONYMOUS | MAP_NORESERVE, -1, 0);
    if (m == MAP_FAILED) { perror("mmap"); _exit(2); }
    g_arena = (char*) m;
    VF_POISON(g_arena, ARENA_CAP + FOREIGN_ZONE + 4096);
    g_saved_det = MemoryLeakWarningPlugin::getGlobalDetector();
    g_saved_rep = MemoryLeakWarningPlugin::getGlobalFailureReporter();
}

int main(int argc, char** argv) {
    // Outside a window the global operator new/delete and cpputest_malloc/free are plain libc: the monitors' own
    // containers are independent of the code under test (a broken table must show up in the monitored
    // operations, not kill the harness in its own bookkeeping).
    MemoryLeakWarningPlugin::turnOffNewDeleteOverloads();
    init_perms();
    std::vector<vf::Section> S = {
        { "chain_removal_orders", chain_orders_total(), chain_orders_total(), sec_chain_orders, true },
        { "chain_bulk_ops", chain_bulk_total(), chain_bulk_total(), sec_chain_bulk, true },
        { "hist_private_arena", 8000, 80000, sec_private_arena, false },
        { "hist_private_libc", 4000, 40000, sec_private_libc, false },
        { "hist_global_arena", 4000, 40000, sec_global_arena, false },
        { "hist_global_libc", 2500, 25000, sec_global_libc, false },
    };
    return vf::harness_main(argc, argv, S, init_env);
}
