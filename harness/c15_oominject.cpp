// C15 — injected out-of-memory hits exactly the designated allocations.
//
// Real code: FailableMemoryAllocator (failAllocNumber / failNthAllocAt / checkAllFailedAllocsWereDone /
// clearFailedAllocs), used directly and installed behind operator new / new[] / cpputest_malloc & friends,
// and the C-level countdown (cpputest_malloc_set_out_of_memory[_countdown] / _set_not_out_of_memory).
// Oracle: set-membership model — allocation #k (since construction / last clear) at location l with local
// index j fails iff k is a designated global index or (l, j) is a designated pair; registration order is
// irrelevant; failed requests count. C level: malloc-type request k after countdown(n) fails iff k >= n.
//
// Scoping decisions (soundness):
//  * global designations are only registered while the allocator's count is 0 (fresh / just cleared) and
//    location designations only for locations that had no request yet: "n-th since registration" and "n-th
//    since construction/clear" then coincide, so neither reading is demanded over the other.
//  * a location is (file content, line): two different char arrays with the same text are the same location.
//  * realloc never goes through a TestMemoryAllocator, so it is not part of the FailableMemoryAllocator
//    histories; at C level realloc is mixed in before the countdown expires and both readings ("realloc
//    counts as an allocation" / "does not count") are accepted for the following requests.
//  * free / realloc of a live block while out-of-memory is simulated is never generated (cpputest reports an
//    allocator type mismatch there; the property does not speak about releases).
//  * throwing forms of new may throw bad_alloc or return NULL ("return NULL (or throw bad_alloc)").
//  * a location name is the whole file text: section location_name_discrimination enumerates pairs of names whose first
//    difference is at every position 0..272 (other character / case / proper prefix either way).
//  * C level with the malloc allocator changed by the test between out-of-memory episodes (standard / two failable
//    allocators that count the requests reaching them): "clearing the injections restores normal behaviour" is judged as
//    "requests the simulated out-of-memory does not answer are answered by the allocator the test put in effect, under
//    that allocator's own designations". The allocator is changed only while no injection is armed. Clearing an injection
//    that never entered the out-of-memory state (unexpired countdown) under a non-standard allocator is counted only:
//    the unchanged cpputest installs the standard allocator there (TestHarness_c.cpp, originalAllocator still NULL).
//  * "reported when the test asks for that check": the place of the request inside the test is a dimension of every
//    FailableMemoryAllocator history - in the body of a test without a failure so far, in the body after an earlier
//    (non-terminating) failure of the same test, in teardown() after a passing body, in teardown() after a body that
//    failed for an unrelated reason. Judged everywhere alike: the check adds a failure of its own iff a designation is
//    pending (the failure the test recorded before is subtracted, the wording is only judged when recognised).
//  * boundary values of the location dimension: ("<unknown>", 0) is a location like any other - it is the one every allocation
//    made WITHOUT location information reports to the allocator (cpputest_malloc / calloc / strdup / strndup without
//    _location, plain and nothrow operator new / new[]). The model therefore counts those allocations at ("<unknown>", 0),
//    together with allocations that name that location explicitly (through the harness's own copy of the text), and a
//    designation there interleaves located and un-located allocations. Line 0 with a real file name, "<unknown>" with a real
//    line and a line above 65535 (equal to line 10 modulo 2^16) are further locations of the random histories, of fault
//    enumeration workload 4 and (the "<unknown>":0 one) of the failable malloc allocators of the C-level episodes.
//  * the C interface's allocation statistics (cpputest_malloc_count_reset / cpputest_malloc_get_count) are part of the
//    C-level histories: they may be called anywhere, also while a countdown is pending. They are no injection calls, so
//    the model ignores them; the value get_count returns is observed and counted, never judged (outside the statement).
#include "verif.h"
#include <new>
#include <climits>
#include <sys/types.h>
#include <sys/wait.h>

#include "CppUTest/TestHarness.h"
#include "CppUTest/TestTestingFixture.h"
#include "CppUTest/TestMemoryAllocator.h"
#include "CppUTest/MemoryLeakWarningPlugin.h"
#include "CppUTest/TestHarness_c.h"
#undef new

// ================================================================ locations
struct Loc { const char* file; size_t line; int id; const char* tag; };
static char F_A1[] = "fileA.c";
static char F_A2[] = "fileA.c";          // same text, different address: the same source location
static char F_B[] = "fileB.c";
static char F_AP[] = "fileA.cpp";        // "fileA.c" is a proper prefix
static char F_DIR[] = "dir/fileA.c";     // "fileA.c" is a proper suffix
// long build-tree paths (as __FILE__ spells them in an out-of-tree build) that agree in their first 90 characters
static char F_LA[] = "/home/builder/workspace/product/firmware/components/connectivity/transport/source/session_alpha.c";
static char F_LB[] = "/home/builder/workspace/product/firmware/components/connectivity/transport/source/session_beta.c";
// two scratch names, rewritten by the name-discrimination section for every case (ids 7 and 8)
static const int NAME_PMAX = 272;
static char DYN_X[NAME_PMAX + 32], DYN_Y[NAME_PMAX + 32];
// boundary values of the location dimension. ("<unknown>", 0) is the location every allocation WITHOUT location
// information reports to the allocator (cpputest_malloc/calloc/strdup/strndup without _location, plain and nothrow
// operator new / new[]): the harness's own copy of the text is a second file pointer for it. Line 0 with a real file
// name, the "<unknown>" name with a real line, and a line above 65535 that equals line 10 modulo 2^16.
static char F_UNK[] = "<unknown>";
static const Loc LOCS[] = {
    { F_A1, 10, 0, "A10" }, { F_A1, 11, 1, "A11" }, { F_B, 10, 2, "B10" }, { F_A2, 10, 0, "A10alias" }, { F_AP, 10, 3, "Acpp10" }, { F_DIR, 10, 4, "dirA10" },
    { F_LA, 10, 5, "longAlpha10" }, { F_LB, 10, 6, "longBeta10" }, { DYN_X, 10, 7, "X10" }, { DYN_Y, 10, 8, "Y10" },
    { F_UNK, 0, 9, "unknown0" }, { F_A1, 0, 10, "A0" }, { F_UNK, 10, 11, "unknown10" }, { F_A2, 65546, 12, "A65546" },
};
static const int NLOC = 14, NLOC_RANDOM = 8, NLOCID = 13;
enum { L_DYN_X = 8, L_DYN_Y = 9, L_UNK0 = 10, L_A0 = 11, L_UNK10 = 12, L_A65546 = 13 };
// class of a boundary location (names the input class in violation keys and counters); "" for an ordinary one
static const char* loc_class(int L) { return L == L_UNK0 ? "unknown-file-line-0" : L == L_A0 ? "line-0" : L == L_UNK10 ? "unknown-file" : L == L_A65546 ? "line-above-65535" : ""; }

// ================================================================ model (independent of the implementation)
struct MDes { bool isLoc; int n; int locid; bool fired; int L; };
struct Model {
    int count = 0; int cnt[NLOCID] = {}; int clears = 0;
    std::vector<MDes> des;
    // returns bit 1: a global designation hit, bit 2: a location designation hit
    int alloc(int locid) {
        count++; if (locid >= 0) cnt[locid]++;
        int hit = 0;
        for (MDes& d : des) {
            if (d.fired) continue;
            if (d.isLoc ? (locid == d.locid && cnt[locid] == d.n) : (count == d.n)) { d.fired = true; hit |= d.isLoc ? 2 : 1; }
        }
        return hit;
    }
    int pending() const { int k = 0; for (const MDes& d : des) if (!d.fired) k |= d.isLoc ? 2 : 1; return k; }
    // a pending location designation at a boundary location (line-0 locations first): its LOCS index + 1
    int pending_boundary() const {
        for (int pass = 0; pass < 2; pass++) for (const MDes& d : des) if (!d.fired && d.isLoc && d.L >= 0 && loc_class(d.L)[0] && (pass == 1 || LOCS[d.L].line == 0)) return d.L + 1;
        return 0;
    }
    void clear() { des.clear(); count = 0; for (int& x : cnt) x = 0; clears++; }
};
static const char* kindname(int k) { return k == 1 ? "global" : k == 2 ? "location" : k == 3 ? "both" : "none"; }

// ================================================================ scenario
enum { MODE_DIRECT = 0, MODE_INSTALLED = 1 };
enum { K_REG, K_ALLOC, K_FREE, K_CHECK, K_CLEAR };
// where in the test the check is asked for
enum { CX_BODY = 0, CX_BODY_AFTER_NONFATAL_FAILURE, CX_TEARDOWN_AFTER_PASSING_BODY, CX_TEARDOWN_AFTER_FAILING_BODY, CX_N };
static const char* CX_NAME[] = { "body", "body-after-nonfatal-failure", "teardown-after-passing-body", "teardown-after-failing-body" };
static int cx_prefail(int cx) { return cx == CX_BODY_AFTER_NONFATAL_FAILURE || cx == CX_TEARDOWN_AFTER_FAILING_BODY ? 1 : 0; }
enum { F_DIRECT, F_NEW, F_NEWA, F_NEW_NT, F_NEWA_NT, F_NEW_PLAIN, F_NEWA_PLAIN, F_MALLOC, F_MALLOC_NL, F_CALLOC, F_STRDUP, F_STRNDUP, F_N };
static const char* FAM_NAME[] = { "direct", "new", "new[]", "new-nothrow", "new[]-nothrow", "new-plain", "new[]-plain", "malloc", "malloc-noloc", "calloc", "strdup", "strndup" };
static int fam_group(int f) { if (f == F_DIRECT) return -1; if (f == F_NEW || f == F_NEW_NT || f == F_NEW_PLAIN) return 0; if (f == F_NEWA || f == F_NEWA_NT || f == F_NEWA_PLAIN) return 1; return 2; }
static bool fam_has_loc(int f) { return f == F_DIRECT || f == F_NEW || f == F_NEWA || f == F_MALLOC || f == F_CALLOC || f == F_STRDUP || f == F_STRNDUP; }
static bool fam_throws(int f) { return f == F_NEW || f == F_NEWA || f == F_NEW_PLAIN || f == F_NEWA_PLAIN; }
enum { O_NONE = 0, O_OK, O_NULL, O_BADALLOC, O_OTHER };

struct Step {
    int kind, a, L, n, fam, size, aux, victim, ctx; bool isLoc;
    // expectation (from the model, computed while the scenario is built)
    bool exp_fail; int hit; bool after_clear; int pend; bool exp_checkfail;
    int gidx, lidx;          // overall index / index at its location of an allocation (model)
    int pend_bnd;            // a location designation at a boundary location (loc_class) is pending: its LOCS index + 1
    // observation (written by the test body: plain data only)
    int obs; bool content_bad; bool reached, returned; int fail_delta;
};
static const int MAXSTEPS = 400;
static Step g_steps[MAXSTEPS];
static const int MAXLIVE = 256;
struct Live { void* p; int fam, a, size, L; unsigned char fill; };

struct Run {
    int mode; int route[3]; bool ts; int nsteps; int nalloc;
    int cursor; bool finished; bool installed; int segments; Step* teardown_check;
    Live live[MAXLIVE]; int nlive;
    FailableMemoryAllocator* fa[2];
    GlobalMemoryAllocatorStash stash;
};
static Run g_run;

static char SRC[130];     // source text for strdup/strndup

struct Builder {
    int mode; int route[3]; bool ts; int nalloc;
    Model model[2];
    int n = 0;
    std::vector<std::vector<std::string>> accept;   // per CHECK step: texts naming a pending designation
    bool overflow = false;
    std::string note;      // extra JSON object describing how the case was derived (sections that decode an index)
    Builder(int mode_, int nalloc_, const int* route_, bool ts_) : mode(mode_), ts(ts_), nalloc(nalloc_) { for (int g = 0; g < 3; g++) route[g] = route_ ? route_[g] : -1; accept.resize(MAXSTEPS); }
    Step* push(int kind) { if (n >= MAXSTEPS) { overflow = true; return &g_steps[MAXSTEPS - 1]; } Step* s = &g_steps[n++]; memset((void*) s, 0, sizeof *s); s->kind = kind; s->a = -1; s->L = -1; return s; }
    void reg(int a, bool isLoc, int num, int L) {
        Step* s = push(K_REG); s->a = a; s->isLoc = isLoc; s->n = num; s->L = isLoc ? L : -1;
        MDes d; d.isLoc = isLoc; d.n = num; d.locid = isLoc ? LOCS[L].id : -1; d.fired = false; d.L = isLoc ? L : -1; model[a].des.push_back(d);
    }
    // a_direct only used in direct mode
    void alloc(int a_direct, int L, int fam, int size, int aux = 0) {
        // an allocation without location information is an allocation at ("<unknown>", 0)
        Step* s = push(K_ALLOC); s->fam = fam; s->size = size; s->aux = aux; s->L = fam_has_loc(fam) ? L : L_UNK0;
        s->a = fam == F_DIRECT ? a_direct : route[fam_group(fam)];
        if (s->a >= 0) {
            Model& m = model[s->a];
            s->pend = m.pending(); s->pend_bnd = m.pending_boundary();
            s->hit = m.alloc(LOCS[s->L].id);
            s->gidx = m.count; s->lidx = m.cnt[LOCS[s->L].id];
            s->exp_fail = s->hit != 0; s->after_clear = m.clears > 0;
        }
    }
    void free_(int victim) { Step* s = push(K_FREE); s->victim = victim; }
    void check(int a, int ctx = CX_BODY) {
        int at = n; Step* s = push(K_CHECK); s->a = a; s->ctx = ctx; s->pend = model[a].pending(); s->exp_checkfail = s->pend != 0; s->after_clear = model[a].clears > 0;
        if (at < MAXSTEPS) for (const MDes& d : model[a].des) if (!d.fired) {
            if (d.isLoc) { for (int L = 0; L < NLOC; L++) if (LOCS[L].id == d.locid) accept[at].push_back(std::string("Expected failing alloc at ") + LOCS[L].file + ":" + std::to_string((int) LOCS[L].line) + " was never done"); }
            else accept[at].push_back("Expected allocation number " + std::to_string(d.n) + " was never done");
        }
    }
    void clear(int a) { Step* s = push(K_CLEAR); s->a = a; model[a].clear(); }

    std::string describe() const {
        std::vector<std::string> it;
        for (int i = 0; i < n; i++) {
            const Step& s = g_steps[i]; char b[96];
            switch (s.kind) {
            case K_REG: if (s.isLoc) snprintf(b, sizeof b, "reg a%d #%d@%s", s.a, s.n, LOCS[s.L].tag); else snprintf(b, sizeof b, "reg a%d global#%d", s.a, s.n); break;
            case K_ALLOC: snprintf(b, sizeof b, "%s %s@%s size=%d%s", s.a >= 0 ? (s.a ? "a1" : "a0") : "dflt", FAM_NAME[s.fam], s.L >= 0 ? LOCS[s.L].tag : "-", s.size, s.exp_fail ? " =>FAIL" : ""); break;
            case K_FREE: snprintf(b, sizeof b, "free %d", s.victim); break;
            case K_CHECK: snprintf(b, sizeof b, "check a%d in %s%s", s.a, CX_NAME[s.ctx], s.exp_checkfail ? " =>REPORT" : ""); break;
            default: snprintf(b, sizeof b, "clear a%d", s.a); break;
            }
            it.push_back(vf::jstr(b));
        }
        return vf::J().k("mode", mode == MODE_DIRECT ? "direct" : "installed").k("allocators", nalloc)
            .raw("route_new_newarr_malloc", vf::jarr({ std::to_string(route[0]), std::to_string(route[1]), std::to_string(route[2]) })).k("threadsafe_overloads", ts)
            .raw("derivation", note.empty() ? std::string("null") : note).raw("steps", vf::jarr(it)).str();
    }
};

// ================================================================ the test body (monitored window: no tracked allocation of our own)
static void install_allocators() {
    Run& r = g_run;
    if (r.mode != MODE_INSTALLED || r.installed) return;
    r.stash.save();
    if (r.route[0] >= 0) setCurrentNewAllocator(r.fa[r.route[0]]);
    if (r.route[1] >= 0) setCurrentNewArrayAllocator(r.fa[r.route[1]]);
    if (r.route[2] >= 0) setCurrentMallocAllocator(r.fa[r.route[2]]);
    if (r.ts) MemoryLeakWarningPlugin::turnOnThreadSafeNewDeleteOverloads();
    r.installed = true;
}
static void release_block(Live& b) {
    const char* file = b.L >= 0 ? LOCS[b.L].file : "rel"; size_t line = b.L >= 0 ? LOCS[b.L].line : 1;
    switch (fam_group(b.fam)) {
    case -1: g_run.fa[b.a]->free_memory((char*) b.p, (size_t) b.size, file, line); break;
    case 0: ::operator delete(b.p); break;
    case 1: ::operator delete[](b.p); break;
    default: cpputest_free_location(b.p, file, line); break;
    }
}
static bool pattern_ok(const Live& b) { const unsigned char* q = (const unsigned char*) b.p; for (int i = 0; i < b.size; i++) if (q[i] != b.fill) return false; return true; }
static void free_all_live(Step* blame) {
    Run& r = g_run;
    for (int i = 0; i < r.nlive; i++) { if (!pattern_ok(r.live[i]) && blame) blame->content_bad = true; release_block(r.live[i]); }
    r.nlive = 0;
}
static void uninstall_allocators() {
    Run& r = g_run;
    if (!r.installed) return;
    if (r.ts) MemoryLeakWarningPlugin::turnOnDefaultNotThreadSafeNewDeleteOverloads();
    r.stash.restore();
    r.installed = false;
}

static void do_alloc(Step& s, int stepno) {
    Run& r = g_run;
    const char* file = s.L >= 0 ? LOCS[s.L].file : "noloc"; size_t line = s.L >= 0 ? LOCS[s.L].line : 0;
    void* p = NULL; size_t sz = (size_t) s.size; int eff = s.size;
    const char* src = NULL;
#ifndef VF_NOEXC
    try {
#else
    {
#endif
        switch (s.fam) {
        case F_DIRECT: p = ((TestMemoryAllocator*) r.fa[s.a])->alloc_memory(sz, file, line); break;
        case F_NEW: p = ::operator new(sz, file, line); break;
        case F_NEWA: p = ::operator new[](sz, file, line); break;
        case F_NEW_NT: p = ::operator new(sz, std::nothrow); break;
        case F_NEWA_NT: p = ::operator new[](sz, std::nothrow); break;
        case F_NEW_PLAIN: p = ::operator new(sz); break;
        case F_NEWA_PLAIN: p = ::operator new[](sz); break;
        case F_MALLOC: p = cpputest_malloc_location(sz, file, line); break;
        case F_MALLOC_NL: p = cpputest_malloc(sz); break;
        case F_CALLOC: { size_t es = (size_t) s.aux, nm = (sz + es - 1) / es; eff = (int) (nm * es); p = cpputest_calloc_location(nm, es, file, line);
                         if (p) for (int i = 0; i < eff; i++) if (((unsigned char*) p)[i] != 0) s.content_bad = true; break; }
        case F_STRDUP: src = SRC + (128 - (s.size - 1)); p = cpputest_strdup_location(src, file, line);
                       if (p && (strlen((char*) p) != (size_t) s.size - 1 || memcmp(p, src, (size_t) s.size) != 0)) s.content_bad = true; break;
        case F_STRNDUP: { // aux = length of the source string (>= or < n = size-1)
                         src = SRC + (128 - s.aux); size_t nn = (size_t) s.size - 1; size_t want = (size_t) s.aux < nn ? (size_t) s.aux : nn; eff = (int) want + 1;
                         p = cpputest_strndup_location(src, nn, file, line);
                         if (p && (strlen((char*) p) != want || memcmp(p, src, want) != 0)) s.content_bad = true; break; }
        }
        // the compiler may assume that a throwing form of operator new never returns NULL and drop the tests below;
        // "return NULL (or throw bad_alloc)" is accepted from every form, so the result is made opaque first
        __asm__ __volatile__("" : "+r"(p));
        s.obs = p ? O_OK : O_NULL;
    }
#ifndef VF_NOEXC
    catch (const std::bad_alloc&) {
        s.obs = O_BADALLOC;
    }
#endif
    if (p) {
        if (r.nlive >= MAXLIVE) free_all_live(&s);
        Live& b = r.live[r.nlive++]; b.p = p; b.fam = s.fam; b.a = s.a; b.size = eff; b.L = s.L; b.fill = (unsigned char) (0x40 + stepno % 150);
        memset(p, b.fill, (size_t) eff);
    }
}

static void scenario_body() {
    Run& r = g_run;
    r.segments++;
    install_allocators();
    while (r.cursor < r.nsteps) {
        int stepno = r.cursor;
        Step& s = g_steps[r.cursor++];
        switch (s.kind) {
        case K_REG:
            if (s.isLoc) r.fa[s.a]->failNthAllocAt(s.n, LOCS[s.L].file, LOCS[s.L].line); else r.fa[s.a]->failAllocNumber(s.n);
            break;
        case K_ALLOC: do_alloc(s, stepno); break;
        case K_FREE:
            if (r.nlive > 0) { int v = s.victim % r.nlive; if (!pattern_ok(r.live[v])) s.content_bad = true; release_block(r.live[v]); r.live[v] = r.live[--r.nlive]; }
            break;
        case K_CLEAR: r.fa[s.a]->clearFailedAllocs(); break;
        case K_CHECK:
            free_all_live(&s); uninstall_allocators();
            if (s.ctx == CX_BODY_AFTER_NONFATAL_FAILURE) { UtestShell* t = UtestShell::getCurrent(); t->addFailure(FailFailure(t, "unrelated.c", 7, "the code under test did not behave")); }
            if (s.ctx == CX_TEARDOWN_AFTER_PASSING_BODY || s.ctx == CX_TEARDOWN_AFTER_FAILING_BODY) {
                r.teardown_check = &s;        // the check is asked for in teardown()
                if (s.ctx == CX_TEARDOWN_AFTER_FAILING_BODY) FAIL("the code under test did not behave");     // leaves the body
                return;
            }
            s.reached = true;
            r.fa[s.a]->checkAllFailedAllocsWereDone();     // leaves by exception when it fails the test
            s.returned = true;
            return;
        }
    }
    free_all_live(NULL); uninstall_allocators();
    r.finished = true;
}

static void scenario_teardown() {
    Run& r = g_run;
    Step* s = r.teardown_check; if (!s) return;
    r.teardown_check = NULL;
    s->reached = true;
    r.fa[s->a]->checkAllFailedAllocsWereDone();
    s->returned = true;
}

// ================================================================ run + judge
static void viol_once(vf::Ctx& c, std::set<std::string>& seen, const std::string& key, const std::string& detail) { if (seen.insert(key).second) c.violation(key, detail); }
static std::string us(std::string t) { for (char& ch : t) if (ch == '-') ch = '_'; return t; }

static void run_and_judge(vf::Ctx& c, Builder& b, const std::string& ntsig, bool nontrivial) {
    std::string desc = b.describe();
    c.begin([desc] { return desc; });
    if (b.overflow) { c.count("scenario_too_long_skipped"); return; }
    Run& r = g_run;
    r.mode = b.mode; for (int g = 0; g < 3; g++) r.route[g] = b.route[g]; r.ts = b.ts; r.nsteps = b.n; r.nalloc = b.nalloc;
    r.cursor = 0; r.finished = false; r.installed = false; r.segments = 0; r.nlive = 0; r.teardown_check = NULL;
    FailableMemoryAllocator fa0("Failable allocator 0", "falloc0", "ffree0"), fa1("Failable allocator 1", "falloc1", "ffree1");
    r.fa[0] = &fa0; r.fa[1] = &fa1;
    std::set<std::string> seen;
    std::string md = b.mode == MODE_DIRECT ? "fa-direct" : "fa-installed";
    {
        TestTestingFixture fx;
        fx.setTestFunction(scenario_body);
        fx.setTeardown(scenario_teardown);
        size_t out_len = 0;
        int guard = 0;
        while (!r.finished && guard++ < MAXSTEPS + 2) {
            size_t f0 = fx.getFailureCount();
            int cur0 = r.cursor;
            fx.runAllTests();
            // safety net: a body left abnormally must not leave the allocators installed
            if (r.installed) { uninstall_allocators(); r.nlive = 0; }
            r.teardown_check = NULL;
            size_t delta = fx.getFailureCount() - f0;
            std::string out = fx.getOutput().asCharString();
            std::string fresh = out.size() >= out_len ? out.substr(out_len) : out; out_len = out.size();
            Step* last = r.cursor > 0 ? &g_steps[r.cursor - 1] : NULL;
            bool ended_in_check = last && last->kind == K_CHECK && last->reached && r.cursor > cur0;
            if (ended_in_check) {
                last->fail_delta = (int) delta;
                int at = r.cursor - 1;
                // failures the test itself recorded before it asked for the check are not the check's
                int prefail = cx_prefail(last->ctx);
                if ((int) delta < prefail) c.count("check_context_own_failure_not_recorded");
                int own = (int) delta - prefail;
                bool failed = own > 0 || !last->returned;
                std::string cxs = last->ctx == CX_BODY ? "" : std::string(":asked-in-") + CX_NAME[last->ctx];
                { std::string cn = std::string("check_asked_in_") + CX_NAME[last->ctx]; for (char& ch : cn) if (ch == '-') ch = '_'; c.count(cn); }
                if (last->exp_checkfail && !failed)
                    viol_once(c, seen, std::string("fa:check-silent-with-unfired:") + kindname(last->pend) + cxs, std::string("checkAllFailedAllocsWereDone (asked for in ") + CX_NAME[last->ctx] + ") returned without failing the test although a designation never fired (step " + std::to_string(at) + "; failures recorded in this test run: " + std::to_string((int) delta) + ", of which the test's own earlier failure: " + std::to_string(prefail) + ")");
                if (!last->exp_checkfail && failed)
                    viol_once(c, seen, std::string("fa:check-failed-with-none-pending") + (last->after_clear ? ":after-clear" : "") + cxs, "checkAllFailedAllocsWereDone failed the test although every designation fired / none exists (step " + std::to_string(at) + "): " + fresh.substr(0, 300));
                if (prefail) c.count(last->exp_checkfail ? (failed ? "check_reported_unfired_in_already_failed_test" : "check_silent_with_unfired_in_already_failed_test") : (failed ? "check_failed_with_none_pending_in_already_failed_test" : "check_silent_in_already_failed_test"));
                if (last->ctx == CX_TEARDOWN_AFTER_PASSING_BODY || last->ctx == CX_TEARDOWN_AFTER_FAILING_BODY) c.count(last->exp_checkfail && failed ? "check_reported_unfired_from_teardown" : "check_other_outcome_from_teardown");
                if (last->exp_checkfail && failed) {
                    if (own != 1) c.count("check_recorded_other_than_one_failure");      // observation only: the statement demands a report, not exactly one
                    // which designation the report names is judged only when the wording is the recognised one
                    // (the statement demands a report, not a particular text)
                    bool named = false;
                    for (const std::string& t : b.accept[at]) if (fresh.find(t) != std::string::npos) named = true;
                    bool recognised = fresh.find("Expected allocation number ") != std::string::npos || fresh.find("Expected failing alloc at ") != std::string::npos;
                    if (!recognised) c.count("check_report_wording_not_recognised");
                    else if (!named) viol_once(c, seen, "fa:check-report-names-no-pending-designation", "the report names a designation that is not pending: " + fresh.substr(0, 300));
                    else c.count("check_report_names_a_pending_designation");
                    c.count("check_reported_unfired");
                } else if (!last->exp_checkfail && !failed) c.count("check_silent");
            } else if (delta > 0) {
                viol_once(c, seen, "fa:unexpected-test-failure", "a test failure was recorded outside checkAllFailedAllocsWereDone: " + fresh.substr(0, 300));
            }
            if (r.cursor == cur0 && !r.finished) { viol_once(c, seen, "fa:body-made-no-progress", "scenario body did not advance"); break; }
        }
    }
    c.count("segments", (uint64_t) r.segments);
    // judge every allocation
    for (int i = 0; i < b.n; i++) {
        const Step& s = g_steps[i];
        if (s.kind == K_REG) { c.count(s.isLoc ? "designations_location" : "designations_global"); if (s.isLoc && loc_class(s.L)[0]) c.count("designations_location_" + us(loc_class(s.L))); continue; }
        if (s.kind == K_CLEAR) { c.count("clears"); continue; }
        if (s.kind != K_ALLOC) continue;
        if (s.obs == O_NONE) { viol_once(c, seen, "fa:step-not-executed", "allocation step " + std::to_string(i) + " was never executed"); continue; }
        std::string fam = FAM_NAME[s.fam];
        std::string ac = s.after_clear ? ":after-clear" : "";
        c.count("alloc_" + fam);
        // boundary values of the location dimension: class of this allocation's location / of a pending designation's
        bool unloc = !fam_has_loc(s.fam);
        std::string lc = loc_class(s.L);
        std::string hitcls = (s.hit & 2) && !lc.empty() ? ":at-" + lc + (unloc ? ":allocation-without-location-information" : "") : "";
        std::string pendcls = s.pend_bnd ? std::string(":incl-") + loc_class(s.pend_bnd - 1) : "";
        if (s.a >= 0) {
            if (unloc) c.count("alloc_without_location_information_through_failable");
            if (!lc.empty()) c.count("alloc_at_" + us(lc));
            if (s.pend_bnd) {
                c.count("alloc_while_designation_pending_at_" + us(loc_class(s.pend_bnd - 1)));
                if (s.pend_bnd - 1 == L_UNK0) c.count(unloc ? "alloc_without_location_information_while_unknown_file_line_0_designated" : LOCS[s.L].id != LOCS[L_UNK0].id ? "alloc_with_other_location_while_unknown_file_line_0_designated" : "alloc_naming_unknown_file_line_0_while_it_is_designated");
            }
            if ((s.hit & 2) && !lc.empty()) {
                c.count("designated_hit_at_" + us(lc));
                if (unloc) c.count("designated_hit_at_unknown_file_line_0_by_allocation_without_location_information");
                if (s.gidx != s.lidx) c.count(LOCS[s.L].line == 0 ? "designated_hit_at_line_0_location_overall_index_differs" : "designated_hit_at_other_boundary_location_overall_index_differs");
            }
        }
        if (s.a < 0) {
            c.count("alloc_through_unrouted_family");
            if (s.obs != O_OK) viol_once(c, seen, "fa:unrouted-family-failed:" + fam, "allocation through a family that is not routed to a failable allocator failed (step " + std::to_string(i) + ", " + md + ")");
        } else if (s.exp_fail) {
            c.count(std::string("designated_hit_") + kindname(s.hit));
            if (s.obs == O_OK) viol_once(c, seen, std::string("fa:designated-succeeded:") + kindname(s.hit) + ac + hitcls, "step " + std::to_string(i) + " (" + md + ", " + fam + ") is a designated allocation (" + kindname(s.hit) + ": allocation #" + std::to_string(s.lidx) + " at " + LOCS[s.L].tag + (unloc ? " [no location information given]" : "") + ", #" + std::to_string(s.gidx) + " overall) but returned a block");
            else if (s.obs == O_BADALLOC) { c.count("failed_by_bad_alloc"); if (!fam_throws(s.fam)) viol_once(c, seen, "fa:nothrow-form-threw:" + fam, "step " + std::to_string(i)); }
            else { c.count("failed_by_null"); if (fam_throws(s.fam)) c.count("throwing_form_returned_null"); }
        } else {
            c.count("undesignated_allocations");
            if (s.obs != O_OK) viol_once(c, seen, std::string("fa:undesignated-failed:pending=") + kindname(s.pend) + ac + pendcls, "step " + std::to_string(i) + " (" + md + ", " + fam + ", allocation #" + std::to_string(s.lidx) + " at " + LOCS[s.L].tag + (unloc ? " [no location information given]" : "") + ", #" + std::to_string(s.gidx) + " overall) is not designated but " + (s.obs == O_BADALLOC ? "threw bad_alloc" : "returned NULL"));
        }
        if (s.content_bad) viol_once(c, seen, "fa:content:" + fam, "block content wrong (calloc not zero / strdup copy differs / fill pattern damaged) at step " + std::to_string(i) + " (" + md + ")");
    }
    for (int i = 0; i < b.n; i++) if (g_steps[i].kind != K_ALLOC && g_steps[i].content_bad) viol_once(c, seen, "fa:content:pattern-damaged-at-release", "fill pattern of a live block damaged, noticed at step " + std::to_string(i));
    if (nontrivial) c.nontrivial(ntsig.empty() ? desc : ntsig);
}

// non-trivial rule: an allocator sees >= 2 locations and has a location designation, or has >= 2 designations on one location
static bool rule_nontrivial(const Builder& b) {
    for (int a = 0; a < 2; a++) {
        std::set<int> locs; int ndl = 0; int per[NLOCID] = {};
        for (int i = 0; i < b.n; i++) {
            const Step& s = g_steps[i];
            if (s.kind == K_ALLOC && s.a == a && s.L >= 0) locs.insert(LOCS[s.L].id);
            if (s.kind == K_REG && s.a == a && s.isLoc) { ndl++; per[LOCS[s.L].id]++; }
        }
        if (ndl > 0 && locs.size() >= 2) return true;
        for (int x : per) if (x >= 2) return true;
    }
    return false;
}

// ================================================================ random scenarios
static int pick_fam_installed(vf::Rng& r) {
    static const int W[] = { F_NEW, F_NEW, F_NEW, F_NEWA, F_NEWA, F_MALLOC, F_MALLOC, F_MALLOC, F_CALLOC, F_STRDUP, F_STRNDUP, F_NEW_NT, F_NEWA_NT, F_NEW_PLAIN, F_NEWA_PLAIN, F_MALLOC_NL };
    return W[r.below(sizeof W / sizeof W[0])];
}
static void emit_alloc(Builder& b, vf::Rng& r, int a_direct, int L) {
    if (b.mode == MODE_DIRECT) { b.alloc(a_direct, L, F_DIRECT, r.range(1, 64)); return; }
    int fam = pick_fam_installed(r);
    int size = r.range(1, 64), aux = 0;
    if (fam == F_CALLOC) { static const int ES[] = { 1, 2, 4, 8 }; aux = ES[r.below(4)]; }
    if (fam == F_STRNDUP) aux = r.range(0, 80);
    b.alloc(-1, L, fam, size, aux);
}

struct Deferred { int a, n, L; };

static int pick_ctx(vf::Rng& r) { uint64_t x = r.below(100); return x < 52 ? CX_BODY : x < 68 ? CX_BODY_AFTER_NONFATAL_FAILURE : x < 84 ? CX_TEARDOWN_AFTER_PASSING_BODY : CX_TEARDOWN_AFTER_FAILING_BODY; }

static void gen_random(Builder& b, vf::Rng& r) {
    // locations of this history
    std::vector<int> locs;
    int k = r.range(2, 4);
    if (r.chance(30)) { locs.push_back(0); locs.push_back(3); }      // alias pair
    while ((int) locs.size() < k) { int L = (int) r.below(NLOC_RANDOM); if (std::find(locs.begin(), locs.end(), L) == locs.end()) locs.push_back(L); }
    if (r.chance(10)) { locs.resize(1); }                            // single-location history (trivial by the rule, still judged)
    // boundary values of the location dimension (45 % of the histories): one boundary location and, in 60 %, a location it is
    // easily confused with. Installed histories make allocations without location information anyway (5 of 16 draws):
    // they are allocations at "<unknown>":0, so a designation there interleaves located and un-located allocations.
    if (r.chance(45)) {
        static const int BND[] = { L_UNK0, L_UNK0, L_A0, L_UNK10, L_A65546 };
        int Lb = BND[r.below(5)];
        int add[2] = { Lb, -1 };
        if (r.chance(60)) { bool x = r.chance(50); add[1] = Lb == L_UNK0 ? (x ? L_A0 : L_UNK10) : Lb == L_A0 ? (x ? 0 : L_UNK0) : Lb == L_UNK10 ? (x ? L_UNK0 : 0) : 0; }
        for (int L : add) if (L >= 0 && std::find(locs.begin(), locs.end(), L) == locs.end()) { if (r.chance(50)) locs.insert(locs.begin(), L); else locs.push_back(L); }
    }
    int H = r.range(5, 40), phases = 1 + (int) r.below(3);
    auto pickloc = [&]() { return r.chance(50) ? locs[0] : locs[r.below(locs.size())]; };
    for (int ph = 0; ph < phases; ph++) {
        std::vector<Deferred> deferred;
        struct R { int a; bool isLoc; int n, L; };
        std::vector<R> regs;
        int per = H / phases + 1;
        for (int a = 0; a < b.nalloc; a++) {
            Model& m = b.model[a];
            if (m.count == 0) {
                int ng = (int) r.below(5); int prev = 0;
                for (int i = 0; i < ng; i++) { int n = (prev && r.chance(25)) ? prev : r.chance(5) ? 1000000 : 1 + (int) r.below((uint64_t) per + 3); prev = n; regs.push_back({ a, false, n, -1 }); }
            }
            int nl = (int) r.below(5); int pn = 0, pL = -1;
            for (int i = 0; i < nl; i++) {
                int L = pickloc(), n = 1 + (int) r.below(5);
                if (pL >= 0 && r.chance(25)) { L = pL; if (r.chance(50)) n = pn; }
                if (m.cnt[LOCS[L].id] != 0) continue;
                pL = L; pn = n;
                if (r.chance(30)) deferred.push_back({ a, n, L }); else regs.push_back({ a, true, n, L });
            }
        }
        for (size_t i = regs.size(); i > 1; i--) std::swap(regs[i - 1], regs[r.below(i)]);     // every registration order
        for (const R& x : regs) b.reg(x.a, x.isLoc, x.n, x.L);
        for (int i = 0; i < per; i++) {
            if (r.chance(15)) { b.free_((int) r.below(1000)); continue; }
            int L = pickloc(); int a = (int) r.below((uint64_t) b.nalloc);
            // a deferred location designation may still be registered as long as its location saw no request on that allocator
            for (size_t d = 0; d < deferred.size();) {
                Deferred q = deferred[d];
                if (b.model[q.a].cnt[LOCS[q.L].id] != 0) { deferred.erase(deferred.begin() + (long) d); continue; }
                if (r.chance(25)) { b.reg(q.a, true, q.n, q.L); deferred.erase(deferred.begin() + (long) d); continue; }
                d++;
            }
            emit_alloc(b, r, a, L);
        }
        bool last = ph == phases - 1;
        for (int a = 0; a < b.nalloc; a++) {
            if (r.chance(80)) b.check(a, pick_ctx(r));
            if (last || r.chance(60)) b.clear(a);
        }
    }
    // after the final clear: normal behaviour
    for (int a = 0; a < b.nalloc; a++) {
        int t = r.range(2, 5);
        for (int i = 0; i < t; i++) emit_alloc(b, r, a, pickloc());
    }
    for (int a = 0; a < b.nalloc; a++) b.check(a, pick_ctx(r));
}

static void sec_direct_random(vf::Ctx& c) {
    int nalloc = c.rng.chance(30) ? 2 : 1;
    Builder b(MODE_DIRECT, nalloc, NULL, false);
    gen_random(b, c.rng);
    run_and_judge(c, b, "", rule_nontrivial(b));
    c.count("histories_direct");
}
static void sec_installed_random(vf::Ctx& c) {
    int nalloc = c.rng.chance(35) ? 2 : 1;
    int route[3];
    for (int g = 0; g < 3; g++) route[g] = c.rng.chance(20) ? -1 : (int) c.rng.below((uint64_t) nalloc);
    if (route[0] < 0 && route[1] < 0 && route[2] < 0) route[c.rng.below(3)] = 0;
    Builder b(MODE_INSTALLED, nalloc, route, c.rng.chance(20));
    gen_random(b, c.rng);
    run_and_judge(c, b, "", rule_nontrivial(b));
    c.count("histories_installed");
}

// ================================================================ fault enumeration (seed independent, complete)
// workload w: fixed history of N allocations over three locations (+ alias pointer) and, when installed, all families
struct WOp { int L, fam, size, aux; };
struct Workload { int N; bool pairs; std::vector<WOp> ops_direct, ops_installed; std::vector<std::pair<int, int>> universe; /* (-1,n) global | (index into LOCS, j) */ };
static std::vector<Workload> WL;
static std::vector<uint64_t> enum_prefix; static uint64_t enum_total = 0;
static void init_enum() {
    static const int NS[] = { 12, 12, 30, 30 };      // workloads 0..3: three ordinary locations
    for (int w = 0; w < 4; w++) {
        Workload W; W.N = NS[w]; W.pairs = w < 2;
        vf::Rng r(0xC15, (uint64_t) w, 7);
        int cnt[NLOCID] = {};
        static const int LS[] = { 0, 1, 2, 3 };      // ids 0,1,2 (3 is the alias of 0)
        for (int i = 0; i < W.N; i++) {
            int L = LS[r.below(4)];
            static const int FL[] = { F_NEW, F_NEWA, F_MALLOC, F_CALLOC, F_STRDUP, F_STRNDUP };
            WOp d = { L, F_DIRECT, r.range(1, 48), 0 };
            WOp o = { L, FL[r.below(6)], r.range(1, 48), 0 };
            if (o.fam == F_CALLOC) o.aux = 4; if (o.fam == F_STRNDUP) o.aux = r.range(0, 60);
            W.ops_direct.push_back(d); W.ops_installed.push_back(o);
            cnt[LOCS[L].id]++;
        }
        for (int n = 1; n <= W.N + 2; n++) W.universe.push_back({ -1, n });
        for (int id = 0; id < 3; id++) for (int j = 1; j <= cnt[id] + 1; j++) W.universe.push_back({ id, j });
        WL.push_back(W);
    }
    // workload 4: boundary values of the location dimension. 14 allocations over "<unknown>":0 (named explicitly, and - when
    // installed - reported by the entry points without location information, whatever location the step names), line 10 and
    // line 0 of one file, "<unknown>":10 and a line that is 10 modulo 2^16; every single designation and every ordered pair.
    {
        Workload W; W.N = 14; W.pairs = true;
        vf::Rng r(0xC15, 4, 7);
        int cntd[NLOCID] = {}, cnti[NLOCID] = {};
        static const int LSB[] = { L_UNK0, L_UNK0, 0, L_A0, L_UNK10, L_A65546 };
        static const int FLB[] = { F_NEW, F_NEWA, F_MALLOC, F_CALLOC, F_STRDUP, F_STRNDUP, F_MALLOC_NL, F_MALLOC_NL, F_NEW_PLAIN, F_NEWA_PLAIN, F_NEW_NT, F_NEWA_NT };
        for (int i = 0; i < W.N; i++) {
            int L = LSB[r.below(6)];
            WOp d = { L, F_DIRECT, r.range(1, 48), 0 };
            WOp o = { L, FLB[r.below(12)], r.range(1, 48), 0 };
            if (o.fam == F_CALLOC) o.aux = 4; if (o.fam == F_STRNDUP) o.aux = r.range(0, 60);
            W.ops_direct.push_back(d); W.ops_installed.push_back(o);
            cntd[LOCS[L].id]++; cnti[LOCS[fam_has_loc(o.fam) ? L : L_UNK0].id]++;
        }
        for (int n = 1; n <= W.N + 2; n++) W.universe.push_back({ -1, n });
        static const int LU[] = { L_UNK0, 0, L_A0, L_UNK10, L_A65546 };
        for (int L : LU) { int id = LOCS[L].id, m = cntd[id] > cnti[id] ? cntd[id] : cnti[id]; for (int j = 1; j <= m + 1; j++) W.universe.push_back({ L, j }); }
        WL.push_back(W);
    }
    for (const Workload& W : WL) {
        uint64_t U = W.universe.size();
        uint64_t per = W.pairs ? U * (U + 1) : U;        // ordered pairs (d1, d2 or none) | singles
        enum_prefix.push_back(enum_total); enum_total += 2 * per;   // x {direct, installed}
    }
}
static void sec_fault_enum(vf::Ctx& c) {
    size_t w = std::upper_bound(enum_prefix.begin(), enum_prefix.end(), c.idx) - enum_prefix.begin() - 1;
    const Workload& W = WL[w];
    uint64_t i = c.idx - enum_prefix[w];
    int mode = (int) (i % 2); i /= 2;
    uint64_t U = W.universe.size();
    int d1 = (int) (i % U), d2 = -1;
    if (W.pairs) { uint64_t q = i / U; d2 = q == 0 ? -1 : (int) (q - 1); }
    static const int ALL0[3] = { 0, 0, 0 };
    Builder b(mode, 1, mode == MODE_INSTALLED ? ALL0 : NULL, false);
    auto regd = [&](int d, int salt) {
        std::pair<int, int> u = W.universe[(size_t) d];
        if (u.first < 0) b.reg(0, false, u.second, -1);
        else { int L = u.first; if (u.first == 0 && ((d + salt) & 1)) L = 3; b.reg(0, true, u.second, L); }     // id 0 is designated through either pointer
    };
    regd(d1, 0); if (d2 >= 0) regd(d2, 1);
    const std::vector<WOp>& ops = mode == MODE_DIRECT ? W.ops_direct : W.ops_installed;
    for (const WOp& o : ops) b.alloc(0, o.L, o.fam, o.size, o.aux);
    b.check(0); b.clear(0);
    for (int k = 0; k < 3; k++) b.alloc(0, ops[(size_t) k].L, ops[(size_t) k].fam, ops[(size_t) k].size, ops[(size_t) k].aux);
    b.check(0);
    char sig[96]; snprintf(sig, sizeof sig, "enum:%d:%d:%d:%d", (int) w, mode, d1, d2);
    run_and_judge(c, b, sig, rule_nontrivial(b));
    c.count(d2 >= 0 ? "fault_points_pairs" : "fault_points_single");
    if (w >= 4) c.count(d2 >= 0 ? "fault_points_pairs_boundary_locations" : "fault_points_single_boundary_locations");
}

// ================================================================ where the check is asked for x what is pending (complete table)
// global designation {none, fires, never reached} x location designation {none, fires, never reached} x registration order
// x the four places a test can ask from x {direct, installed}; then clear, two more allocations and a second request from
// the same place (nothing pending: must stay silent there as well).
static void sec_check_context(vf::Ctx& c) {
    uint64_t i = c.idx;
    int mode = (int) (i % 2); i /= 2; int ctx = (int) (i % CX_N); i /= CX_N; int g = (int) (i % 3); i /= 3; int l = (int) (i % 3); i /= 3; bool locfirst = i & 1;
    static const int ALL0[3] = { 0, 0, 0 };
    Builder b(mode, 1, mode == MODE_INSTALLED ? ALL0 : NULL, false);
    static const char* PN[] = { "none", "fires", "never-reached" };
    b.note = vf::J().k("check_asked_in", CX_NAME[ctx]).k("global_designation", PN[g]).k("location_designation", PN[l]).k("location_registered_first", locfirst).str();
    auto regl = [&]() { if (l == 1) b.reg(0, true, 2, 2); else if (l == 2) b.reg(0, true, 3, 1); };          // #2@B10 fires, #3@A11 is never reached (2 requests there)
    if (locfirst) regl();
    if (g == 1) b.reg(0, false, 3, -1); else if (g == 2) b.reg(0, false, 8, -1);                              // 6 allocations follow
    if (!locfirst) regl();
    static const int SEQ[] = { 0, 2, 1, 2, 3, 1 };
    static const int FL[] = { F_MALLOC, F_NEW, F_NEWA, F_CALLOC, F_STRDUP, F_STRNDUP };
    int k = 0;
    auto one = [&](int L) { int fam = mode == MODE_DIRECT ? F_DIRECT : FL[(k + ctx + g) % 6]; b.alloc(0, L, fam, 6 + 5 * k, fam == F_CALLOC ? 4 : fam == F_STRNDUP ? 20 : 0); k++; };
    for (int L : SEQ) one(L);
    b.check(0, ctx); b.clear(0);
    one(1); one(2);
    b.check(0, ctx);
    run_and_judge(c, b, "checkctx:" + std::to_string(c.idx), g != 0 || l != 0);
    c.count("check_context_points");
}

// ================================================================ location names that are easily confused (complete table)
// "the n-th allocation at a given source location": a location is the whole (file text, line). For every position p in
// 0..NAME_PMAX a pair of names X (designated) / Y (allocated from, same line) is built whose first difference is at p:
//   kind 0: equal length, one other character at p      kind 1: one letter at p differs in case only
//   kind 2: Y is the proper prefix X[0..p) of X          kind 3: X is the proper prefix Y[0..p) of Y
// (names of 1..NAME_PMAX+10 characters: every comparison that looks at a bounded prefix / a bounded copy / a hash of a
// bounded part of the name has its bound in this range or is out of reach of realistic paths). The model keeps X and Y
// apart; a fixed interleaving of allocations at Y and X runs directly and behind all three families.
static char name_base_char(int i) { return i % 11 == 0 ? '/' : (char) ('a' + (i * 7 + 3) % 26); }
static void sec_name_discrimination(vf::Ctx& c) {
    uint64_t i = c.idx;
    int mode = (int) (i % 2); i /= 2; bool withY = i % 2; i /= 2; int n = 1 + (int) (i % 2); i /= 2; int tail = (i % 2) ? 9 : 0; i /= 2; int kind = (int) (i % 4); i /= 4;
    int p = (int) i;
    int lenX, lenY;
    if (kind <= 1) lenX = lenY = p + 1 + tail; else if (kind == 2) { lenX = p + 1 + tail; lenY = p; } else { lenX = p; lenY = p + 1 + tail; }
    for (int k = 0; k < lenX; k++) DYN_X[k] = name_base_char(k); DYN_X[lenX] = 0;
    for (int k = 0; k < lenY; k++) DYN_Y[k] = name_base_char(k); DYN_Y[lenY] = 0;
    if (kind == 0) DYN_Y[p] = DYN_X[p] == 'q' ? 'r' : 'q';
    if (kind == 1) { if (DYN_X[p] == '/') DYN_X[p] = 'm'; DYN_Y[p] = (char) (DYN_X[p] - 'a' + 'A'); }
    static const char* KN[] = { "other-character-at-p", "case-of-letter-at-p", "allocated-name-is-prefix-of-designated", "designated-name-is-prefix-of-allocated" };
    static const int ALL0[3] = { 0, 0, 0 };
    Builder b(mode, 1, mode == MODE_INSTALLED ? ALL0 : NULL, false);
    b.note = vf::J().k("first_difference_at", p).k("kind", KN[kind]).k("designated_name_length", lenX).k("other_name_length", lenY).k("designated_index", n).k("other_name_designated_too", withY)
        .k("designated_name", DYN_X).k("other_name", DYN_Y).str();
    if (lenX == 0 || lenY == 0) { { std::string nd = b.note; c.begin([nd] { return nd; }); } c.count("name_pair_with_empty_name_not_run"); return; }     // an empty file name is not a source location
    int m = n % 2 + 1;
    if (withY && (c.idx & 64)) b.reg(0, true, m, L_DYN_Y);
    b.reg(0, true, n, L_DYN_X);
    if (withY && !(c.idx & 64)) b.reg(0, true, m, L_DYN_Y);
    static const int SEQ[] = { L_DYN_Y, L_DYN_Y, L_DYN_X, L_DYN_Y, L_DYN_X, L_DYN_X, L_DYN_Y, L_DYN_X };
    static const int FL[] = { F_MALLOC, F_NEW, F_NEWA, F_CALLOC, F_STRDUP, F_STRNDUP };
    int k = 0;
    auto one = [&](int L) { int fam = mode == MODE_DIRECT ? F_DIRECT : FL[(p + kind + k) % 6]; b.alloc(0, L, fam, 5 + (p + 3 * k) % 40, fam == F_CALLOC ? 4 : fam == F_STRNDUP ? (p + k) % 60 : 0); k++; };
    for (int L : SEQ) one(L);
    b.check(0); b.clear(0);
    one(L_DYN_Y); one(L_DYN_X);
    b.check(0);
    run_and_judge(c, b, "name:" + std::to_string(c.idx), true);
    c.count("name_pair_cases");
    c.count(std::string("name_pair_") + KN[kind]);
    int common = p;
    c.count(common < 16 ? "name_pair_common_prefix_0_15" : common < 64 ? "name_pair_common_prefix_16_63" : common < 128 ? "name_pair_common_prefix_64_127" : common < 256 ? "name_pair_common_prefix_128_255" : "name_pair_common_prefix_256_up");
    DYN_X[0] = DYN_Y[0] = 0;
}

// ================================================================ C level: countdown / out-of-memory / restore
enum { CO_MALLOC, CO_MALLOC_NL, CO_CALLOC, CO_CALLOC_NL, CO_STRDUP, CO_STRDUP_NL, CO_STRNDUP, CO_STRNDUP_NL, CO_REALLOC, CO_REALLOC_NULL, CO_FREE, CO_SET_COUNTDOWN, CO_SET_OOM, CO_RESTORE, CO_SWITCH, CO_COUNT_RESET, CO_GET_COUNT, CO_N };
static const char* CO_NAME[] = { "malloc", "malloc-noloc", "calloc", "calloc-noloc", "strdup", "strdup-noloc", "strndup", "strndup-noloc", "realloc", "realloc-from-null", "free", "countdown", "set_out_of_memory", "set_not_out_of_memory", "switch-malloc-allocator", "malloc_count_reset", "malloc_get_count" };
static bool co_malloc_type(int op) { return op <= CO_STRNDUP_NL; }
struct CStep { int op, n, size, aux, victim; int d[2], dl, dlk /* location of the designation dl: 0 "m.c":5, 1 "<unknown>":0 = every entry point without location information */; int obs; int served; int count_seen; bool content_bad; bool skipped; bool noop; };
// The malloc allocator the test has put in effect: the standard one (0) or one of two failable allocators that count the
// requests reaching them (1, 2). All carry the standard allocator's name: releasing a block while another one of them is
// current is then no allocator mismatch for cpputest (releases are outside the statement).
struct TaggedFailable : public FailableMemoryAllocator {
    int received;
    TaggedFailable() : FailableMemoryAllocator("Standard Malloc Allocator", "malloc", "free"), received(0) {}
    virtual char* alloc_memory(size_t size, const char* file, size_t line) CPPUTEST_OVERRIDE { received++; return FailableMemoryAllocator::alloc_memory(size, file, line); }
};
static TaggedFailable g_T[2];
static const char* EFF_NAME[] = { "standard", "failable-1", "failable-2" };
static CStep g_csteps[MAXSTEPS]; static int g_ncsteps;
struct CLive { void* p; int size; unsigned char fill; };
static CLive g_clive[MAXLIVE]; static int g_nclive;
static bool g_c_done;

static void c_body() {
    bool armed = false, oom_seen = false;
    g_nclive = 0;
    for (int i = 0; i < g_ncsteps; i++) {
        CStep& s = g_csteps[i];
        void* p = NULL; int eff = s.size; size_t sz = (size_t) s.size; const char* src;
        int rcv0 = g_T[0].received, rcv1 = g_T[1].received;
        switch (s.op) {
        case CO_SWITCH:       // the test installs another malloc allocator (between injections, or while a countdown is pending and not expired)
            if (s.n == 0) setCurrentMallocAllocator(defaultMallocAllocator());
            else {
                TaggedFailable& t = g_T[s.n - 1];
                t.clearFailedAllocs();
                for (int k = 0; k < 2; k++) if (s.d[k] > 0) t.failAllocNumber(s.d[k]);
                if (s.dl > 0) { if (s.dlk) t.failNthAllocAt(s.dl, F_UNK, 0); else t.failNthAllocAt(s.dl, "m.c", 5); }
                setCurrentMallocAllocator(&t);
            }
            s.obs = O_OK; continue;
        case CO_SET_COUNTDOWN: cpputest_malloc_set_out_of_memory_countdown(s.n); armed = true; oom_seen = false; s.obs = O_OK; continue;
        case CO_SET_OOM: cpputest_malloc_set_out_of_memory(); armed = true; oom_seen = false; s.obs = O_OK; continue;
        case CO_RESTORE: cpputest_malloc_set_not_out_of_memory(); armed = false; oom_seen = false; s.obs = O_OK; continue;
        case CO_COUNT_RESET: cpputest_malloc_count_reset(); s.obs = O_OK; continue;          // allocation statistics of the C interface:
        case CO_GET_COUNT: s.count_seen = cpputest_malloc_get_count(); s.obs = O_OK; continue;   // no injection calls
        case CO_FREE:
            if (g_nclive == 0) { s.noop = true; continue; }
            if (armed && oom_seen) { s.skipped = true; continue; }
            { int v = s.victim % g_nclive; CLive& b = g_clive[v]; for (int k = 0; k < b.size; k++) if (((unsigned char*) b.p)[k] != b.fill) s.content_bad = true;
              if (s.aux) cpputest_free(b.p); else cpputest_free_location(b.p, "rel.c", 3); g_clive[v] = g_clive[--g_nclive]; s.obs = O_OK; }
            continue;
        case CO_REALLOC: case CO_REALLOC_NULL: {
            if (armed && oom_seen) { s.skipped = true; continue; }
            int v = -1; void* old = NULL; int oldsize = 0; unsigned char fill = 0;
            if (s.op == CO_REALLOC && g_nclive > 0) { v = s.victim % g_nclive; old = g_clive[v].p; oldsize = g_clive[v].size; fill = g_clive[v].fill; }
            void* q = s.aux ? cpputest_realloc(old, sz) : cpputest_realloc_location(old, sz, "re.c", 9);
            s.obs = q ? O_OK : O_NULL;
            if (q) {
                int keep = oldsize < s.size ? oldsize : s.size;
                for (int k = 0; k < keep; k++) if (((unsigned char*) q)[k] != fill) s.content_bad = true;
                unsigned char nf = (unsigned char) (0x30 + i % 160); memset(q, nf, sz);
                if (v >= 0) { g_clive[v].p = q; g_clive[v].size = s.size; g_clive[v].fill = nf; }
                else if (g_nclive < MAXLIVE) { g_clive[g_nclive].p = q; g_clive[g_nclive].size = s.size; g_clive[g_nclive].fill = nf; g_nclive++; }
            } else if (old) { for (int k = 0; k < oldsize; k++) if (((unsigned char*) old)[k] != fill) s.content_bad = true; }   // a failed realloc leaves the block alone
            continue; }
        case CO_MALLOC: p = cpputest_malloc_location(sz, "m.c", 5); break;
        case CO_MALLOC_NL: p = cpputest_malloc(sz); break;
        case CO_CALLOC: case CO_CALLOC_NL: { size_t es = (size_t) s.aux, nm = (sz + es - 1) / es; eff = (int) (nm * es);
            p = s.op == CO_CALLOC ? cpputest_calloc_location(nm, es, "c.c", 6) : cpputest_calloc(nm, es);
            if (p) for (int k = 0; k < eff; k++) if (((unsigned char*) p)[k] != 0) s.content_bad = true; break; }
        case CO_STRDUP: case CO_STRDUP_NL:
            src = SRC + (128 - (s.size - 1));
            p = s.op == CO_STRDUP ? cpputest_strdup_location(src, "s.c", 7) : cpputest_strdup(src);
            if (p && (strlen((char*) p) != sz - 1 || memcmp(p, src, sz) != 0)) s.content_bad = true; break;
        case CO_STRNDUP: case CO_STRNDUP_NL: {
            src = SRC + (128 - s.aux); size_t nn = sz - 1, want = (size_t) s.aux < nn ? (size_t) s.aux : nn; eff = (int) want + 1;
            p = s.op == CO_STRNDUP ? cpputest_strndup_location(src, nn, "sn.c", 8) : cpputest_strndup(src, nn);
            if (p && (strlen((char*) p) != want || memcmp(p, src, want) != 0)) s.content_bad = true; break; }
        }
        s.obs = p ? O_OK : O_NULL;
        s.served = (g_T[0].received != rcv0 ? 1 : 0) | (g_T[1].received != rcv1 ? 2 : 0);
        if (!p && armed) oom_seen = true;
        if (p && g_nclive < MAXLIVE) { CLive& b = g_clive[g_nclive++]; b.p = p; b.size = eff; b.fill = (unsigned char) (0x30 + i % 160); memset(p, b.fill, (size_t) eff); }
    }
    cpputest_malloc_set_not_out_of_memory();
    setCurrentMallocAllocator(defaultMallocAllocator());
    for (int k = 0; k < g_nclive; k++) cpputest_free_location(g_clive[k].p, "end.c", 1);
    g_nclive = 0;
    for (TaggedFailable& t : g_T) t.clearFailedAllocs();
    g_c_done = true;
}

struct CBuilder {
    int n = 0; bool overflow = false;
    CStep* push(int op) { if (n >= MAXSTEPS) { overflow = true; return &g_csteps[MAXSTEPS - 1]; } CStep* s = &g_csteps[n++]; memset((void*) s, 0, sizeof *s); s->op = op; return s; }
    void malloc_type(vf::Rng& r, int op = -1) {
        if (op < 0) op = (int) r.below(CO_STRNDUP_NL + 1);
        CStep* s = push(op); s->size = r.range(1, 64);
        if (op == CO_CALLOC || op == CO_CALLOC_NL) { static const int ES[] = { 1, 2, 4, 8 }; s->aux = ES[r.below(4)]; }
        if (op == CO_STRNDUP || op == CO_STRNDUP_NL) s->aux = r.range(0, 80);
    }
    void other(vf::Rng& r) {
        int k = (int) r.below(3);
        CStep* s = push(k == 0 ? CO_FREE : k == 1 ? CO_REALLOC : CO_REALLOC_NULL);
        s->size = r.range(1, 64); s->victim = (int) r.below(1000); s->aux = (int) r.below(2);
    }
    void stat(vf::Rng& r) { push(r.chance(65) ? CO_COUNT_RESET : CO_GET_COUNT); }
    void sw(vf::Rng& r, int to = -1) {
        CStep* s = push(CO_SWITCH); s->n = to >= 0 ? to : (int) r.below(3);
        if (s->n > 0) { for (int k = 0; k < 2; k++) if (r.chance(55)) s->d[k] = r.range(1, 7); if (r.chance(30)) { s->dl = r.range(1, 3); s->dlk = r.chance(45) ? 1 : 0; } }
    }
    std::string describe() const {
        std::vector<std::string> it; char b[96];
        for (int i = 0; i < n; i++) { const CStep& s = g_csteps[i]; if (s.op == CO_SWITCH) snprintf(b, sizeof b, "install %s as malloc allocator (fail #%d #%d, #%d@%s; 0 = none)", EFF_NAME[s.n], s.d[0], s.d[1], s.dl, s.dlk ? "<unknown>:0" : "m.c:5"); else if (s.op == CO_SET_COUNTDOWN) snprintf(b, sizeof b, "countdown(%d)", s.n); else if (s.op >= CO_FREE) snprintf(b, sizeof b, "%s", CO_NAME[s.op]); else snprintf(b, sizeof b, "%s %d", CO_NAME[s.op], s.size); it.push_back(vf::jstr(b)); }
        return vf::J().k("level", "C").raw("steps", vf::jarr(it)).str();
    }
};

// one round: [set] ops [restore] post-ops. n < 0: direct set_out_of_memory; M malloc-type requests
// statpct: chance (per position) of a call of the allocation statistics API (count_reset / get_count) in between
static void c_round(CBuilder& b, vf::Rng& r, int n, int M, bool mix, int statpct = 0) {
    if (statpct && r.chance(statpct)) b.stat(r);
    if (n < 0) b.push(CO_SET_OOM); else b.push(CO_SET_COUNTDOWN)->n = n;
    int issued = 0;
    bool oomA = n <= 0;      // reading A: only malloc-type requests count
    while (issued < M) {
        if (statpct && r.chance(statpct)) { b.stat(r); if (r.chance(50)) continue; }
        if (mix && !oomA && r.chance(30)) { b.other(r); continue; }
        b.malloc_type(r); issued++;
        if (n > 0 && issued >= n) oomA = true;
    }
    b.push(CO_RESTORE);
    int post = r.range(1, 4);
    for (int i = 0; i < post; i++) { if (statpct && r.chance(statpct)) b.stat(r); if (r.chance(35)) b.other(r); else b.malloc_type(r); }
}

static void c_run_and_judge(vf::Ctx& c, CBuilder& b, const std::string& sig) {
    std::string desc = b.describe();
    c.begin([desc] { return desc; });
    if (b.overflow) { c.count("scenario_too_long_skipped"); return; }
    g_ncsteps = b.n; g_c_done = false;
    std::set<std::string> seen;
    {
        TestTestingFixture fx;
        fx.setTestFunction(c_body);
        cpputest_malloc_count_reset();       // the statistic is process-wide state: every case starts from 0
        fx.runAllTests();
        // reset every global the C interface touches, whatever happened
        cpputest_malloc_set_not_out_of_memory();
        cpputest_malloc_count_reset();
        setCurrentMallocAllocatorToDefault();
        for (TaggedFailable& t : g_T) { t.clearFailedAllocs(); t.received = 0; }
        if (fx.getFailureCount() > 0 || !g_c_done)
            viol_once(c, seen, "c-level:unexpected-test-failure", std::string("a test failure was recorded during the C-level workload: ") + std::string(fx.getOutput().asCharString()).substr(0, 400));
    }
    // two readings of "allocation": A = malloc-type requests only, B = realloc counts too
    struct Cand { bool alive; int remaining; bool oom; } cand[2] = { { true, -1, false }, { true, -1, false } };
    bool armed = false, direct = false; int reqs_since_set = 0; bool restored_once = false;
    auto step_count = [](Cand& k) { if (!k.oom && k.remaining > 0) { k.remaining--; if (k.remaining == 0) k.oom = true; } };
    bool mixed = false, saw_fail = false, saw_ok_before = false;
    // the malloc allocator the test put in effect (0 standard, 1/2 failable) and the failable one's designations.
    // Its index is judged under two readings as well: it counts the requests that reach it (A) / every request made
    // while it is in effect, also those the simulated out-of-memory answered (B); where they disagree both outcomes
    // are accepted.
    int eff = 0; bool eff_uncertain = false; int cntA = 0, cntB = 0, locA = 0, locB = 0; std::set<int> D; int DL = 0, DLK = 0;
    std::set<int> eff_of_earlier_episodes;
    int stat_requests = 0;       // malloc-type requests since the statistics were last reset (observation only)
    bool stat_reset_in_episode = false;   // the statistics were reset since the current injection was set (names the history shape in the key)
    for (int i = 0; i < b.n; i++) {
        const CStep& s = g_csteps[i];
        if (s.skipped) { c.count("c_steps_skipped_adaptively"); continue; }
        if (s.noop) continue;
        if (s.op == CO_COUNT_RESET || s.op == CO_GET_COUNT) {
            if (s.obs == O_NONE) continue;
            // in which state of the injection the statistics API was called
            bool pending = false, expired = false;
            for (const Cand& k : cand) if (k.alive) { if (armed && !k.oom && k.remaining > 0) pending = true; if (armed && k.oom) expired = true; }
            const char* st = !armed ? (restored_once ? "after_restore" : "before_any_injection") : pending ? (reqs_since_set > 0 ? "while_countdown_pending_after_counted_requests" : "while_countdown_pending_before_first_request") : expired ? "while_out_of_memory" : "while_armed_other";
            c.count(std::string(s.op == CO_COUNT_RESET ? "c_statistics_reset_" : "c_statistics_get_count_") + st);
            if (s.op == CO_COUNT_RESET) { stat_requests = 0; if (armed) stat_reset_in_episode = true; }
            else c.count(s.count_seen == stat_requests ? "c_statistics_count_equals_malloc_type_requests_since_reset" : "c_statistics_count_differs_from_malloc_type_requests_since_reset");
            continue;
        }
        std::string nm = CO_NAME[s.op];
        std::string cls = s.op <= CO_MALLOC_NL ? "malloc" : s.op <= CO_CALLOC_NL ? "calloc" : s.op <= CO_STRDUP_NL ? "strdup" : s.op <= CO_STRNDUP_NL ? "strndup" : "realloc";
        if (s.op == CO_SWITCH) {
            eff = s.n; eff_uncertain = false; cntA = cntB = locA = locB = 0; D.clear(); for (int k = 0; k < 2; k++) if (s.d[k] > 0) D.insert(s.d[k]); DL = s.dl; DLK = s.dlk;
            if (eff && DL > 0 && DLK) c.count("c_switch_to_failable_with_designation_at_unknown_file_line_0");
            c.count(eff ? "c_switch_to_failable_malloc_allocator" : "c_switch_to_standard_malloc_allocator"); continue;
        }
        if (s.op == CO_SET_COUNTDOWN) { for (Cand& k : cand) { k.alive = true; k.remaining = s.n; k.oom = s.n == 0; } armed = true; direct = false; reqs_since_set = 0; stat_reset_in_episode = false; c.count("c_countdowns_set"); continue; }
        if (s.op == CO_SET_OOM) { for (Cand& k : cand) { k.alive = true; k.remaining = -1; k.oom = true; } armed = true; direct = true; reqs_since_set = 0; stat_reset_in_episode = false; c.count("c_direct_oom_set"); continue; }
        if (s.op == CO_RESTORE) {
            // Clearing an injection that never reached the out-of-memory state (countdown not expired, or nothing set) while a
            // non-standard malloc allocator is in effect: the unchanged cpputest installs the standard allocator there
            // (originalAllocator is still NULL). Observed and counted, not judged - see the final report of the check's author.
            bool entered = armed; for (const Cand& k : cand) if (k.alive && !k.oom) entered = false;
            if (eff != 0) { if (!entered) { eff_uncertain = true; c.count("c_restore_before_out_of_memory_was_entered_under_failable_allocator"); } else c.count("c_restore_after_out_of_memory_under_failable_allocator"); }
            if (entered) {
                bool other = false; for (int e : eff_of_earlier_episodes) if (e != eff) other = true;
                if (other) c.count("c_restore_of_episode_under_other_allocator_than_an_earlier_episode");
                eff_of_earlier_episodes.insert(eff);
            }
            for (Cand& k : cand) { k.alive = true; k.remaining = -1; k.oom = false; } armed = false; restored_once = true; stat_reset_in_episode = false; c.count("c_restores"); continue;
        }
        if (s.op == CO_FREE) { if (s.content_bad) viol_once(c, seen, "c-level:content:pattern-damaged-at-release", "step " + std::to_string(i)); c.count("c_free"); continue; }
        if (s.obs == O_NONE) { if (g_c_done) viol_once(c, seen, "c-level:step-not-executed", "step " + std::to_string(i)); continue; }
        bool failed = s.obs != O_OK;
        bool isrealloc = s.op == CO_REALLOC || s.op == CO_REALLOC_NULL;
        c.count("c_" + nm);
        if (isrealloc) mixed = true;
        // predictions
        bool pred[2];
        if (!isrealloc) { for (Cand& k : cand) step_count(k); pred[0] = cand[0].oom; pred[1] = cand[1].oom; reqs_since_set++; stat_requests++; }
        else { pred[0] = false; step_count(cand[1]); pred[1] = cand[1].oom; }
        // the failable allocator in effect: is this request one of its designated ones?
        int recv = s.served;        // bit set of the failable allocators the request reached
        bool desA = false, desB = false, lochit = false;
        if (eff != 0 && !isrealloc) {
            // the designated location: "m.c":5 (only CO_MALLOC allocates there) or "<unknown>":0 (what the four entry points
            // without location information report)
            bool atloc = DLK ? (s.op == CO_MALLOC_NL || s.op == CO_CALLOC_NL || s.op == CO_STRDUP_NL || s.op == CO_STRNDUP_NL) : s.op == CO_MALLOC;
            cntB++; if (atloc) locB++;
            desB = D.count(cntB) != 0 || (atloc && DL > 0 && locB == DL);
            if (atloc && DL > 0 && locB == DL) lochit = true;
            if (recv == eff) { cntA++; if (atloc) locA++; desA = D.count(cntA) != 0 || (atloc && DL > 0 && locA == DL); if (atloc && DL > 0 && locA == DL) lochit = true; }
            if (DLK && DL > 0) c.count(atloc ? "c_request_without_location_information_while_unknown_file_line_0_designated" : "c_request_with_location_while_unknown_file_line_0_designated");
        }
        // does candidate k explain the observation? 0 yes; otherwise the kind of disagreement
        enum { JX_FITS = 0, JX_SHOULD_FAIL, JX_SHOULD_SUCCEED, JX_SERVED_BY_OTHER, JX_DESIGNATED_SUCCEEDED, JX_UNDESIGNATED_FAILED };
        auto explains = [&](int k) -> int {
            if (isrealloc) return pred[k] == failed ? JX_FITS : failed ? JX_SHOULD_SUCCEED : JX_SHOULD_FAIL;
            if (pred[k]) return failed ? JX_FITS : JX_SHOULD_FAIL;
            if (failed && recv == 0) return JX_SHOULD_SUCCEED;                       // NULL without any failable allocator having been asked
            if (eff == 0) return recv == 0 ? JX_FITS : JX_SERVED_BY_OTHER;
            if (recv == 0 && eff_uncertain) return JX_FITS;                             // (not failed) served by the standard allocator after a restore-before-expiry
            if (recv != eff) return JX_SERVED_BY_OTHER;
            if (failed == desA || failed == desB) return JX_FITS;
            return failed ? JX_UNDESIGNATED_FAILED : JX_DESIGNATED_SUCCEEDED;
        };
        int ex[2] = { explains(0), explains(1) };
        bool any_ok = false;
        for (int k = 0; k < 2; k++) if (cand[k].alive && ex[k] == JX_FITS) any_ok = true;
        if (!any_ok) {
            std::string phase = armed ? (direct ? "out-of-memory" : "countdown") : (restored_once ? "after-restore" : "before-any-injection");
            if (armed && stat_reset_in_episode) phase += "-with-statistics-reset-since-armed";
            int why = cand[0].alive ? ex[0] : ex[1];
            std::string where = "step " + std::to_string(i) + " (" + nm + ", request #" + std::to_string(reqs_since_set) + " since the injection was set, malloc allocator in effect: " + EFF_NAME[eff] + ")";
            if (why == JX_SHOULD_SUCCEED) viol_once(c, seen, "c-" + phase + ":failed-but-should-succeed:" + cls, where + " returned NULL");
            else if (why == JX_SHOULD_FAIL) viol_once(c, seen, "c-" + phase + ":succeeded-but-should-fail:" + cls, where + " returned a block");
            else if (why == JX_SERVED_BY_OTHER) viol_once(c, seen, "c-" + phase + ":served-by-other-than-the-allocator-in-effect", where + " was answered by " + (recv == 0 ? std::string("an allocator other than the installed failable ones") : std::string("failable allocator(s) bitset ") + std::to_string(recv)) + (failed ? " (NULL)" : " (block)"));
            else if (why == JX_DESIGNATED_SUCCEEDED) viol_once(c, seen, "c-" + phase + ":failable-in-effect:designated-succeeded" + (DLK && DL > 0 ? ":with-designation-at-unknown-file-line-0" : ""), where + " is request " + std::to_string(cntA) + " reaching the failable allocator (" + std::to_string(cntB) + " made), designated, but returned a block");
            else viol_once(c, seen, "c-" + phase + ":failable-in-effect:undesignated-failed" + (DLK && DL > 0 ? ":with-designation-at-unknown-file-line-0" : ""), where + " is request " + std::to_string(cntA) + " reaching the failable allocator (" + std::to_string(cntB) + " made), not designated, but returned NULL");
            break;      // later predictions depend on this one
        }
        bool by_oom = false;
        for (int k = 0; k < 2; k++) { if (ex[k] != JX_FITS) cand[k].alive = false; else if (cand[k].alive && pred[k]) by_oom = true; }
        if (failed && !by_oom && !isrealloc) { c.count("c_failable_in_effect_designation_fired"); if (DLK && lochit) c.count("c_failable_in_effect_designation_at_unknown_file_line_0_fired"); }
        else if (failed) { saw_fail = true; c.count("c_requests_failed_as_designated"); } else { if (armed) saw_ok_before = true; c.count("c_requests_succeeded"); }
        if (!failed && !isrealloc) {
            if (eff != 0 && recv == eff) { c.count(desA != desB ? "c_failable_in_effect_designation_reading_ambiguous" : "c_request_served_by_failable_in_effect"); if (restored_once && !armed) c.count("c_request_served_by_failable_in_effect_after_restore"); }
            // clearing an injection that never entered out-of-memory (unexpired countdown / nothing set) must leave the
            // malloc allocator the test installed in effect ("clearing the injections restores normal behaviour")
            if (eff != 0 && recv == 0) { c.count("c_request_served_by_standard_after_restore_before_expiry_dropped_the_failable_allocator"); viol_once(c, seen, "c-after-restore:unexpired-clear-dropped-the-allocator-in-effect", "step " + std::to_string(i) + " (" + nm + ") was answered by the standard allocator although the test's own malloc allocator was in effect before the (never entered) out-of-memory state was cleared"); }
        }
        if (s.content_bad) viol_once(c, seen, "c-level:content:" + cls, "block content wrong at step " + std::to_string(i));
    }
    if (!cand[0].alive) c.count("c_reading_realloc_counts_needed");
    if (saw_fail && (saw_ok_before || mixed)) c.nontrivial(sig.empty() ? desc : sig);
}

// histories in which the test changes the malloc allocator between (and before) out-of-memory episodes
static void sec_c_switch_random(vf::Ctx& c) {
    CBuilder b; vf::Rng& r = c.rng;
    int rounds = r.range(2, 4);
    int statpct = r.chance(40) ? 20 : 0;
    for (int k = 0; k < rounds; k++) {
        if (r.chance(75)) b.sw(r);
        int pre = (int) r.below(3);
        for (int i = 0; i < pre; i++) { if (r.chance(25)) b.other(r); else b.malloc_type(r); }
        int M = r.range(2, 10);
        int n = r.chance(15) ? -1 : r.chance(10) ? r.range(M + 1, M + 2) : r.range(0, M);
        c_round(b, r, n, M, r.chance(40), statpct);
    }
    c_run_and_judge(c, b, "");
    c.count("histories_c_level_with_allocator_switches");
}

// complete: three episodes, each under one of the three malloc allocators, each a countdown that expires or the direct switch
static void sec_c_switch_enum(vf::Ctx& c) {
    uint64_t i = c.idx; CBuilder b; vf::Rng r(0xC15E, c.idx, 3);
    for (int e = 0; e < 3; e++) {
        int a = (int) (i % 3); i /= 3; int kind = (int) (i % 2); i /= 2;
        CStep* s = b.push(CO_SWITCH); s->n = a; if (a) { s->d[0] = 2; s->d[1] = 5 + e; if (e) { s->dl = 1; s->dlk = 1; } }      // 2nd/3rd episode: also the 1st request without location information
        b.malloc_type(r, CO_MALLOC);
        if (kind == 0) { b.push(CO_SET_COUNTDOWN)->n = 2; b.malloc_type(r, CO_STRDUP); b.malloc_type(r, CO_MALLOC_NL); b.malloc_type(r, CO_CALLOC); }
        else { b.push(CO_SET_OOM); b.malloc_type(r, CO_MALLOC); b.malloc_type(r, CO_STRNDUP); }
        b.push(CO_RESTORE);
        b.malloc_type(r, CO_MALLOC); b.malloc_type(r, CO_CALLOC_NL); b.malloc_type(r, CO_STRDUP_NL);
    }
    c_run_and_judge(c, b, "cswitch:" + std::to_string(c.idx));
    c.count("c_allocator_switch_points");
}

static void sec_c_random(vf::Ctx& c) {
    CBuilder b; vf::Rng& r = c.rng;
    if (r.chance(10)) b.push(CO_RESTORE);
    int pre = (int) r.below(4);
    for (int i = 0; i < pre; i++) { if (r.chance(30)) b.other(r); else b.malloc_type(r); }
    int rounds = r.range(1, 3);
    int statpct = r.chance(50) ? 20 : 0;
    for (int k = 0; k < rounds; k++) {
        int M = r.range(3, 14);
        int n = r.chance(12) ? -1 : r.range(0, M + 2);
        c_round(b, r, n, M, r.chance(70), statpct);
    }
    c_run_and_judge(c, b, "");
    c.count("histories_c_level");
}

// complete: 6 fixed workloads x every countdown 0..N+2 and the direct switch
static const int CW_N[] = { 6, 9, 12, 12, 16, 16 };
static std::vector<uint64_t> cenum_prefix; static uint64_t cenum_total = 0;
static void init_cenum() { for (int w = 0; w < 6; w++) { cenum_prefix.push_back(cenum_total); cenum_total += (uint64_t) CW_N[w] + 4; } }
static void sec_c_enum(vf::Ctx& c) {
    size_t w = std::upper_bound(cenum_prefix.begin(), cenum_prefix.end(), c.idx) - cenum_prefix.begin() - 1;
    int k = (int) (c.idx - cenum_prefix[w]);            // 0..N+2 countdown, N+3: direct
    int N = CW_N[w]; int n = k <= N + 2 ? k : -1;
    vf::Rng r(0xC15C, (uint64_t) w, (uint64_t) (w & 1 ? k : 0));     // odd workloads also vary sizes/ops with the countdown value
    CBuilder b;
    for (int i = 0; i < (int) w % 3; i++) b.malloc_type(r);
    c_round(b, r, n, N, w >= 2);
    char sig[64]; snprintf(sig, sizeof sig, "cenum:%d:%d", (int) w, k);
    c_run_and_judge(c, b, sig);
    c.count("c_fault_points");
}

// complete: a call of the allocation statistics API at every position of a countdown episode.
// pre 0..3 requests before arming x countdown 0..7 x position 0..9 of the statistics call (0 = between the last earlier
// request and arming, 1 = right after arming, p = after the (p-1)-th request since arming) x {count_reset, get_count then
// count_reset, get_count}; 9 requests through alternating entry points, restore, 2 more.
static void sec_c_stat_enum(vf::Ctx& c) {
    uint64_t i = c.idx;
    int pre = (int) (i % 4); i /= 4; int n = (int) (i % 8); i /= 8; int pos = (int) (i % 10); i /= 10; int what = (int) (i % 3);
    vf::Rng r(0xC155, c.idx, 5);
    CBuilder b;
    static const int ENTRY[] = { CO_MALLOC, CO_CALLOC_NL, CO_STRDUP, CO_STRNDUP_NL, CO_MALLOC_NL, CO_CALLOC, CO_STRDUP_NL, CO_STRNDUP };
    auto stat = [&]() { if (what >= 1) b.push(CO_GET_COUNT); if (what <= 1) b.push(CO_COUNT_RESET); };
    for (int k = 0; k < pre; k++) b.malloc_type(r, ENTRY[(k + n) % 8]);
    if (pos == 0) stat();
    b.push(CO_SET_COUNTDOWN)->n = n;
    if (pos == 1) stat();
    for (int k = 1; k <= 9; k++) { b.malloc_type(r, ENTRY[(k + pre) % 8]); if (pos == k + 1) stat(); }
    b.push(CO_RESTORE);
    b.malloc_type(r, CO_MALLOC); b.malloc_type(r, CO_STRDUP_NL);
    c_run_and_judge(c, b, "cstat:" + std::to_string(c.idx));
    c.count("c_statistics_call_points");
}

// realloc(NULL, size) while out-of-memory is simulated: an allocation made after the countdown expired. NULL and a
// usable block are both accepted (two readings); what is never acceptable is a crash. Runs in a child process so
// that the outcome gets its own key.
static void sec_c_realloc_null(vf::Ctx& c) {
    int i = (int) c.idx; int n = i % 4; i /= 4; static const int SZ[] = { 1, 16, 100 }; int size = SZ[i % 3]; i /= 3; int noloc = i % 2;
    c.begin([=] { return vf::J().k("level", "C").k("countdown", n).k("then", noloc ? "cpputest_realloc(NULL,size)" : "cpputest_realloc_location(NULL,size)").k("size", size).str(); });
    fflush(NULL);
    pid_t pid = fork();
    if (pid < 0) { c.count("fork_failed"); return; }
    if (pid == 0) {
        if (!vf::rt().verbose) { int dn = open("/dev/null", O_WRONLY); if (dn >= 0) { dup2(dn, 2); dup2(dn, 1); } }   // replay (--verbose) shows the sanitizer report
        cpputest_malloc_set_out_of_memory_countdown(n);
        void* keep[4]; int nk = 0;
        for (int k = 1; k < n; k++) keep[nk++] = cpputest_malloc_location(8, "m.c", 1);
        void* f = cpputest_malloc_location(8, "m.c", 2);
        if (f != NULL) _exit(12);                                   // out-of-memory not reached: judged by the other sections
        void* q = noloc ? cpputest_realloc(NULL, (size_t) size) : cpputest_realloc_location(NULL, (size_t) size, "re.c", 3);
        if (q == NULL) _exit(10);
        memset(q, 0x5a, (size_t) size);
        _exit(11);
    }
    int st = 0; while (waitpid(pid, &st, 0) < 0 && errno == EINTR) {}
    if (WIFEXITED(st) && WEXITSTATUS(st) == 10) c.count("c_realloc_null_in_oom_returned_null");
    else if (WIFEXITED(st) && WEXITSTATUS(st) == 11) c.count("c_realloc_null_in_oom_returned_block");
    else if (WIFEXITED(st) && WEXITSTATUS(st) == 12) c.count("c_realloc_null_precondition_missed");
    else c.violation("c-out-of-memory:realloc-from-null:crash", std::string("cpputest_realloc(NULL, ") + std::to_string(size) + ") while out-of-memory is simulated killed the process (" + (WIFSIGNALED(st) ? "signal " + std::to_string(WTERMSIG(st)) : "exit status " + std::to_string(WEXITSTATUS(st))) + ")");
    c.nontrivial("reallocnull:" + std::to_string(c.idx));
}

// ---- section (complete): the test installs another malloc allocator WHILE a countdown is pending (armed, certainly not expired:
// fewer malloc-type requests than the countdown value, no realloc in between). The countdown goes on counting; the injection then
// either expires and is cleared, or is cleared before it expires. Either way "clearing the injections restores normal behaviour":
// the requests after the clear are answered by the allocator the test installed last, under that allocator's own designations.
static void sec_c_switch_pending(vf::Ctx& c) {
    uint64_t i = c.idx; CBuilder b; vf::Rng r(0xC15F, c.idx, 7);
    int a0 = (int) (i % 3); i /= 3; int a1 = (a0 + 1 + (int) (i % 2)) % 3; i /= 2;
    int n = 1 + (int) (i % 3); i /= 3;                 // countdown value
    int k = (int) (i % 3) % n; i /= 3;                 // malloc-type requests between arming and the switch (k < n)
    int path = (int) (i % 3); i /= 3;                  // 0 cleared at once after the switch, 1 cleared before expiry after further requests (if any fit), 2 expires, two failing requests, cleared
    bool desig = i & 1;
    static const int OPS[] = { CO_MALLOC, CO_MALLOC_NL, CO_CALLOC, CO_STRDUP_NL, CO_STRNDUP, CO_CALLOC_NL };
    int o = (int) (c.idx % 6);
    { CStep* s = b.push(CO_SWITCH); s->n = a0; }
    b.malloc_type(r, OPS[o++ % 6]);
    b.push(CO_SET_COUNTDOWN)->n = n;
    for (int j = 0; j < k; j++) b.malloc_type(r, OPS[o++ % 6]);
    int reach = 0;                                     // requests that reach the new allocator before the clear
    if (path == 1) reach = n - 1 - k; else if (path == 2) reach = n - 1 - k;      // request number n is the first one the out-of-memory answers
    { CStep* s = b.push(CO_SWITCH); s->n = a1; if (a1 && desig) s->d[0] = reach + 2; }
    for (int j = 0; j < reach; j++) b.malloc_type(r, OPS[o++ % 6]);
    if (path == 2) { b.malloc_type(r, OPS[o++ % 6]); b.malloc_type(r, OPS[o++ % 6]); }
    b.push(CO_RESTORE);
    for (int j = 0; j < 3; j++) b.malloc_type(r, OPS[o++ % 6]);
    c_run_and_judge(c, b, "cswitchpending:" + std::to_string(c.idx));
    c.count(path == 2 ? "c_allocator_switched_while_countdown_pending_then_expired_then_cleared" : "c_allocator_switched_while_countdown_pending_then_cleared_unexpired");
}

// ---- section (complete): out-of-memory is requested AGAIN while it is already in force (set_out_of_memory twice, countdown(0) after an
// expired countdown, ...), with no clear in between. Only forms that ask for out-of-memory NOW are repeated (a positive countdown set while
// the out-of-memory state is in force has no defined meaning and is not generated). One clear then ends the injection: the requests after it
// are answered by the allocator that was in effect before the first request for out-of-memory.
static void sec_c_rearm(vf::Ctx& c) {
    uint64_t i = c.idx; CBuilder b; vf::Rng r(0xC160, c.idx, 9);
    int a = (int) (i % 3); i /= 3;
    int first = (int) (i % 4); i /= 4;                 // 0 direct, 1 countdown(0), 2 countdown(1) + 1 request, 3 countdown(2) + 2 requests (the last one is the first to fail)
    int between = (int) (i % 2); i /= 2;               // failing requests between the two requests for out-of-memory
    int second = (int) (i % 2); i /= 2;                // 0 direct, 1 countdown(0)
    int third = (int) (i % 3); i /= 3;                 // 0 none, 1 direct, 2 countdown(0)
    bool desig = i & 1;
    static const int OPS[] = { CO_MALLOC, CO_STRDUP, CO_CALLOC_NL, CO_MALLOC_NL, CO_STRNDUP, CO_CALLOC };
    int o = (int) (c.idx % 6);
    { CStep* s = b.push(CO_SWITCH); s->n = a; if (a && desig) s->d[0] = (first >= 2 ? first - 1 : 0) + 3; }     // fires on the 2nd request after the clear (requests reaching the allocator: first-1 before expiry, 1 before arming)
    b.malloc_type(r, OPS[o++ % 6]);
    if (first == 0) b.push(CO_SET_OOM); else b.push(CO_SET_COUNTDOWN)->n = first - 1;
    for (int j = 0; j < first - 1; j++) b.malloc_type(r, OPS[o++ % 6]);
    for (int j = 0; j < between; j++) b.malloc_type(r, OPS[o++ % 6]);
    if (second == 0) b.push(CO_SET_OOM); else b.push(CO_SET_COUNTDOWN)->n = 0;
    b.malloc_type(r, OPS[o++ % 6]);
    if (third == 1) b.push(CO_SET_OOM); else if (third == 2) b.push(CO_SET_COUNTDOWN)->n = 0;
    if (third) b.malloc_type(r, OPS[o++ % 6]);
    b.push(CO_RESTORE);
    for (int j = 0; j < 3; j++) b.malloc_type(r, OPS[o++ % 6]);
    c_run_and_judge(c, b, "crearm:" + std::to_string(c.idx));
    c.count("c_out_of_memory_requested_again_while_in_force");
}

// ---- section: a global designation registered AFTER some allocations were already made (complete small table).
// "the n-th allocation overall": the index counts every allocation since the allocator was created or cleared,
// whether or not a designation was pending at the time. Two designations, registered at different moments.
static void sec_late_global(vf::Ctx& c) {
    uint64_t i = c.idx;
    int before = (int) (i % 7); i /= 7;          // allocations before the first designation
    int d1 = 1 + (int) (i % 4); i /= 4;          // first designation: overall index before + d1
    int gap = (int) (i % 3); i /= 3;             // allocations between the two registrations
    int d2 = 1 + (int) (i % 3); i /= 3;          // second designation: (allocations so far) + d2 (skipped when it coincides with the first)
    bool cleared_first = i & 1; i >>= 1;          // run a consumed designation + clearFailedAllocs() before the scenario (counter restarts at 0)
    int stale = (int) (i % 4);                    // also designate an overall index that has ALREADY passed: 1 the allocation just made, 2 the first one, 3 index 0 — no later allocation is "the n-th"
    c.begin([=] { return vf::J().k("allocations_before_first_designation", before).k("first_designation_overall_index", before + d1).k("allocations_between_registrations", gap)
                  .k("second_designation_offset", d2).k("after_clear", cleared_first).k("also_designated_passed_index", stale == 0 ? -1 : stale == 1 ? before : stale == 2 ? 1 : 0).str(); });
    FailableMemoryAllocator a("late", "lalloc", "lfree");
    std::vector<char*> blocks;
    auto alloc = [&](int line) { char* p = a.alloc_memory(8, "late.c", (size_t) line); if (p) blocks.push_back(p); return p != nullptr; };
    if (cleared_first) { alloc(1); a.failAllocNumber(2); alloc(2); alloc(3); a.clearFailedAllocs(); }
    int n = 0; std::set<int> want;
    for (int k = 0; k < before; k++) { n++; if (!alloc(10)) c.violation("late-global:undesignated-failed:before-any-designation", "allocation " + std::to_string(n) + " returned NULL although nothing is designated"); }
    int stale_n = stale == 1 ? before : stale == 2 ? 1 : 0;
    bool stale_set = stale != 0 && (stale == 3 || before >= 1);
    if (stale_set) { a.failAllocNumber(stale_n); c.count("late_global_designations_of_an_index_already_passed"); }
    int n1 = before + d1; a.failAllocNumber(n1); want.insert(n1);
    int made = 0;
    while (made < gap && n + 1 < n1) { n++; made++; if (!alloc(11)) c.violation("late-global:undesignated-failed:between-registrations", "allocation " + std::to_string(n) + " returned NULL, designated is " + std::to_string(n1)); }
    int n2 = n + d2; if (n2 != n1) { a.failAllocNumber(n2); want.insert(n2); }
    int last = *want.rbegin() + 2;
    while (n < last) {
        n++;
        bool ok = alloc(12), designated = want.count(n) != 0;
        if (designated && ok) c.violation("late-global:designated-succeeded", "allocation " + std::to_string(n) + " overall is designated (designations " + std::to_string(n1) + (n2 != n1 ? "," + std::to_string(n2) : "") + ", " + std::to_string(before) + " allocations preceded the first registration) but succeeded");
        if (!designated && !ok) c.violation(stale_set ? "late-global:undesignated-failed:index-already-passed-was-designated" : "late-global:undesignated-failed", "allocation " + std::to_string(n) + " overall returned NULL, designated are " + std::to_string(n1) + (n2 != n1 ? "," + std::to_string(n2) : ""));
    }
    a.clearFailedAllocs();
    for (char* p : blocks) a.free_memory(p, 8, "late.c", 99);
    c.count("late_global_designation_cases");
    if (before > 0) c.nontrivial("late" + std::to_string(c.idx));
}

int main(int argc, char** argv) {
    for (int i = 0; i < 128; i++) SRC[i] = (char) ('a' + (i * 7) % 26);
    SRC[128] = 0;
    init_enum(); init_cenum();
    std::vector<vf::Section> S = {
        { "fault_enumeration", enum_total, enum_total, sec_fault_enum, true },
        { "location_name_discrimination", 2 * 2 * 2 * 2 * 4 * (NAME_PMAX + 1), 2 * 2 * 2 * 2 * 4 * (NAME_PMAX + 1), sec_name_discrimination, true },
        { "c_countdown_enumeration", cenum_total, cenum_total, sec_c_enum, true },
        { "c_realloc_null_in_oom", 24, 24, sec_c_realloc_null, true },
        { "c_episodes_x_malloc_allocators", 6 * 6 * 6, 6 * 6 * 6, sec_c_switch_enum, true },
        { "c_allocator_switch_while_countdown_pending", 3 * 2 * 3 * 3 * 3 * 2, 3 * 2 * 3 * 3 * 3 * 2, sec_c_switch_pending, true },
        { "c_out_of_memory_requested_again_while_in_force", 3 * 4 * 2 * 2 * 3 * 2, 3 * 4 * 2 * 2 * 3 * 2, sec_c_rearm, true },
        { "check_asked_from_every_place_x_pending", 2 * CX_N * 3 * 3 * 2, 2 * CX_N * 3 * 3 * 2, sec_check_context, true },
        { "c_countdown_x_statistics_call_position", 4 * 8 * 10 * 3, 4 * 8 * 10 * 3, sec_c_stat_enum, true },
        { "global_designation_after_earlier_allocations", 7 * 4 * 3 * 3 * 2 * 4, 7 * 4 * 3 * 3 * 2 * 4, sec_late_global, true },
        { "failable_direct_random", 20000, 300000, sec_direct_random, false },
        { "failable_installed_random", 16000, 250000, sec_installed_random, false },
        { "c_countdown_random", 8000, 120000, sec_c_random, false },
        { "c_episodes_with_allocator_switches_random", 6000, 100000, sec_c_switch_random, false },
    };
    return vf::harness_main(argc, argv, S, nullptr);
}
