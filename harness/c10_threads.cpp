// C10 — thread-safe allocation mode: no race on detector state, schedule-independent accounting,
// a misuse never leaves the detector's lock held.
//  * concurrent section: T threads run seeded allocation scripts through the REAL user path
//    (global operator new/delete/new[]/delete[], cpputest_malloc/realloc/free) against a private
//    detector; the PlatformSpecificMutexLock/Unlock seams are wrapped (owner tracking, lock log,
//    yield/sleep injection at acquire/release). Built with -fsanitize=thread (races; reports are
//    parsed by the driver) and with ASan/UBSan (memory safety), same workload.
//    Dimensions of a run: thread count, script length, delay injection, cross-thread hand-off, save/restore pairs,
//    the detector's PERIOD while the threads run (enabled / checking / disabled - blocks are entered into the table
//    in every period), and every public release form (plain, sized, nothrow and the located placement forms
//    operator delete / delete[] (void*, file, line), called directly and - in the builds with exceptions - by the
//    compiler when a constructor throws inside new (file, line) T / T[n]).
//    A mutual-exclusion monitor sits in every callback the detector makes from inside its accounting code
//    (allocator alloc/free, the platform realloc seam): it counts threads inside at once; when a callback arrives on
//    a thread that does not own the detector mutex it dwells (bounded) so that the overlap the missing lock permits
//    actually happens (forced pre-emption) - the verdict is the observed overlap, never the missing owner alone.
//  * misuse section: each (entry point, misuse kind) inside a fixture test with the real failing
//    reporter; the mutex wrapper observes whether the lock is still owned at the quiescent point.
#include "verif.h"
#include <atomic>
#include <pthread.h>
#include <sched.h>
#include <new>

#include "CppUTest/TestHarness.h"
#include "CppUTest/TestTestingFixture.h"
#include "CppUTest/MemoryLeakDetector.h"
#include "CppUTest/MemoryLeakWarningPlugin.h"
#include "CppUTest/TestMemoryAllocator.h"
#include "CppUTest/PlatformSpecificFunctions.h"
#include "CppUTest/TestHarness_c.h"
#undef new
#undef malloc
#undef free
#undef realloc
#undef calloc
#undef strdup
#undef strndup

// ------------------------------------------------------------------ mutex seam wrapper
static void (*real_lock)(PlatformSpecificMutex);
static void (*real_unlock)(PlatformSpecificMutex);
static thread_local int t_id = 0;              // 0 = main thread, workers 1..T
static thread_local vf::Rng* t_rng = nullptr;
static thread_local int t_delay_pct = 0;

enum { LOG_CAP = 1 << 20 };
static int* g_log;                             // owner sequence (thread ids at acquire), written while holding the lock
static size_t g_log_n;
static std::atomic<int> g_owner(-1);           // -1: free (atomic only so that the monitor's own self-deadlock probe is race-free). Only touched while holding the real mutex (or by the single main thread at quiescence)
static uint64_t g_acquisitions, g_handoffs, g_lock_errors_unowned_unlock, g_lock_errors_double_owner;
static std::atomic<uint64_t> g_self_deadlocks;
static int g_last_owner = -1;
static std::atomic<PlatformSpecificMutex> g_last_mutex;

static void inject_delay() {
    if (!t_rng || !t_delay_pct) return;
    int roll = (int) t_rng->below(100);
    if (roll >= t_delay_pct) return;
    if (roll % 3 == 0) { struct timespec ts = { 0, (long) (t_rng->below(50) * 1000) }; nanosleep(&ts, nullptr); }
    else sched_yield();
}

static void wrap_lock(PlatformSpecificMutex m) {
    inject_delay();
    // g_owner holds a thread's id only while that thread owns the mutex, and only that thread ever writes
    // its own id: reading it without the lock (relaxed atomic) can only show "me" if I really hold it.
    if (g_owner.load(std::memory_order_relaxed) == t_id && g_last_mutex.load(std::memory_order_relaxed) == m) {
        // the calling thread already owns the (non-recursive) mutex: the real call would self-deadlock.
        // Record it, release on the thread's behalf and go on (no hang, no wall-clock verdict).
        g_self_deadlocks++;
        g_owner = -1;
        real_unlock(m);
    }
    real_lock(m);
    if (g_owner != -1) g_lock_errors_double_owner++;
    g_owner = t_id; g_last_mutex = m;
    g_acquisitions++;
    if (g_last_owner != t_id) { if (g_last_owner != -1) g_handoffs++; if (g_log_n < LOG_CAP) g_log[g_log_n++] = t_id; }
    g_last_owner = t_id;
}
static void wrap_unlock(PlatformSpecificMutex m) {
    if (g_owner != t_id) g_lock_errors_unowned_unlock++;
    g_owner = -1;
    real_unlock(m);
    inject_delay();
}
static void install_wrapper() {
    real_lock = PlatformSpecificMutexLock; real_unlock = PlatformSpecificMutexUnlock;
    PlatformSpecificMutexLock = wrap_lock; PlatformSpecificMutexUnlock = wrap_unlock;
    g_log_n = 0; g_owner = -1; g_last_owner = -1; g_acquisitions = g_handoffs = g_lock_errors_unowned_unlock = g_lock_errors_double_owner = 0; g_self_deadlocks = 0;
}
static void remove_wrapper() { PlatformSpecificMutexLock = real_lock; PlatformSpecificMutexUnlock = real_unlock; }

// ------------------------------------------------------------------ mutual-exclusion monitor inside the locked region
// The detector calls the current allocators while it holds its lock. These allocators (same names as the
// defaults, so family matching is unchanged) count how many threads are inside an allocator callback at once.
// One of them can be armed to hold the lock for more than 3 s once (a slow or descheduled owner).
static std::atomic<int> g_inside(0);
static std::atomic<uint64_t> g_overlaps(0), g_callbacks(0), g_realloc_seam_calls(0), g_unowned(0);
static std::atomic<uint32_t> g_unowned_mask(0);          // entry classes whose callbacks arrived without the lock owner being the caller
static std::atomic<int> g_slow_armed(0);
// which public entry point the calling worker is in (set by the worker before each call)
enum EntryClass { EC_NONE, EC_NEW, EC_NEW_NOTHROW, EC_NEW_LOC, EC_NEWARR, EC_NEWARR_NOTHROW, EC_NEWARR_LOC, EC_MALLOC, EC_REALLOC, EC_CALLOC, EC_FREE,
                  EC_DEL, EC_DEL_SIZED, EC_DEL_NOTHROW, EC_DEL_LOC, EC_DELARR, EC_DELARR_SIZED, EC_DELARR_NOTHROW, EC_DELARR_LOC,
                  EC_NEW_LOC_THROW, EC_NEWARR_LOC_THROW, EC_N };
static const char* const EC_NAME[EC_N] = { "?", "new", "new(nothrow)", "new(file,line)", "new[]", "new[](nothrow)", "new[](file,line)", "malloc", "realloc", "calloc", "free",
                  "delete", "delete(sized)", "delete(nothrow)", "delete(file,line)", "delete[]", "delete[](sized)", "delete[](nothrow)", "delete[](file,line)",
                  "new(file,line)", "new[](file,line)" };
static thread_local int t_entry = EC_NONE;
static void mon_enter(bool releasing) {
    if (g_inside.fetch_add(1) > 0) g_overlaps++;
    g_callbacks++;
    if (t_id > 0 && g_owner.load(std::memory_order_relaxed) != t_id) {
        // The detector is calling back from inside its accounting code on a worker that does not own the detector
        // mutex. Nothing is concluded from that alone; the monitor forces the pre-emption the property quantifies
        // over: stay here (bounded, <= ~10 ms, only until the first overlap of the run) so that another thread can enter.
        int cls = t_entry;
        if (cls == EC_NEW_LOC_THROW) cls = releasing ? EC_DEL_LOC : EC_NEW_LOC;              // releasing: the compiler-generated release after a constructor threw
        if (cls == EC_NEWARR_LOC_THROW) cls = releasing ? EC_DELARR_LOC : EC_NEWARR_LOC;
        g_unowned++; g_unowned_mask.fetch_or(1u << cls);
        for (int i = 0; i < 400 && !g_overlaps.load() && g_inside.load() < 2; i++) { struct timespec ts = { 0, 25000 }; nanosleep(&ts, nullptr); }
    }
}
static void mon_leave() { g_inside.fetch_sub(1); }
struct MonAlloc : public TestMemoryAllocator {
    MonAlloc(const char* n, const char* a, const char* f) : TestMemoryAllocator(n, a, f) {}
    char* alloc_memory(size_t size, const char* file, size_t line) CPPUTEST_OVERRIDE {
        mon_enter(false);
        if (size >= 3001 && size < 3200 && g_slow_armed.load() && g_slow_armed.exchange(0)) { struct timespec ts = { 3, 300000000 }; nanosleep(&ts, nullptr); }
        char* p = TestMemoryAllocator::alloc_memory(size, file, line);
        mon_leave();
        return p;
    }
    void free_memory(char* memory, size_t size, const char* file, size_t line) CPPUTEST_OVERRIDE {
        mon_enter(true);
        TestMemoryAllocator::free_memory(memory, size, file, line);
        mon_leave();
    }
};
// reallocMemory does not go through the allocator but through the platform realloc seam (also called with the lock held)
static void* (*real_realloc)(void*, size_t);
static void* mon_realloc(void* p, size_t n) {
    mon_enter(false); g_realloc_seam_calls++;
    void* r = real_realloc(p, n);
    mon_leave();
    return r;
}

// ------------------------------------------------------------------ recording (non-jumping) reporter
struct RecReporter : public MemoryLeakFailure {
    int calls = 0; char first[300];
    void fail(char* s) CPPUTEST_OVERRIDE { if (calls++ == 0) { strncpy(first, s, sizeof first - 1); first[sizeof first - 1] = 0; } }
};

// ------------------------------------------------------------------ worker scripts
enum Fam { F_NEW, F_NEWARR, F_MALLOC };
struct Slot { char* p; size_t size; int fam; unsigned char tag; };
enum { SLOTS = 48, MAXT = 16, MAILBOXES = 8 };
struct Mail { std::atomic<uintptr_t> p; std::atomic<size_t> size; std::atomic<int> fam; std::atomic<int> tag; };
static Mail g_mail[MAILBOXES];

struct Worker {
    int id; uint64_t seed; int ops; int delay_pct; bool use_mail; bool long_hold;
    Slot slots[SLOTS];
    // results
    uint64_t allocs_ok, reallocs_ok, frees, pattern_errors, null_results, mailed, received;
    uint64_t by_kind[8];
    uint64_t rel_form[5];          // releases by form: plain, sized, nothrow, located (direct call), located (by the compiler after a constructor threw)
    uint32_t exec_mask;            // entry classes this worker used
    pthread_t th;
};
static Worker g_workers[MAXT + 1];
static inline void enter(Worker& w, int ec) { t_entry = ec; w.exec_mask |= 1u << ec; }
static pthread_barrier_t g_barrier;

static void fill(char* p, size_t n, unsigned char tag) { for (size_t i = 0; i < n; i++) p[i] = (char) (tag + (unsigned char) i); }
static bool check(const char* p, size_t n, unsigned char tag) { for (size_t i = 0; i < n; i++) if (p[i] != (char) (tag + (unsigned char) i)) return false; return true; }

static char* do_alloc(vf::Rng& r, int fam, size_t size, Worker& w) {
    switch (fam) {
    case F_NEW:
        switch (r.below(3)) {
        case 0: w.by_kind[0]++; enter(w, EC_NEW); return (char*) ::operator new(size);
        case 1: w.by_kind[1]++; enter(w, EC_NEW_NOTHROW); return (char*) ::operator new(size, std::nothrow);
        default: w.by_kind[0]++; enter(w, EC_NEW_LOC); return (char*) ::operator new(size, "c10_threads.cpp", (size_t) (100 + w.id));
        }
    case F_NEWARR:
        switch (r.below(3)) {
        case 0: w.by_kind[2]++; enter(w, EC_NEWARR); return (char*) ::operator new[](size);
        case 1: w.by_kind[3]++; enter(w, EC_NEWARR_NOTHROW); return (char*) ::operator new[](size, std::nothrow);
        default: w.by_kind[2]++; enter(w, EC_NEWARR_LOC); return (char*) ::operator new[](size, "c10_threads.cpp", (size_t) (200 + w.id));
        }
    default:
        switch (r.below(4)) {
        case 0: w.by_kind[4]++; enter(w, EC_MALLOC); return (char*) cpputest_malloc(size);
        case 1: w.by_kind[4]++; enter(w, EC_MALLOC); return (char*) cpputest_malloc_location(size, "c10_threads.cpp", (size_t) (300 + w.id));
        case 2: w.by_kind[6]++; enter(w, EC_REALLOC); return (char*) cpputest_realloc(nullptr, size);                         // realloc(NULL, n) is an allocation
        default: { w.by_kind[7]++; enter(w, EC_CALLOC); char* p = (char*) cpputest_calloc(1, size); return p; }
        }
    }
}
// Every public release form of the family: plain, sized (C++14), nothrow, and the located placement forms
// (void*, const char* file, int|size_t line) declared in MemoryLeakDetectorNewMacros.h.
static void do_free(vf::Rng& r, int fam, char* p, size_t size, Worker& w) {
    w.frees++;
    int form = (int) r.below(5);
    (void) size;
    switch (fam) {
    case F_NEW:
        switch (form) {
        case 0: w.rel_form[0]++; enter(w, EC_DEL); ::operator delete(p); break;
#if __cplusplus >= 201402L
        case 1: w.rel_form[1]++; enter(w, EC_DEL_SIZED); ::operator delete(p, size); break;
#endif
        case 2: w.rel_form[2]++; enter(w, EC_DEL_NOTHROW); ::operator delete(p, std::nothrow); break;
        case 3: w.rel_form[3]++; enter(w, EC_DEL_LOC); ::operator delete(p, "c10_threads.cpp", (int) (500 + w.id)); break;
        case 4: w.rel_form[3]++; enter(w, EC_DEL_LOC); ::operator delete(p, "c10_threads.cpp", (size_t) (500 + w.id)); break;
        default: w.rel_form[0]++; enter(w, EC_DEL); ::operator delete(p); break;
        }
        break;
    case F_NEWARR:
        switch (form) {
        case 0: w.rel_form[0]++; enter(w, EC_DELARR); ::operator delete[](p); break;
#if __cplusplus >= 201402L
        case 1: w.rel_form[1]++; enter(w, EC_DELARR_SIZED); ::operator delete[](p, size); break;
#endif
        case 2: w.rel_form[2]++; enter(w, EC_DELARR_NOTHROW); ::operator delete[](p, std::nothrow); break;
        case 3: w.rel_form[3]++; enter(w, EC_DELARR_LOC); ::operator delete[](p, "c10_threads.cpp", (int) (600 + w.id)); break;
        case 4: w.rel_form[3]++; enter(w, EC_DELARR_LOC); ::operator delete[](p, "c10_threads.cpp", (size_t) (600 + w.id)); break;
        default: w.rel_form[0]++; enter(w, EC_DELARR); ::operator delete[](p); break;
        }
        break;
    default:
        w.rel_form[0]++; enter(w, EC_FREE);
        if (form & 1) cpputest_free(p); else cpputest_free_location(p, "c10_threads.cpp", (size_t) (700 + w.id));
        break;
    }
}

// A located new expression whose constructor throws: the compiler hands the storage back through the matching
// located placement operator delete / delete[] - the only caller those forms have in real programs. Net effect on
// the outstanding set: none; the sequence counter advances by one.
#ifndef VF_NOEXC
template <size_t N> struct Thrower { char payload[N]; Thrower() { payload[0] = 1; throw 42; } };
template <size_t N> static bool throwing_new(bool array, bool int_line) {
    try {
        Thrower<N>* t;
        if (array) { t_entry = EC_NEWARR_LOC_THROW; t = int_line ? new ("c10_threads.cpp", 801) Thrower<N>[2] : new ("c10_threads.cpp", (size_t) 802) Thrower<N>[2]; }
        else { t_entry = EC_NEW_LOC_THROW; t = int_line ? new ("c10_threads.cpp", 803) Thrower<N> : new ("c10_threads.cpp", (size_t) 804) Thrower<N>; }
        (void) t;
        return false;
    } catch (int) { return true; }
}
#endif
static void alloc_then_located_release(vf::Rng& r, Worker& w) {
    bool array = r.chance(50), int_line = r.chance(50); int sz = (int) r.below(3);
#ifndef VF_NOEXC
    if (r.chance(70)) {
        bool threw = sz == 0 ? throwing_new<1>(array, int_line) : sz == 1 ? throwing_new<24>(array, int_line) : throwing_new<700>(array, int_line);
        (void) threw;
        w.exec_mask |= array ? (1u << EC_NEWARR_LOC) | (1u << EC_DELARR_LOC) : (1u << EC_NEW_LOC) | (1u << EC_DEL_LOC);
        w.allocs_ok++; w.frees++; w.rel_form[4]++;
        return;
    }
#endif
    // what the compiler generates for that case, spelled out (also possible in the build without exceptions)
    size_t n = sz == 0 ? 1 : sz == 1 ? 24 : 700;
    char* p;
    if (array) { enter(w, EC_NEWARR_LOC); p = int_line ? (char*) ::operator new[](n, "c10_threads.cpp", 805) : (char*) ::operator new[](n, "c10_threads.cpp", (size_t) 806); }
    else { enter(w, EC_NEW_LOC); p = int_line ? (char*) ::operator new(n, "c10_threads.cpp", 807) : (char*) ::operator new(n, "c10_threads.cpp", (size_t) 808); }
    if (!p) { w.null_results++; return; }
    w.allocs_ok++; p[0] = 1;
    w.frees++; w.rel_form[3]++;
    if (array) { enter(w, EC_DELARR_LOC); if (int_line) ::operator delete[](p, "c10_threads.cpp", 805); else ::operator delete[](p, "c10_threads.cpp", (size_t) 806); }
    else { enter(w, EC_DEL_LOC); if (int_line) ::operator delete(p, "c10_threads.cpp", 807); else ::operator delete(p, "c10_threads.cpp", (size_t) 808); }
}

static void* worker_main(void* arg) {
    Worker& w = *(Worker*) arg;
    vf::Rng rng(w.seed, (uint64_t) w.id, 77);
    t_id = w.id; t_rng = &rng; t_delay_pct = w.delay_pct;
    pthread_barrier_wait(&g_barrier);
    if (w.long_hold) {          // this allocation makes the (armed) allocator sleep > 3 s while the detector lock is held
        enter(w, EC_NEWARR);
        char* p = (char*) ::operator new[](3001);
        if (p) { w.allocs_ok++; w.slots[0].p = p; w.slots[0].size = 3001; w.slots[0].fam = F_NEWARR; w.slots[0].tag = 7; fill(p, 3001, 7); }
    }
    for (int op = 0; op < w.ops; op++) {
        int s = (int) rng.below(SLOTS);
        Slot& sl = w.slots[s];
        int roll = (int) rng.below(100);
        if (!sl.p) {
            if (w.use_mail && roll < 8) {                                    // take a block another thread posted
                Mail& mb = g_mail[rng.below(MAILBOXES)];
                uintptr_t got = mb.p.load(std::memory_order_acquire);
                // claim the occupied mailbox (value 1 = busy), read the fields, then mark it empty
                if (got > 1 && mb.p.compare_exchange_strong(got, 1, std::memory_order_acq_rel)) {
                    sl.p = (char*) got; sl.size = mb.size.load(std::memory_order_relaxed); sl.fam = mb.fam.load(std::memory_order_relaxed); sl.tag = (unsigned char) mb.tag.load(std::memory_order_relaxed);
                    mb.p.store(0, std::memory_order_release);
                    w.received++;
                }
                continue;
            }
            if (roll >= 8 && roll < 14) { alloc_then_located_release(rng, w); continue; }
            size_t size = rng.chance(10) ? (size_t) rng.range(0, 3) : (size_t) rng.range(1, rng.chance(20) ? 2000 : 120);
            int fam = (int) rng.below(3);
            char* p = do_alloc(rng, fam, size, w);
            if (!p) { w.null_results++; continue; }
            w.allocs_ok++;
            sl.p = p; sl.size = size; sl.fam = fam; sl.tag = (unsigned char) rng.below(256);
            fill(p, size, sl.tag);
        } else {
            if (!check(sl.p, sl.size, sl.tag)) w.pattern_errors++;
            if (sl.fam == F_MALLOC && roll < 30) {                           // realloc (grow or shrink), keeps the prefix
                size_t ns = (size_t) rng.range(1, 300);
                w.by_kind[5]++; enter(w, EC_REALLOC);
                char* np = (char*) (rng.chance(50) ? cpputest_realloc(sl.p, ns) : cpputest_realloc_location(sl.p, ns, "c10_threads.cpp", (size_t) (400 + w.id)));
                if (!np) { w.null_results++; continue; }
                w.reallocs_ok++;
                size_t keep = ns < sl.size ? ns : sl.size;
                if (!check(np, keep, sl.tag)) w.pattern_errors++;
                sl.p = np; sl.size = ns; fill(np, ns, sl.tag);
            } else if (w.use_mail && roll < 40) {                            // hand the block to whoever picks it up
                Mail& mb = g_mail[rng.below(MAILBOXES)];
                {
                    // claim the empty mailbox (value 1 = busy), publish the fields, then the pointer
                    uintptr_t expected = 0;
                    if (mb.p.compare_exchange_strong(expected, 1, std::memory_order_acq_rel)) {
                        mb.size.store(sl.size, std::memory_order_relaxed); mb.fam.store(sl.fam, std::memory_order_relaxed); mb.tag.store(sl.tag, std::memory_order_relaxed);
                        mb.p.store((uintptr_t) sl.p, std::memory_order_release);
                        sl.p = nullptr; w.mailed++;
                    }
                }
            } else {
                do_free(rng, sl.fam, sl.p, sl.size, w);
                sl.p = nullptr;
            }
        }
    }
    t_rng = nullptr;
    return nullptr;
}

// parse "Alloc num (N) Leak size: S" entries of a report
static void parse_report(const char* rep, std::vector<unsigned>& nums, std::vector<size_t>& sizes, long& footer_total) {
    footer_total = -1;
    const char* p = rep;
    while ((p = strstr(p, "Alloc num (")) != nullptr) {
        unsigned n = 0; unsigned long s = 0;
        if (sscanf(p, "Alloc num (%u) Leak size: %lu", &n, &s) == 2) { nums.push_back(n); sizes.push_back(s); }
        p += 10;
    }
    const char* f = strstr(rep, "Total number of leaks: ");
    if (f) footer_total = atol(f + strlen("Total number of leaks: "));
}

static void concurrent_run(vf::Ctx& c, bool long_hold);
static void sec_concurrent(vf::Ctx& c) { concurrent_run(c, false); }
static void sec_long_hold(vf::Ctx& c) { concurrent_run(c, true); }
static void concurrent_run(vf::Ctx& c, bool long_hold) {
    static const int TS[] = { 2, 3, 4, 8, 16 };
    int T = long_hold ? 3 : c.thorough ? TS[c.rng.below(5)] : TS[c.rng.below(4)];
    int ops = long_hold ? 400 : c.thorough ? c.rng.range(800, 5000) : c.rng.range(300, 1500);
    int delay_pct = (int) c.rng.below(4) * 15;                    // 0, 15, 30, 45 % of lock operations perturbed
    bool use_mail = c.rng.chance(50);
    uint64_t seed = c.rng.next();
    int save_restore_pairs = c.rng.chance(50) ? c.rng.range(1, 2) : 0;
    // the detector's period while the threads run: blocks are entered into the table (and need the lock) in every period
    static const char* const PERIOD[] = { "enabled", "checking", "disabled" };
    int period = (int) c.rng.below(3);
    c.begin([=] { return vf::J().k("threads", T).k("detector_period", PERIOD[period]).k("ops_per_thread", ops).k("delay_pct", delay_pct).k("cross_thread_handoff", use_mail).k("save_restore_pairs_after_switch", save_restore_pairs).k("owner_holds_lock_over_3s_once", long_hold).k("script_seed", (unsigned long long) seed).str(); });

    // private detector, created and destroyed with the overloads off
    MemoryLeakWarningPlugin::saveAndDisableNewDeleteOverloads();
    MemoryLeakDetector* old_det = MemoryLeakWarningPlugin::getGlobalDetector();
    MemoryLeakFailure* old_rep = MemoryLeakWarningPlugin::getGlobalFailureReporter();
    // From here until the end of the case the harness itself must not allocate through a *tracked*
    // operator new while `det` is the global detector: overloads stay disabled except for the
    // monitored workload and the final release loop (which use static storage only).
    RecReporter* rep = new RecReporter;
    MemoryLeakDetector* det = new MemoryLeakDetector(rep);
    MemoryLeakWarningPlugin::setGlobalDetector(det, rep);
    switch (period) { case 0: det->enable(); break; case 1: det->enable(); det->startChecking(); break; default: det->disable(); break; }
    unsigned seq0 = det->getCurrentAllocationNumber();

    for (int i = 0; i < MAILBOXES; i++) { g_mail[i].p = 0; }
    install_wrapper();
    pthread_barrier_init(&g_barrier, nullptr, (unsigned) T);
    for (int i = 1; i <= T; i++) {
        Worker& w = g_workers[i];
        memset((void*) &w, 0, sizeof w);
        w.id = i; w.seed = seed; w.ops = ops; w.delay_pct = delay_pct; w.use_mail = use_mail; w.long_hold = long_hold && i == 1;
    }
    static MonAlloc monNew("Standard New Allocator", "new", "delete"), monArr("Standard New [] Allocator", "new []", "delete []"), monMal("Standard Malloc Allocator", "malloc", "free");
    setCurrentNewAllocator(&monNew); setCurrentNewArrayAllocator(&monArr); setCurrentMallocAllocator(&monMal);
    real_realloc = PlatformSpecificRealloc; PlatformSpecificRealloc = mon_realloc;
    g_inside = 0; g_overlaps = 0; g_callbacks = 0; g_realloc_seam_calls = 0; g_unowned = 0; g_unowned_mask = 0; g_slow_armed = long_hold ? 1 : 0;
    MemoryLeakWarningPlugin::restoreNewDeleteOverloads();
    MemoryLeakWarningPlugin::turnOnThreadSafeNewDeleteOverloads();
    // users bracket third-party code with save/restore; thread-safe mode must survive such a pair (no allocation in between)
    if (save_restore_pairs) for (int i = 0; i < save_restore_pairs; i++) { MemoryLeakWarningPlugin::saveAndDisableNewDeleteOverloads(); MemoryLeakWarningPlugin::restoreNewDeleteOverloads(); }
    for (int i = 1; i <= T; i++) pthread_create(&g_workers[i].th, nullptr, worker_main, &g_workers[i]);
    for (int i = 1; i <= T; i++) pthread_join(g_workers[i].th, nullptr);
    pthread_barrier_destroy(&g_barrier);
    MemoryLeakWarningPlugin::turnOnDefaultNotThreadSafeNewDeleteOverloads();
    MemoryLeakWarningPlugin::saveAndDisableNewDeleteOverloads();
    remove_wrapper();
    PlatformSpecificRealloc = real_realloc;
    setCurrentNewAllocatorToDefault(); setCurrentNewArrayAllocatorToDefault(); setCurrentMallocAllocatorToDefault();
    g_slow_armed = 0;

    // ---- quiescent point: model vs detector
    if (g_overlaps.load()) {
        // Key: which public entry points reached the detector's accounting code on a thread that did not own the detector
        // mutex (none: the lock itself let two owners in). "all" when every entry class used in the run did.
        std::string key = "critical-section-overlap";
        uint32_t mask = g_unowned_mask.load();
        if (mask) {
            std::string names; int n = 0; uint32_t used = 0;
            for (int i = 1; i <= T; i++) used |= g_workers[i].exec_mask;
            for (int e = 1; e < EC_NEW_LOC_THROW; e++) if (mask & (1u << e)) { names += (n++ ? "," : ""); names += EC_NAME[e]; }
            bool all = n >= 3 && (mask & used) == used;
            key += ":reached-without-the-lock=" + (all ? std::string("every-entry-point-used") : names);
            if (all) key += std::string(":detector-period=") + PERIOD[period];
        }
        c.violation(key, std::to_string(g_overlaps.load()) + " callbacks from inside the detector's accounting code (allocator alloc/free, platform realloc - made while the detector lock is held) started while another thread was inside one; "
                    + std::to_string(g_unowned.load()) + " callbacks arrived on a thread that did not own the detector mutex; detector period " + PERIOD[period] + (long_hold ? " [one owner held the lock for 3.3 s]" : ""));
    }

    uint64_t allocs = 0, reallocs = 0, held = 0, pattern_errors = 0, mailed = 0, received = 0, nulls = 0;
    std::vector<size_t> held_sizes;
    for (int i = 1; i <= T; i++) {
        Worker& w = g_workers[i];
        allocs += w.allocs_ok; reallocs += w.reallocs_ok; pattern_errors += w.pattern_errors; mailed += w.mailed; received += w.received; nulls += w.null_results;
        for (Slot& s : w.slots) if (s.p) { held++; held_sizes.push_back(s.size); if (!check(s.p, s.size, s.tag)) pattern_errors++; }
    }
    struct InMail { char* p; size_t size; int fam; };
    std::vector<InMail> in_mail;
    for (int i = 0; i < MAILBOXES; i++) { uintptr_t p = g_mail[i].p.load(); if (p > 1) { in_mail.push_back(InMail{ (char*) p, g_mail[i].size.load(), g_mail[i].fam.load() }); held++; held_sizes.push_back(g_mail[i].size.load()); } }

    size_t total = det->totalMemoryLeaks(mem_leak_period_all);
    if (total != held) c.violation("accounting:outstanding-count-differs", "detector holds " + std::to_string(total) + " blocks, the threads hold " + std::to_string(held));
    if (rep->calls) c.violation("spurious-misuse-report", std::string("detector reported a misuse during a correct concurrent run: ") + rep->first);
    if (pattern_errors) c.violation("block-content-damaged", std::to_string(pattern_errors) + " blocks lost their fill pattern");
    unsigned seq1 = det->getCurrentAllocationNumber();
    if ((uint64_t) (seq1 - seq0) != allocs + reallocs) c.violation("sequence-counter-drift", "counter advanced by " + std::to_string(seq1 - seq0) + ", successful allocations+reallocations " + std::to_string(allocs + reallocs));
    if (g_lock_errors_unowned_unlock || g_lock_errors_double_owner) c.violation("lock-discipline", "unlock by non-owner: " + std::to_string(g_lock_errors_unowned_unlock) + ", acquire while owned: " + std::to_string(g_lock_errors_double_owner));
    if (g_self_deadlocks.load()) c.violation("lock-reacquired-by-its-owner", std::to_string(g_self_deadlocks.load()) + " lock() calls came from the thread that already owned the non-recursive mutex (would self-deadlock; repaired by the monitor)");
    if (g_owner != -1) c.violation("lock-held-at-quiescence", "owner " + std::to_string(g_owner.load()) + " after all threads joined");
    // report (only when it fits the buffer without truncation: few held blocks)
    if (held <= 12) {
        const char* text = det->report(mem_leak_period_all);
        std::vector<unsigned> nums; std::vector<size_t> sizes; long footer = -1;
        parse_report(text, nums, sizes, footer);
        std::vector<size_t> a = sizes, b = held_sizes; std::sort(a.begin(), a.end()); std::sort(b.begin(), b.end());
        if (held == 0) { if (!strstr(text, "No memory leaks were detected.")) c.violation("report:no-leaks-answer-wrong", "nothing held but the report does not say so"); }
        else {
            if (a != b) c.violation("report:entries-differ-from-held-set", "reported sizes differ from the sizes the threads still hold");
            if (footer != (long) held) c.violation("report:total-differs", "footer total " + std::to_string(footer) + " held " + std::to_string(held));
            std::set<unsigned> uniq(nums.begin(), nums.end());
            if (uniq.size() != nums.size()) c.violation("sequence-number-duplicated", "two outstanding blocks carry the same allocation number");
        }
        c.count("reports_compared");
    }
    // release what is left through the plain (non thread-safe) overloads; every one must be accepted
    int before = rep->calls;
    MemoryLeakWarningPlugin::restoreNewDeleteOverloads();          // tracked (not thread-safe) overloads for the release loop; no harness allocation in it
    for (int i = 1; i <= T; i++) for (Slot& s : g_workers[i].slots) if (s.p) { switch (s.fam) { case F_NEW: ::operator delete(s.p); break; case F_NEWARR: ::operator delete[](s.p); break; default: cpputest_free(s.p); } s.p = nullptr; }
    for (InMail& m : in_mail) { switch (m.fam) { case F_NEW: ::operator delete(m.p); break; case F_NEWARR: ::operator delete[](m.p); break; default: cpputest_free(m.p); } }
    MemoryLeakWarningPlugin::saveAndDisableNewDeleteOverloads();
    if (rep->calls != before) c.violation("held-block-rejected-on-release", std::string("releasing a block a thread still held was reported: ") + rep->first);
    if (det->totalMemoryLeaks(mem_leak_period_all) != 0) c.violation("accounting:not-empty-after-release", "blocks remain after everything was released");

    MemoryLeakWarningPlugin::setGlobalDetector(old_det, old_rep);
    delete det; delete rep;
    in_mail.clear(); in_mail.shrink_to_fit(); held_sizes.clear(); held_sizes.shrink_to_fit();
    MemoryLeakWarningPlugin::restoreNewDeleteOverloads();

    // evidence (only here: the counters' map nodes must be allocated and freed under the same overload regime)
    c.count("allocator_callbacks_under_lock", g_callbacks.load() - g_realloc_seam_calls.load());
    c.count("realloc_seam_calls_under_lock", g_realloc_seam_calls.load());
    c.count("callbacks_without_lock_owner", g_unowned.load());
    c.count(std::string("runs_in_detector_period_") + PERIOD[period]);
    c.count(std::string("thread_ops_in_detector_period_") + PERIOD[period], (uint64_t) T * (uint64_t) ops);
    { uint64_t f[5] = { 0, 0, 0, 0, 0 }; for (int i = 1; i <= T; i++) for (int k = 0; k < 5; k++) f[k] += g_workers[i].rel_form[k];
      c.count("releases_plain_form", f[0]); c.count("releases_sized_form", f[1]); c.count("releases_nothrow_form", f[2]);
      c.count("releases_located_placement_form_direct", f[3]); c.count("releases_located_placement_form_after_constructor_throw", f[4]); }
    if (long_hold) c.count("runs_with_owner_holding_lock_over_3s");
    c.count("lock_acquisitions", g_acquisitions);
    c.count("lock_handoffs_between_threads", g_handoffs);
    c.count("thread_ops", (uint64_t) T * (uint64_t) ops);
    c.count("allocations", allocs); c.count("reallocations", reallocs); c.count("cross_thread_handoffs_of_blocks", received);
    c.count("null_results", nulls);
    { uint64_t rn = 0, cal = 0; for (int i = 1; i <= T; i++) { rn += g_workers[i].by_kind[6]; cal += g_workers[i].by_kind[7]; } c.count("allocations_via_realloc_null", rn); c.count("allocations_via_calloc", cal); }
    c.count(std::string("runs_with_threads_") + std::to_string(T));
    if (save_restore_pairs) c.count("runs_with_save_restore_pair_after_switch");
    uint64_t h = vf::fnv(g_log, sizeof(int) * (g_log_n < 64 ? g_log_n : 64));
    if (g_handoffs >= 100) { char b[40]; snprintf(b, sizeof b, "%016llx", (unsigned long long) h); c.nontrivial(b); }
}

// ------------------------------------------------------------------ misuse while the lock is held
enum Entry { E_DELETE, E_DELETE_ARR, E_FREE, E_REALLOC, E_N };
static const char* ENTRY[] = { "operator delete", "operator delete[]", "cpputest_free", "cpputest_realloc" };
enum Kind { K_CORRUPTION, K_NONALLOCATED, K_MISMATCH, K_N };
static const char* KIND[] = { "corruption", "non-allocated", "type-mismatch" };
static int g_entry, g_kind; static size_t g_msize; static bool g_after_ran; static int g_after_mode;
static char g_foreign[64];

static void release_via(int entry, char* p) {
    switch (entry) {
    case E_DELETE: ::operator delete(p); break;
    case E_DELETE_ARR: ::operator delete[](p); break;
    case E_FREE: cpputest_free(p); break;
    default: { char* q = (char*) cpputest_realloc(p, 40); if (q) cpputest_free(q); break; }
    }
}
static char* alloc_matching(int entry, size_t n, bool matching) {
    // family that (mis)matches the releasing entry point
    int fam = entry == E_DELETE ? F_NEW : entry == E_DELETE_ARR ? F_NEWARR : F_MALLOC;
    if (!matching) fam = (fam + 1) % 3;
    switch (fam) { case F_NEW: return (char*) ::operator new(n); case F_NEWARR: return (char*) ::operator new[](n); default: return (char*) cpputest_malloc(n); }
}
static void misuse_body() {
    char* p;
    switch (g_kind) {
    case K_CORRUPTION: p = alloc_matching(g_entry, g_msize, true); p[g_msize] = 'x'; release_via(g_entry, p); break;      // overrun the first guard byte
    case K_NONALLOCATED: release_via(g_entry, g_foreign + 8); break;
    default: p = alloc_matching(g_entry, g_msize, false); release_via(g_entry, p); break;
    }
    // not reached when the misuse was reported (the failure leaves the test)
}
static void after_body() {
    // the run continues: a later test allocates and releases through the same thread-safe overloads
    g_after_ran = true;
    char* a = (char*) ::operator new(16); ::operator delete(a);
    char* b = (char*) cpputest_malloc(8); b = (char*) cpputest_realloc(b, 32); cpputest_free(b);
    CHECK(true);
}

static void sec_misuse(vf::Ctx& c) {
    g_entry = (int) (c.idx % E_N); g_kind = (int) ((c.idx / E_N) % K_N);
    static const size_t SZ[] = { 1, 8, 13, 64 };
    g_msize = SZ[(c.idx / (E_N * K_N)) % 4];
    int entry = g_entry, kind = g_kind; size_t msize = g_msize;
    c.begin([=] { return vf::J().k("entry", ENTRY[entry]).k("misuse", KIND[kind]).k("size", (unsigned long) msize).str(); });
    (void) MemoryLeakWarningPlugin::getGlobalDetector();
    MemoryLeakWarningPlugin::getGlobalDetector()->enableAllocationTypeChecking();
    std::string keytail = std::string(":via=") + ENTRY[g_entry] + ":kind=" + KIND[g_kind];
    size_t failures = 0; bool after_ran = false;
    uint64_t self_deadlocks = 0; int owner_after_misuse_test = -1;
    {
        TestTestingFixture fx;
        install_wrapper();
        t_id = 0;
        MemoryLeakWarningPlugin::turnOnThreadSafeNewDeleteOverloads();
        fx.setTestFunction(misuse_body);
        fx.runAllTests();
        failures = fx.getFailureCount();
        owner_after_misuse_test = g_owner.load();                  // quiescent point: the test has ended
        // the run continues with another test in the same process
        g_after_ran = false;
        {
            TestTestingFixture fx2;
            fx2.setTestFunction(after_body);
            fx2.runAllTests();
            after_ran = g_after_ran;
            if (fx2.getFailureCount() != 0) c.violation("later-test-fails-after-misuse" + keytail, "the test following a reported misuse failed: " + std::string(fx2.getOutput().asCharString()).substr(0, 300));
        }
        self_deadlocks = g_self_deadlocks.load();
        if (g_owner != -1) { g_owner = -1; real_unlock(g_last_mutex.load()); }
        MemoryLeakWarningPlugin::turnOnDefaultNotThreadSafeNewDeleteOverloads();
        remove_wrapper();
        if (failures != 1) c.violation("misuse-not-reported-once" + keytail, "the misuse produced " + std::to_string(failures) + " test failures: " + std::string(fx.getOutput().asCharString()).substr(0, 400));
    }
    if (!after_ran) c.violation("run-did-not-continue-after-misuse" + keytail, "the following test did not run");
    if (owner_after_misuse_test != -1 || self_deadlocks)
        c.violation("lock-held-after-misuse" + keytail, "detector mutex still owned when the failing test ended (owner " + std::to_string(owner_after_misuse_test) + "); the next allocation of the same thread would self-deadlock (" + std::to_string(self_deadlocks) + " such acquisitions intercepted and repaired by the monitor)");
    c.count("misuse_scenarios");
    c.count("misuse_lock_acquisitions", g_acquisitions);
    c.nontrivial(std::string(ENTRY[entry]) + KIND[kind] + std::to_string(msize));
}

// ------------------------------------------------------------------ an allocation that FAILS while the lock is held
// A request the detector or the allocator cannot satisfy (size + accounting overflows size_t, size no machine has) comes back as NULL /
// bad_alloc: no misuse, just an unsuccessful allocation. It must not leave the detector's lock held: the same thread and another thread
// allocate afterwards. Observed by the mutex monitor at the quiescent point after the failing request (owner must be nobody).
enum AF { AF_NEW, AF_NEWARR, AF_NEW_LOC, AF_NEWARR_LOC, AF_NEW_NOTHROW, AF_NEWARR_NOTHROW, AF_MALLOC, AF_REALLOC, AF_REALLOC_NULL, AF_N };
static const char* AF_NAME[] = { "operator new", "operator new[]", "operator new(file,line)", "operator new[](file,line)", "operator new(nothrow)", "operator new[](nothrow)", "cpputest_malloc", "cpputest_realloc", "cpputest_realloc(NULL)" };
static int g_af; static size_t g_afsize; static int g_af_outcome, g_af_owner_after, g_af_stage; static bool g_af_other_done;
static void* af_request(int how, size_t n, char* old) {
    switch (how) {
    case AF_NEW: return ::operator new(n);
    case AF_NEWARR: return ::operator new[](n);
    case AF_NEW_LOC: return ::operator new(n, "c10_threads.cpp", (size_t) 901);
    case AF_NEWARR_LOC: return ::operator new[](n, "c10_threads.cpp", (size_t) 902);
    case AF_NEW_NOTHROW: return ::operator new(n, std::nothrow);
    case AF_NEWARR_NOTHROW: return ::operator new[](n, std::nothrow);
    case AF_MALLOC: return cpputest_malloc(n);
    case AF_REALLOC: return cpputest_realloc(old, n);
    default: return cpputest_realloc(NULL, n);
    }
}
static void* af_other_thread(void*) {
    t_id = 1;
    char* a = (char*) ::operator new(24); ::operator delete(a);
    char* b = (char*) cpputest_malloc(8); cpputest_free(b);
    g_af_other_done = true;
    return nullptr;
}
static void allocfail_body() {
    g_af_stage = 1;
    char* old = g_af == AF_REALLOC ? (char*) cpputest_malloc(16) : NULL;
    void* p = NULL; g_af_outcome = 0;
#ifndef VF_NOEXC
    try { p = af_request(g_af, g_afsize, old); g_af_outcome = p ? 1 : 2; } catch (...) { g_af_outcome = 3; }
#else
    p = af_request(g_af, g_afsize, old); g_af_outcome = p ? 1 : 2;
#endif
    g_af_owner_after = g_owner.load();            // quiescent: the failing request is over
    g_af_stage = 2;
    // the same thread goes on allocating (with the real mutex this would be the self-deadlock) ...
    char* a = (char*) ::operator new(16); ::operator delete(a);
    char* b = (char*) cpputest_malloc(8); b = (char*) cpputest_realloc(b, 32); cpputest_free(b);
    if (old && g_af_outcome != 1) cpputest_free(old);            // a failed realloc leaves the old block alone
    g_af_stage = 3;
    // ... and so does another thread
    if (g_owner.load() == -1) { pthread_t th; if (pthread_create(&th, nullptr, af_other_thread, nullptr) == 0) pthread_join(th, nullptr); }
    g_af_stage = 4;
}
static void sec_allocfail(vf::Ctx& c) {
    static const size_t SZ[] = { (size_t) -1, (size_t) -1 - 8, (size_t) -1 - 64, ((size_t) 1 << 62), ((size_t) 1 << 48) + 5 };
    g_af = (int) (c.idx % AF_N); g_afsize = SZ[(c.idx / AF_N) % 5];
    int af = g_af; size_t afsize = g_afsize;
    c.begin([=] { return vf::J().k("request", AF_NAME[af]).k("size", (unsigned long) afsize).str(); });
    (void) MemoryLeakWarningPlugin::getGlobalDetector();
    std::string keytail = std::string(":via=") + AF_NAME[af];
    uint64_t self_deadlocks = 0; size_t failures = 0;
    g_af_stage = 0; g_af_other_done = false; g_af_owner_after = -1; g_af_outcome = 0;
    {
        TestTestingFixture fx;
        install_wrapper();
        t_id = 0;
        MemoryLeakWarningPlugin::turnOnThreadSafeNewDeleteOverloads();
        fx.setTestFunction(allocfail_body);
        fx.runAllTests();
        failures = fx.getFailureCount();
        self_deadlocks = g_self_deadlocks.load();
        if (g_owner != -1) { g_owner = -1; real_unlock(g_last_mutex.load()); }
        MemoryLeakWarningPlugin::turnOnDefaultNotThreadSafeNewDeleteOverloads();
        remove_wrapper();
    }
    if (g_af_outcome == 1) { c.count("allocation_failure_scenarios_request_succeeded_unjudged"); return; }      // the machine gave the block: no failure to look at
    if (g_af_stage < 2) { c.count("allocation_failure_scenarios_left_the_test_unjudged"); return; }                // reported as a test failure that leaves the test: the misuse section's business
    if (g_af_owner_after != -1 || self_deadlocks)
        c.violation("lock-held-after-failed-allocation" + keytail, "detector mutex still owned (owner " + std::to_string(g_af_owner_after) + ") after the request returned " + (g_af_outcome == 3 ? "by exception" : "NULL") + "; " + std::to_string(self_deadlocks) + " self-deadlocking acquisitions intercepted by the monitor");
    else if (g_af_stage == 4 && !g_af_other_done) c.violation("other-thread-did-not-allocate-after-failed-allocation" + keytail, "");
    (void) failures;
    c.count("allocation_failure_scenarios");
    c.count(g_af_outcome == 3 ? "allocation_failures_by_exception" : "allocation_failures_by_null");
    c.nontrivial(std::string("af") + AF_NAME[af] + std::to_string(afsize));
}

int main(int argc, char** argv) {
    g_log = (int*) malloc(sizeof(int) * LOG_CAP);
    std::vector<vf::Section> S = {
#ifdef VF_TSAN
        { "concurrent_scripts", 40, 500, sec_concurrent, false },
#else
        { "concurrent_scripts", 60, 600, sec_concurrent, false },
#endif
        { "owner_holds_lock_over_3s", 1, 3, sec_long_hold, false },
        { "misuse_while_locked", E_N * K_N * 4, E_N * K_N * 4, sec_misuse, true },
        { "allocation_failure_while_locked", AF_N * 5, AF_N * 5, sec_allocfail, true },
    };
    return vf::harness_main(argc, argv, S);
}
