// C01 — a failing check always fails the run: lifecycle, failure count, exit value.
//
// Generated test *programs* (tests x phases x statements, plugin errors, IGNOREd tests, filters,
// repetitions) are executed by the real framework and by a 60-line sequential interpreter (the model).
// Compared: the execution trace (every statement records itself before it executes), the failures
// parsed from the printed output (location, test, exactly once), the printed summary, the TestResult
// counters, the value returned by the command line runner, and - after every test and after the run -
// the jump-buffer depth (guarded hook), the current-test / current-result pointers and the per-test
// failed flag.
//
// Run modes:  (a) private TestRegistry + StringBufferTestOutput (or a capturing TestOutput for big programs)
//             (b) CommandLineTestRunner(ac, av, registry).runAllTestsMain(), console captured at PlatformSpecificFPuts
//             (c) a forked process calling RUN_ALL_TESTS(ac, av) (MemoryLeakWarningPlugin installed), observations
//                 through shared memory, exit status read by the parent
// (a) and (b) are also run *nested* inside an outer test, so that the values to restore are not the defaults.
//
// Terminator configurations: every run mode is also driven in the crash-on-fail configuration (UtestShell::setCrashOnFail()
// before the run, or -f on the command line of the runner / the forked process) with a crash method that RETURNS
// (UtestShell::setCrashMethod(): debugger trap / stack-trace logger that continues). A failing check still has to leave its
// phase after the hook returned, so the model is the same as in the default configuration; the hook only counts its calls.
//
// Build variants: asan (exceptions) and asan-noexc (-fno-exceptions -DVF_NOEXC: no throw statements).
#include "verif.h"
#include <stdexcept>
#include <memory>
#include <array>
#include <cmath>
#include <climits>
#include <sys/mman.h>
#include <sys/wait.h>
#include <signal.h>

#include "CppUTest/TestHarness.h"
#include "CppUTest/TestRegistry.h"
#include "CppUTest/TestOutput.h"
#include "CppUTest/TestResult.h"
#include "CppUTest/TestPlugin.h"
#include "CppUTest/TestFilter.h"
#include "CppUTest/TestFailure.h"
#include "CppUTest/CommandLineTestRunner.h"
#include "CppUTest/PlatformSpecificFunctions.h"
#include "CppUTest/TestHarness_c.h"

extern "C" int CppUTestVerif_JumpBufferDepth(void);
extern "C" int CppUTestVerif_JumpBufferCapacity(void);

#ifndef VF_VARIANT
#define VF_VARIANT "unknown"
#endif

// ================================================================= program description
enum { K_MARK, K_PASS, K_FAILCPP, K_FAILC, K_THROWSTD, K_THROWINT, K_PRINT, K_EXIT, K_N };
static const char* KNAME[] = { "mark", "pass", "failcpp", "failc", "throwstd", "throwint", "print", "exit", "plugin" };
enum { K_PLUGIN = K_N };
static const int N_STD = 4, N_INT = 4;
static const char* PHNAME[] = { "setup", "body", "teardown" };

// ---- the check catalogue: which check form a statement variant is, and which class of arguments it gets on its passing and on its
// failing path. Every check family (assert function of UtestShell / the C interface) appears with ordinary arguments and with the boundary
// arguments that take one of its early-return / shortcut paths (length 0, NULL operands, empty mask, zero tolerance, infinities, extreme
// values). "One executed check = one counted check" whatever the arguments, on the passing and on the failing path.
// (CHECK_COMPARE is not in the catalogue: on its passing path the macro does not call into the framework at all, see props.d/C01.py.)
struct Form { const char* macro; const char* family; const char* pass_args; const char* fail_args; };
static const Form CPPFORM[] = {   // do_cpp(): C++-style checks through the *_LOCATION macros (indices are the statement variants)
    { "CHECK", "true", "ordinary", "ordinary" }, { "CHECK_TRUE", "true", "ordinary", "ordinary" }, { "CHECK_FALSE", "true", "ordinary", "ordinary" },
    { "FAIL-else-CHECK", "fail", "ordinary", "ordinary" }, { "LONGS_EQUAL", "longs", "ordinary", "ordinary" }, { "UNSIGNED_LONGS_EQUAL", "ulongs", "ordinary", "ordinary" },
    { "LONGLONGS_EQUAL", "longlongs", "ordinary", "ordinary" }, { "UNSIGNED_LONGLONGS_EQUAL", "ulonglongs", "ordinary", "ordinary" }, { "STRCMP_EQUAL", "cstr", "ordinary", "ordinary" },
    { "STRCMP_EQUAL", "cstr", "ordinary", "one_null_operand" }, { "STRNCMP_EQUAL", "cstrn", "ordinary", "ordinary" }, { "STRCMP_NOCASE_EQUAL", "cstr_nocase", "ordinary", "ordinary" },
    { "STRCMP_CONTAINS", "contains", "ordinary", "ordinary" }, { "STRCMP_NOCASE_CONTAINS", "nocase_contains", "ordinary", "ordinary" }, { "DOUBLES_EQUAL", "doubles", "ordinary", "ordinary" },
    { "POINTERS_EQUAL", "pointers", "ordinary", "ordinary" }, { "FUNCTIONPOINTERS_EQUAL", "fpointers", "ordinary", "ordinary" }, { "CHECK_EQUAL", "equals", "ordinary", "ordinary" },
    { "MEMCMP_EQUAL", "binary", "ordinary", "ordinary" }, { "BITS_EQUAL", "bits", "ordinary", "ordinary" }, { "SIGNED_BYTES_EQUAL", "sbytes", "ordinary", "ordinary" },
    { "ENUMS_EQUAL_TYPE", "equals", "ordinary", "ordinary" }, { "FAIL_TEST-else-LONGS_EQUAL", "fail", "ordinary", "ordinary" }, { "DOUBLES_EQUAL", "doubles", "ordinary", "nan" },
    { "CHECK_EQUAL", "equals", "ordinary", "ordinary" },
    // boundary arguments (index 25..)
    { "MEMCMP_EQUAL", "binary", "length_0", "ordinary" }, { "MEMCMP_EQUAL", "binary", "both_operands_null", "one_null_operand" }, { "MEMCMP_EQUAL", "binary", "prefix", "prefix" },
    { "STRCMP_EQUAL", "cstr", "both_operands_null", "one_null_operand" }, { "STRNCMP_EQUAL", "cstrn", "length_0", "ordinary" }, { "STRNCMP_EQUAL", "cstrn", "both_operands_null", "one_null_operand" },
    { "STRCMP_NOCASE_EQUAL", "cstr_nocase", "both_operands_null", "one_null_operand" }, { "STRCMP_CONTAINS", "contains", "both_operands_null", "one_null_operand" },
    { "STRCMP_NOCASE_CONTAINS", "nocase_contains", "both_operands_null", "one_null_operand" }, { "BITS_EQUAL", "bits", "empty_mask", "ordinary" }, { "DOUBLES_EQUAL", "doubles", "zero_tolerance", "zero_tolerance" },
    { "DOUBLES_EQUAL", "doubles", "infinities", "infinities" }, { "CHECK_EQUAL", "equals", "bool_operands", "bool_operands" }, { "CHECK_EQUAL", "equals", "double_operands", "double_operands" },
    { "POINTERS_EQUAL", "pointers", "both_operands_null", "one_null_operand" }, { "FUNCTIONPOINTERS_EQUAL", "fpointers", "both_operands_null", "one_null_operand" },
    { "LONGS_EQUAL", "longs", "extreme_values", "extreme_values" }, { "UNSIGNED_LONGS_EQUAL", "ulongs", "extreme_values", "extreme_values" },
};
static const Form CFORM[] = {     // do_c(): C-interface checks (leave by longjmp in every build)
    { "CHECK_C", "true", "ordinary", "ordinary" }, { "FAIL_TEXT_C-else-CHECK_C", "fail", "ordinary", "ordinary" }, { "FAIL_C-else-CHECK_C", "fail", "ordinary", "ordinary" },
    { "CHECK_EQUAL_C_BOOL", "equals", "ordinary", "ordinary" }, { "CHECK_EQUAL_C_INT", "longs", "ordinary", "ordinary" }, { "CHECK_EQUAL_C_UINT", "ulongs", "ordinary", "ordinary" },
    { "CHECK_EQUAL_C_LONG", "longs", "ordinary", "ordinary" }, { "CHECK_EQUAL_C_ULONG", "ulongs", "ordinary", "ordinary" }, { "CHECK_EQUAL_C_LONGLONG", "longlongs", "ordinary", "ordinary" },
    { "CHECK_EQUAL_C_ULONGLONG", "ulonglongs", "ordinary", "ordinary" }, { "CHECK_EQUAL_C_REAL", "doubles", "ordinary", "ordinary" }, { "CHECK_EQUAL_C_CHAR", "equals", "ordinary", "ordinary" },
    { "CHECK_EQUAL_C_UBYTE", "equals", "ordinary", "ordinary" }, { "CHECK_EQUAL_C_SBYTE", "equals", "ordinary", "ordinary" }, { "CHECK_EQUAL_C_STRING", "cstr", "ordinary", "ordinary" },
    { "CHECK_EQUAL_C_POINTER", "pointers", "ordinary", "ordinary" }, { "CHECK_EQUAL_C_MEMCMP", "binary", "ordinary", "ordinary" }, { "CHECK_EQUAL_C_BITS", "bits", "ordinary", "ordinary" },
    // boundary arguments (index 18..)
    { "CHECK_EQUAL_C_MEMCMP", "binary", "length_0", "ordinary" }, { "CHECK_EQUAL_C_MEMCMP", "binary", "both_operands_null", "one_null_operand" }, { "CHECK_EQUAL_C_STRING", "cstr", "both_operands_null", "one_null_operand" },
    { "CHECK_EQUAL_C_BITS", "bits", "empty_mask", "ordinary" }, { "CHECK_EQUAL_C_REAL", "doubles", "zero_tolerance", "zero_tolerance" }, { "CHECK_EQUAL_C_POINTER", "pointers", "both_operands_null", "one_null_operand" },
    { "CHECK_EQUAL_C_BOOL", "equals", "different_truthy_values", "ordinary" },
};
static const Form PASSFORM[] = {  // do_pass(): checks that pass, written the way test authors write them (plain macros; a passing check prints no location)
    { "CHECK_TRUE_LOCATION", "true", "ordinary", "" }, { "LONGS_EQUAL_LOCATION", "longs", "ordinary", "" }, { "STRCMP_EQUAL_LOCATION", "cstr", "ordinary", "" },
    { "CHECK_C_LOCATION", "true", "ordinary", "" }, { "CHECK_EQUAL_C_INT_LOCATION", "longs", "ordinary", "" }, { "CHECK_THROWS", "throws", "ordinary", "" },
    // index 6..
    { "MEMCMP_EQUAL", "binary", "length_0", "" }, { "MEMCMP_EQUAL", "binary", "length_0_both_operands_null", "" }, { "MEMCMP_EQUAL", "binary", "length_0_one_null_operand", "" },
    { "MEMCMP_EQUAL_TEXT", "binary", "length_0_one_null_operand", "" }, { "CHECK_EQUAL_C_MEMCMP", "binary", "length_0", "" }, { "CHECK_EQUAL_C_MEMCMP_TEXT", "binary", "length_0_one_null_operand", "" },
    { "MEMCMP_EQUAL", "binary", "prefix", "" }, { "MEMCMP_EQUAL", "binary", "both_operands_null", "" }, { "MEMCMP_EQUAL", "binary", "ordinary", "" },
    { "STRCMP_EQUAL", "cstr", "both_operands_null", "" }, { "STRNCMP_EQUAL", "cstrn", "length_0", "" }, { "STRNCMP_EQUAL", "cstrn", "both_operands_null", "" },
    { "STRCMP_NOCASE_EQUAL", "cstr_nocase", "both_operands_null", "" }, { "STRCMP_CONTAINS", "contains", "both_operands_null", "" }, { "STRCMP_NOCASE_CONTAINS", "nocase_contains", "both_operands_null", "" },
    { "STRCMP_NOCASE_EQUAL", "cstr_nocase", "ordinary", "" }, { "STRCMP_CONTAINS", "contains", "ordinary", "" }, { "STRCMP_NOCASE_CONTAINS", "nocase_contains", "ordinary", "" },
    { "CHECK_TEXT", "true", "ordinary", "" }, { "CHECK_FALSE", "true", "ordinary", "" }, { "CHECK_EQUAL", "equals", "ordinary", "" },
    { "CHECK_EQUAL_TEXT", "equals", "double_operands", "" }, { "CHECK_EQUAL_ZERO", "equals", "ordinary", "" }, { "UNSIGNED_LONGS_EQUAL", "ulongs", "ordinary", "" },
    { "LONGLONGS_EQUAL", "longlongs", "extreme_values", "" }, { "UNSIGNED_LONGLONGS_EQUAL", "ulonglongs", "extreme_values", "" }, { "BYTES_EQUAL", "longs", "ordinary", "" },
    { "SIGNED_BYTES_EQUAL", "sbytes", "ordinary", "" }, { "POINTERS_EQUAL", "pointers", "both_operands_null", "" }, { "FUNCTIONPOINTERS_EQUAL", "fpointers", "ordinary", "" },
    { "DOUBLES_EQUAL", "doubles", "zero_tolerance", "" }, { "DOUBLES_EQUAL", "doubles", "infinities", "" }, { "BITS_EQUAL", "bits", "empty_mask", "" },
    { "ENUMS_EQUAL_INT", "equals", "ordinary", "" }, { "ENUMS_EQUAL_TYPE", "equals", "ordinary", "" }, { "CHECK_C_TEXT", "true", "ordinary", "" },
    { "CHECK_EQUAL_C_BOOL", "equals", "different_truthy_values", "" }, { "CHECK_EQUAL_C_UINT", "ulongs", "ordinary", "" }, { "CHECK_EQUAL_C_LONG", "longs", "extreme_values", "" },
    { "CHECK_EQUAL_C_ULONG", "ulongs", "extreme_values", "" }, { "CHECK_EQUAL_C_LONGLONG", "longlongs", "ordinary", "" }, { "CHECK_EQUAL_C_ULONGLONG", "ulonglongs", "ordinary", "" },
    { "CHECK_EQUAL_C_REAL", "doubles", "zero_tolerance", "" }, { "CHECK_EQUAL_C_CHAR", "equals", "ordinary", "" }, { "CHECK_EQUAL_C_UBYTE", "equals", "ordinary", "" },
    { "CHECK_EQUAL_C_SBYTE", "equals", "ordinary", "" }, { "CHECK_EQUAL_C_STRING", "cstr", "both_operands_null", "" }, { "CHECK_EQUAL_C_POINTER", "pointers", "both_operands_null", "" },
    { "CHECK_EQUAL_C_BITS", "bits", "empty_mask", "" }, { "CHECK_EQUAL_C_MEMCMP", "binary", "both_operands_null", "" },
};
static const int N_CPP = (int) (sizeof CPPFORM / sizeof CPPFORM[0]), N_C = (int) (sizeof CFORM / sizeof CFORM[0]), N_PASS = (int) (sizeof PASSFORM / sizeof PASSFORM[0]);
static const int N_CPP_ORDINARY = 25, N_C_ORDINARY = 18;   // the variants before the boundary-argument ones

struct Stmt {
    int kind = K_MARK, variant = 0, id = 0;
    std::string file; int line = 0;     // synthetic location (unique per statement)
    unsigned mask = 0xF;                 // repetitions (bit r) in which a failing kind really fails / throws / exits
    int deep = 0;                        // extra stack frames between the phase and the check
    std::string text;                    // unique token, used as user text / what()
    bool active(int rep) const { return (mask >> rep) & 1u; }
    bool terminating_kind() const { return kind == K_FAILCPP || kind == K_FAILC || kind == K_THROWSTD || kind == K_THROWINT || kind == K_EXIT; }
};

static const Form* form_of(const Stmt& s) {
    if (s.kind == K_PASS) return &PASSFORM[(size_t) s.variant % (size_t) N_PASS];
    if (s.kind == K_FAILCPP) return &CPPFORM[(size_t) s.variant % (size_t) N_CPP];
    if (s.kind == K_FAILC) return &CFORM[(size_t) s.variant % (size_t) N_C];
    return nullptr;
}
static int form_kind_index(int kind) { return kind == K_PASS ? 0 : kind == K_FAILCPP ? 1 : 2; }
static std::string form_label(const Stmt& s, bool failing_path) {     // names the check family and the argument class, never a value
    const Form* f = form_of(s);
    if (!f) return std::string("statement-") + KNAME[s.kind];
    return std::string("check-family-") + f->family + ":" + (failing_path ? f->fail_args : f->pass_args) + (failing_path ? ":failing-path" : ":passing-path");
}

struct TestSpec {
    std::string group, name, file; int line = 0;
    bool ignored = false;
    std::vector<Stmt> ph[3];
    bool plug_pre = false, plug_post = false;    // recording plugin reports an error in pre / post action
    Stmt pre, post;                              // location/token/mask of that error
    std::string loc() const { return file + ":" + std::to_string(line); }
    std::string formatted() const { return "TEST(" + group + ", " + name + ")"; }   // IGNOREd tests only produce failures when run with -ri, then they print as TEST too
};

enum { F_NONE, F_CONTAINS, F_STRICT, F_XCONTAINS, F_XSTRICT };
static const char* FNAME[] = { "none", "contains", "strict", "exclude-contains", "exclude-strict" };

static const int MAX_OUTER = 4;     // the jump-buffer stack has 10 entries, two per nesting level: at most 4 outer tests around the program's tests (never more: undefined)
struct Program {
    int mode = 0;                   // 0 registry, 1 runner, 2 process
    std::vector<TestSpec> tests;
    int reps = 1;
    int gf = F_NONE, nf = F_NONE; std::string gfs, nfs;
    int verbose = 0; bool color = false, reverse = false, run_ignored = false, vsformat = false;
    int nested = 0;                 // number of enclosing outer tests (0..capacity/2-1): the tests of the program run at nesting level nested+1
    int outer_fail[MAX_OUTER] = { 0, 0, 0, 0 };   // per outer test (0 = outermost): after the nested run its body 0 completes, 1 fails a C++-style check, 2 fails a C-style check
    bool flag_e = false; bool string_buffer_output = false;
    // position in a history of runner invocations in one process (static configuration is left as the earlier invocations left it)
    int hist_pos = 0, hist_len = 0; bool hist_prev_without_e = false, hist_prev_with_e = false, hist_prev_with_f = false;
    std::vector<std::string> argv;  // modes 1,2
    int bystander = 0;              // extra no-op plugin: see run_inner
    int crash = 0;                  // crash-on-fail with a crash method that returns: 0 off, 1 UtestShell::setCrashOnFail() before the run, 2 "-f" (modes 1,2)
    int nstmts = 0;
    std::string shape;
};

static bool filter_match(int kind, const std::string& f, const std::string& s) {
    switch (kind) {
    case F_NONE: return true;
    case F_CONTAINS: return s.find(f) != std::string::npos;
    case F_STRICT: return s == f;
    case F_XCONTAINS: return s.find(f) == std::string::npos;
    default: return s != f;
    }
}

// ================================================================= the model (sequential interpreter)
enum { EV_PRE = 1, EV_ENTER, EV_STMT, EV_POST, EV_END };
static const char* EVNAME[] = { "?", "pre-action", "enter", "stmt", "post-action", "end" };
struct Ev { uint8_t kind; uint8_t ph; uint16_t rsv; int32_t a; };
static bool operator==(const Ev& x, const Ev& y) { return x.kind == y.kind && x.ph == y.ph && x.a == y.a; }

enum { O_NONE, O_OK, O_CPP, O_C, O_STD, O_INT, O_EXIT, O_SKIPPED };
static const char* ONAME[] = { "-", "ok", "failcpp", "failc", "throwstd", "throwint", "exit", "skipped" };

struct MFail { std::string loc; int test; int kind; bool exc; bool stdexc; std::string token; int variant; };
struct MRep {
    long tests = 0, ran = 0, checks = 0, ignored = 0, filtered = 0, failures = 0;
    bool ok = false;
    std::vector<MFail> fails;
    std::vector<int8_t> hasfailed;                 // per test, -1: not run
    std::vector<std::array<uint8_t, 3>> outcome;   // per test
    int longest_jump_run = 0;                      // consecutive executed tests that left a phase by longjmp/exception
};
struct Model {
    std::vector<Ev> trace;
    std::vector<MRep> reps;
    bool any_failing_phase = false;
    std::string sig;
    long stmt_exec[K_N + 1] = { 0 };
    long phase_outcomes[8] = { 0 };
    long test_exec = 0;
    long form_exec[3][64][2] = {};            // executed checks by (pass / C++-style / C-style catalogue, variant, passing / failing path)
    long terminator_uses[3] = { 0, 0, 0 };   // per phase: failing C++-style / C-style checks and TEST_EXITs executed (each one goes through the configured terminator)
};

static std::vector<int> run_order(const Program& p) {
    std::vector<int> o;
    for (size_t i = 0; i < p.tests.size(); i++) o.push_back((int) i);
    if (p.reverse) std::reverse(o.begin(), o.end());
    return o;
}

static Model interpret(const Program& p) {
    Model m;
    std::vector<int> order = run_order(p);
    for (int rep = 0; rep < p.reps; rep++) {
        MRep R;
        R.hasfailed.assign(p.tests.size(), -1);
        R.outcome.assign(p.tests.size(), std::array<uint8_t, 3>{ { O_NONE, O_NONE, O_NONE } });
        int run = 0;
        for (int ti : order) {
            const TestSpec& t = p.tests[ti];
            R.tests++;
            if (!(filter_match(p.gf, p.gfs, t.group) && filter_match(p.nf, p.nfs, t.name))) { R.filtered++; continue; }
            if (t.ignored && !p.run_ignored) { R.ignored++; continue; }
            R.ran++; m.test_exec++;
            bool failed = false, jumped = false;
            m.trace.push_back(Ev{ EV_PRE, 0, 0, ti });
            if (t.plug_pre && t.pre.active(rep)) { R.fails.push_back(MFail{ t.pre.file + ":" + std::to_string(t.pre.line), ti, K_PLUGIN, false, false, t.pre.text, 0 }); m.stmt_exec[K_PLUGIN]++; }
            bool setup_completed = false;
            for (int ph = 0; ph < 3; ph++) {
                if (ph == 1 && !setup_completed) { R.outcome[ti][1] = O_SKIPPED; continue; }
                m.trace.push_back(Ev{ EV_ENTER, (uint8_t) ph, 0, ti });
                uint8_t oc = O_OK;
                for (const Stmt& s : t.ph[ph]) {
                    m.trace.push_back(Ev{ EV_STMT, (uint8_t) ph, 0, s.id });
                    m.stmt_exec[s.kind]++;
                    bool act = s.active(rep);
                    if (form_of(s)) m.form_exec[form_kind_index(s.kind)][s.variant & 63][s.kind != K_PASS && act ? 1 : 0]++;
                    if (s.kind == K_PASS) R.checks++;
                    else if (s.kind == K_FAILCPP || s.kind == K_FAILC) {
                        R.checks++;
                        if (act) { R.fails.push_back(MFail{ s.file + ":" + std::to_string(s.line), ti, s.kind, false, false, s.text, s.variant }); oc = s.kind == K_FAILCPP ? O_CPP : O_C; }
                    } else if (s.kind == K_THROWSTD || s.kind == K_THROWINT) {
                        if (act) { R.fails.push_back(MFail{ t.loc(), ti, s.kind, true, s.kind == K_THROWSTD, s.text, s.variant }); oc = s.kind == K_THROWSTD ? O_STD : O_INT; }
                    } else if (s.kind == K_EXIT) {
                        if (act) oc = O_EXIT;
                    }
                    if (oc == O_CPP || oc == O_C || oc == O_EXIT) m.terminator_uses[ph]++;
                    if (oc != O_OK) break;
                }
                R.outcome[ti][ph] = oc;
                if (ph == 0) setup_completed = oc == O_OK;
                if (oc != O_OK) jumped = true;
                if (oc != O_OK && oc != O_EXIT) { failed = true; m.any_failing_phase = true; }
            }
            m.trace.push_back(Ev{ EV_POST, 0, 0, ti });
            if (t.plug_post && t.post.active(rep)) { R.fails.push_back(MFail{ t.post.file + ":" + std::to_string(t.post.line), ti, K_PLUGIN, false, false, t.post.text, 0 }); m.stmt_exec[K_PLUGIN]++; }
            R.hasfailed[ti] = failed ? 1 : 0;
            run = jumped ? run + 1 : 0;
            R.longest_jump_run = std::max(R.longest_jump_run, run);
            for (int ph = 0; ph < 3; ph++) m.phase_outcomes[R.outcome[ti][ph]]++;
        }
        R.failures = (long) R.fails.size();
        R.ok = R.failures == 0 && R.ran + R.ignored > 0;
        // signature: sequence of per-test outcome triples
        for (int ti : order) { m.sig += (char) ('a' + R.outcome[ti][0]); m.sig += (char) ('a' + R.outcome[ti][1]); m.sig += (char) ('a' + R.outcome[ti][2]); }
        m.sig += '|';
        m.reps.push_back(R);
    }
    m.trace.push_back(Ev{ EV_END, 0, 0, 0 });
    return m;
}

// ================================================================= observations (fixed size, shared with a forked child)
static const int MAXT = 320, MAXREP = 4;
static const uint32_t MAXEV = 1u << 17;
static const uint32_t MAXOUT = 6u << 20;
struct RepCounters { long tests, ran, checks, ignored, filtered, failures; int is_failure; int valid; };
struct Obs {
    uint32_t nev; int ev_overflow;
    int depth_before_run, depth_after_run, depth_capacity;
    uint32_t depth_checks, depth_drifts; int drift_test, drift_rep, drift_pre, drift_post, drift_entry[3];
    uint32_t phase_depth_unexpected; int depth_hist[16];
    uint32_t cur_bad_pre, cur_bad_post, res_bad_pre, res_bad_post, cur_bad_in_phase; int cur_after_ok, res_after_ok;
    uint32_t unknown_shell, count_overflow;
    int8_t hasfailed[MAXT][MAXREP];
    RepCounters rc_[MAXREP];
    int rc; int have_rc; int finished;
    int outer_used;              // number of outer levels (0: not nested)
    int outer_setup[4], outer_body[4], outer_teardown[4], outer_after_run[4], outer_after_fail[4];
    int outer_failures[4], outer_runs[4], outer_checks[4], outer_printed[4], outer_hasfailed[4], outer_pre[4], outer_post[4];
    int outer_depth_pre[4], outer_depth_post[4], outer_depth_body[4], outer_cur_bad[4];
    int escaped;                 // an exception left CommandLineTestRunner::runAllTestsMain (1 std::exception, 2 other)
    uint32_t crash_calls, crash_calls_outside_phase, crash_calls_in_phase[3];
    uint32_t outlen; int out_overflow;
    Ev ev[MAXEV];
    uint32_t evchk[MAXEV];      // TestResult::getCheckCount() of the result in use, read when the event was recorded (entries < nev are written)
    char out[MAXOUT];
};
static Obs* g_obs;

static void obs_reset() {
    Obs* o = g_obs;
    memset(o, 0, offsetof(Obs, ev));
    memset(o->hasfailed, -1, sizeof o->hasfailed);
    o->out[0] = 0;
}
static inline void rec(uint8_t kind, uint8_t ph, int32_t a, size_t checks_so_far) {
    Obs* o = g_obs;
    if (o->nev < MAXEV) { Ev e = { kind, ph, 0, a }; o->evchk[o->nev] = (uint32_t) checks_so_far; o->ev[o->nev++] = e; } else o->ev_overflow = 1;
}
static void out_append(const char* s) {
    Obs* o = g_obs; size_t n = strlen(s);
    if (o->outlen + n + 1 > MAXOUT) { o->out_overflow = 1; return; }
    memcpy(o->out + o->outlen, s, n); o->outlen += (uint32_t) n; o->out[o->outlen] = 0;
}

// ================================================================= real execution: scripted shells, plugin, outputs
struct RunCtx {
    const Program* p = nullptr;
    UtestShell* shells[MAXT];
    int pre_count[MAXT], create_count[MAXT], post_count[MAXT], depth_pre[MAXT];
    int entry_depth[3];                     // of the test that is running: depth at the entry of each phase (-1: not entered)
    int cur_phase = -1;                     // phase entered last (crash hook attribution); -1 between tests
    UtestShell* base_cur = nullptr; TestResult* base_res = nullptr;
    size_t ntests = 0;
};
static RunCtx G;

static int g_a = 1, g_b = 2;
static void fn1() {} static void fn2() {}
static const unsigned char M1[4] = { 1, 2, 3, 4 }, M2[4] = { 1, 2, 3, 4 }, M3[4] = { 1, 2, 9, 4 };
enum EE { E_A = 3, E_B = 4 };

#ifndef VF_NOEXC
struct MyStdEx : public std::exception { const char* w; explicit MyStdEx(const char* x) : w(x) {} const char* what() const noexcept override { return w; } };
struct ForeignEx { int v; };
#endif

static void do_cpp(int v, bool fail, const char* text, const char* f, size_t l) {
    switch (v) {
    case 0: CHECK_TRUE_LOCATION(!fail, "CHECK", "cond", NULLPTR, f, l); break;
    case 1: CHECK_TRUE_LOCATION(!fail, "CHECK_TRUE", "cond", text, f, l); break;
    case 2: CHECK_FALSE_LOCATION(fail, "CHECK_FALSE", "cond", text, f, l); break;
    case 3: if (fail) FAIL_LOCATION(text, f, l); else CHECK_TRUE_LOCATION(true, "CHECK", "cond", NULLPTR, f, l); break;
    case 4: LONGS_EQUAL_LOCATION(1, fail ? 2 : 1, text, f, l); break;
    case 5: UNSIGNED_LONGS_EQUAL_LOCATION(7u, fail ? 8u : 7u, text, f, l); break;
    case 6: LONGLONGS_EQUAL_LOCATION(-5, fail ? 5 : -5, text, f, l); break;
    case 7: UNSIGNED_LONGLONGS_EQUAL_LOCATION(1ull << 40, fail ? 1ull << 41 : 1ull << 40, text, f, l); break;
    case 8: STRCMP_EQUAL_LOCATION("abc", fail ? "abd" : "abc", text, f, l); break;
    case 9: STRCMP_EQUAL_LOCATION(fail ? (const char*) NULLPTR : "x", "x", text, f, l); break;
    case 10: STRNCMP_EQUAL_LOCATION("abcdef", fail ? "abXdef" : "abcxyz", 3, text, f, l); break;
    case 11: STRCMP_NOCASE_EQUAL_LOCATION("ABC", fail ? "abd" : "abc", text, f, l); break;
    case 12: STRCMP_CONTAINS_LOCATION("ell", fail ? "world" : "hello", text, f, l); break;
    case 13: STRCMP_NOCASE_CONTAINS_LOCATION("ELL", fail ? "world" : "hello", text, f, l); break;
    case 14: DOUBLES_EQUAL_LOCATION(1.0, fail ? 2.0 : 1.05, 0.1, text, f, l); break;
    case 15: POINTERS_EQUAL_LOCATION(&g_a, fail ? &g_b : &g_a, text, f, l); break;
    case 16: FUNCTIONPOINTERS_EQUAL_LOCATION(fn1, fail ? fn2 : fn1, text, f, l); break;
    case 17: { int e = 3, a = fail ? 4 : 3; CHECK_EQUAL_LOCATION(e, a, text, f, l); } break;
    case 18: MEMCMP_EQUAL_LOCATION(M1, fail ? M3 : M2, 4, text, f, l); break;
    case 19: { int a = fail ? 0xF0 : 0x0F; BITS_LOCATION(0x0F, a, 0xFF, text, f, l); } break;
    case 20: SIGNED_BYTES_EQUAL_TEXT_LOCATION((signed char) -1, (signed char) (fail ? 1 : -1), text, f, l); break;
    case 21: { EE a = fail ? E_B : E_A; ENUMS_EQUAL_TYPE_LOCATION(int, E_A, a, text, f, l); } break;
    case 22: if (fail) FAIL_TEST_LOCATION(text, f, l); else LONGS_EQUAL_LOCATION(0, 0, NULLPTR, f, l); break;
    case 23: DOUBLES_EQUAL_LOCATION(1.0, fail ? (double) NAN : 1.0, 0.5, text, f, l); break;
    case 24: { long e = 10, a = fail ? 11 : 10; CHECK_EQUAL_LOCATION(e, a, NULLPTR, f, l); } break;
    // boundary arguments: the passing path (and for the NULL-operand forms also the failing path) is one of the family's shortcuts
    case 25: MEMCMP_EQUAL_LOCATION(M1, M3, fail ? 4u : 0u, text, f, l); break;
    case 26: MEMCMP_EQUAL_LOCATION(fail ? M1 : (const unsigned char*) NULLPTR, (const unsigned char*) NULLPTR, 4, text, f, l); break;
    case 27: MEMCMP_EQUAL_LOCATION(M1, M3, fail ? 3u : 2u, text, f, l); break;
    case 28: STRCMP_EQUAL_LOCATION(fail ? "x" : (const char*) NULLPTR, (const char*) NULLPTR, text, f, l); break;
    case 29: STRNCMP_EQUAL_LOCATION("abc", "abd", fail ? 3u : 0u, text, f, l); break;
    case 30: STRNCMP_EQUAL_LOCATION(fail ? "x" : (const char*) NULLPTR, (const char*) NULLPTR, 2, text, f, l); break;
    case 31: STRCMP_NOCASE_EQUAL_LOCATION(fail ? "x" : (const char*) NULLPTR, (const char*) NULLPTR, text, f, l); break;
    case 32: STRCMP_CONTAINS_LOCATION(fail ? "x" : (const char*) NULLPTR, (const char*) NULLPTR, text, f, l); break;
    case 33: STRCMP_NOCASE_CONTAINS_LOCATION(fail ? "x" : (const char*) NULLPTR, (const char*) NULLPTR, text, f, l); break;
    case 34: { unsigned m = fail ? 0xFFu : 0x00u; BITS_LOCATION(0x0Fu, 0xF0u, m, text, f, l); } break;
    case 35: DOUBLES_EQUAL_LOCATION(1.0, fail ? 1.25 : 1.0, 0.0, text, f, l); break;
    case 36: DOUBLES_EQUAL_LOCATION((double) INFINITY, fail ? -(double) INFINITY : (double) INFINITY, 1.0, text, f, l); break;
    case 37: { bool e = true, a = !fail; CHECK_EQUAL_LOCATION(e, a, text, f, l); } break;
    case 38: { double e = 1.5, a = fail ? 2.5 : 1.5; CHECK_EQUAL_LOCATION(e, a, text, f, l); } break;
    case 39: POINTERS_EQUAL_LOCATION((const void*) NULLPTR, fail ? (const void*) &g_a : (const void*) NULLPTR, text, f, l); break;
    case 40: FUNCTIONPOINTERS_EQUAL_LOCATION((void (*)()) NULLPTR, fail ? fn1 : (void (*)()) NULLPTR, text, f, l); break;
    case 41: LONGS_EQUAL_LOCATION(LONG_MIN, fail ? LONG_MAX : LONG_MIN, text, f, l); break;
    default: UNSIGNED_LONGS_EQUAL_LOCATION(0ul, fail ? ULONG_MAX : 0ul, text, f, l); break;
    }
}
static_assert(sizeof CPPFORM / sizeof CPPFORM[0] == 43, "CPPFORM describes the variants of do_cpp");

static void do_c(int v, bool fail, const char* text, const char* f, size_t l) {
    switch (v) {
    case 0: CHECK_C_LOCATION(!fail, "cond", text, f, l); break;
    case 1: if (fail) FAIL_TEXT_C_LOCATION(text, f, l); else CHECK_C_LOCATION(1, "cond", NULLPTR, f, l); break;
    case 2: if (fail) FAIL_C_LOCATION(f, l); else CHECK_C_LOCATION(1, "cond", NULLPTR, f, l); break;
    case 3: CHECK_EQUAL_C_BOOL_LOCATION(1, fail ? 0 : 1, text, f, l); break;
    case 4: CHECK_EQUAL_C_INT_LOCATION(1, fail ? 2 : 1, text, f, l); break;
    case 5: CHECK_EQUAL_C_UINT_LOCATION(1u, fail ? 2u : 1u, text, f, l); break;
    case 6: CHECK_EQUAL_C_LONG_LOCATION(-1L, fail ? 1L : -1L, text, f, l); break;
    case 7: CHECK_EQUAL_C_ULONG_LOCATION(1UL, fail ? 2UL : 1UL, text, f, l); break;
    case 8: CHECK_EQUAL_C_LONGLONG_LOCATION(-9LL, fail ? 9LL : -9LL, text, f, l); break;
    case 9: CHECK_EQUAL_C_ULONGLONG_LOCATION(9ULL, fail ? 8ULL : 9ULL, text, f, l); break;
    case 10: CHECK_EQUAL_C_REAL_LOCATION(1.0, fail ? 2.0 : 1.0, 0.01, text, f, l); break;
    case 11: CHECK_EQUAL_C_CHAR_LOCATION('a', fail ? 'b' : 'a', text, f, l); break;
    case 12: CHECK_EQUAL_C_UBYTE_LOCATION((unsigned char) 200, (unsigned char) (fail ? 201 : 200), text, f, l); break;
    case 13: CHECK_EQUAL_C_SBYTE_LOCATION((signed char) -3, (signed char) (fail ? 3 : -3), text, f, l); break;
    case 14: CHECK_EQUAL_C_STRING_LOCATION("abc", fail ? "abd" : "abc", text, f, l); break;
    case 15: CHECK_EQUAL_C_POINTER_LOCATION(&g_a, fail ? &g_b : &g_a, text, f, l); break;
    case 16: CHECK_EQUAL_C_MEMCMP_LOCATION(M1, fail ? M3 : M2, 4, text, f, l); break;
    case 17: CHECK_EQUAL_C_BITS_LOCATION(0x0Fu, fail ? 0xF0u : 0x0Fu, 0xFFu, 4, text, f, l); break;
    // boundary arguments
    case 18: CHECK_EQUAL_C_MEMCMP_LOCATION(M1, M3, fail ? 4u : 0u, text, f, l); break;
    case 19: CHECK_EQUAL_C_MEMCMP_LOCATION(fail ? M1 : (const unsigned char*) NULLPTR, NULLPTR, 4, text, f, l); break;
    case 20: CHECK_EQUAL_C_STRING_LOCATION(fail ? "x" : (const char*) NULLPTR, (const char*) NULLPTR, text, f, l); break;
    case 21: CHECK_EQUAL_C_BITS_LOCATION(0x0Fu, 0xF0u, fail ? 0xFFu : 0x00u, 4, text, f, l); break;
    case 22: CHECK_EQUAL_C_REAL_LOCATION(1.0, fail ? 1.5 : 1.0, 0.0, text, f, l); break;
    case 23: CHECK_EQUAL_C_POINTER_LOCATION(NULLPTR, fail ? (const void*) &g_a : (const void*) NULLPTR, text, f, l); break;
    default: CHECK_EQUAL_C_BOOL_LOCATION(2, fail ? 0 : 1, text, f, l); break;
    }
}
static_assert(sizeof CFORM / sizeof CFORM[0] == 25, "CFORM describes the variants of do_c");

static void do_pass(int v, const char* f, size_t l) {
    switch (v) {
    case 0: CHECK_TRUE_LOCATION(true, "CHECK", "1", NULLPTR, f, l); break;
    case 1: LONGS_EQUAL_LOCATION(5, 5, NULLPTR, f, l); break;
    case 2: STRCMP_EQUAL_LOCATION("same", "same", NULLPTR, f, l); break;
    case 3: CHECK_C_LOCATION(1, "1", NULLPTR, f, l); break;
    case 4: CHECK_EQUAL_C_INT_LOCATION(4, 4, NULLPTR, f, l); break;
    case 5:
#ifndef VF_NOEXC
        CHECK_THROWS(ForeignEx, throw ForeignEx{ 3 });
#else
        UtestShell::getCurrent()->countCheck();    // what CHECK_THROWS does on success (the macro needs exception support)
#endif
        break;
    // binary comparison over an empty range, NULL operands, prefixes
    case 6: MEMCMP_EQUAL(M1, M3, 0); break;
    case 7: MEMCMP_EQUAL(NULLPTR, NULLPTR, 0); break;
    case 8: MEMCMP_EQUAL(M1, NULLPTR, 0); break;
    case 9: MEMCMP_EQUAL_TEXT(NULLPTR, M3, 0, "empty range"); break;
    case 10: CHECK_EQUAL_C_MEMCMP(M1, M3, 0); break;
    case 11: CHECK_EQUAL_C_MEMCMP_TEXT(NULLPTR, M3, 0, "nothing to compare"); break;
    case 12: MEMCMP_EQUAL(M1, M3, 2); break;
    case 13: MEMCMP_EQUAL(NULLPTR, NULLPTR, 4); break;
    case 14: MEMCMP_EQUAL(M1, M2, sizeof M1); break;
    // string comparisons: NULL operands, length 0
    case 15: STRCMP_EQUAL((const char*) NULLPTR, (const char*) NULLPTR); break;
    case 16: STRNCMP_EQUAL("abc", "xyz", 0); break;
    case 17: STRNCMP_EQUAL((const char*) NULLPTR, (const char*) NULLPTR, 3); break;
    case 18: STRCMP_NOCASE_EQUAL((const char*) NULLPTR, (const char*) NULLPTR); break;
    case 19: STRCMP_CONTAINS((const char*) NULLPTR, (const char*) NULLPTR); break;
    case 20: STRCMP_NOCASE_CONTAINS((const char*) NULLPTR, (const char*) NULLPTR); break;
    case 21: STRCMP_NOCASE_EQUAL("Hello", "hELLO"); break;
    case 22: STRCMP_CONTAINS("ell", "hello"); break;
    case 23: STRCMP_NOCASE_CONTAINS("ELL", "hello"); break;
    // the remaining plain macros
    case 24: CHECK_TEXT(g_a == 1, "user text"); break;
    case 25: CHECK_FALSE(g_a == g_b); break;
    case 26: CHECK_EQUAL(3, g_a + g_b); break;
    case 27: CHECK_EQUAL_TEXT(2.5, 2.5, "user text"); break;
    case 28: CHECK_EQUAL_ZERO(g_a - 1); break;
    case 29: UNSIGNED_LONGS_EQUAL(0u, 0u); break;
    case 30: LONGLONGS_EQUAL(LLONG_MIN, LLONG_MIN); break;
    case 31: UNSIGNED_LONGLONGS_EQUAL(ULLONG_MAX, ULLONG_MAX); break;
    case 32: BYTES_EQUAL(0xFF, -1); break;
    case 33: SIGNED_BYTES_EQUAL(-1, -1); break;
    case 34: POINTERS_EQUAL(NULLPTR, NULLPTR); break;
    case 35: FUNCTIONPOINTERS_EQUAL(fn1, fn1); break;
    case 36: DOUBLES_EQUAL(1.0, 1.0, 0.0); break;
    case 37: DOUBLES_EQUAL((double) INFINITY, (double) INFINITY, 0.0); break;
    case 38: BITS_EQUAL(0xFFu, 0x00u, 0x00u); break;
    case 39: ENUMS_EQUAL_INT(E_A, E_A); break;
    case 40: ENUMS_EQUAL_TYPE(unsigned char, E_B, E_B); break;
    case 41: CHECK_C_TEXT(g_b == 2, "user text"); break;
    case 42: CHECK_EQUAL_C_BOOL(5, 1); break;
    case 43: CHECK_EQUAL_C_UINT(7u, 7u); break;
    case 44: CHECK_EQUAL_C_LONG(LONG_MAX, LONG_MAX); break;
    case 45: CHECK_EQUAL_C_ULONG(ULONG_MAX, ULONG_MAX); break;
    case 46: CHECK_EQUAL_C_LONGLONG(-9LL, -9LL); break;
    case 47: CHECK_EQUAL_C_ULONGLONG(9ULL, 9ULL); break;
    case 48: CHECK_EQUAL_C_REAL(1.0, 1.0, 0.0); break;
    case 49: CHECK_EQUAL_C_CHAR('a', 'a'); break;
    case 50: CHECK_EQUAL_C_UBYTE(200, 200); break;
    case 51: CHECK_EQUAL_C_SBYTE(-3, -3); break;
    case 52: CHECK_EQUAL_C_STRING((const char*) NULLPTR, (const char*) NULLPTR); break;
    case 53: CHECK_EQUAL_C_POINTER(NULLPTR, NULLPTR); break;
    case 54: CHECK_EQUAL_C_BITS(0xFFu, 0x00u, 0x00u); break;
    default: CHECK_EQUAL_C_MEMCMP(NULLPTR, NULLPTR, 4); break;
    }
}
static_assert(sizeof PASSFORM / sizeof PASSFORM[0] == 56, "PASSFORM describes the variants of do_pass");

static void __attribute__((noinline)) exec_core(const Stmt& s, int rep) {
    const char* f = s.file.c_str(); size_t l = (size_t) s.line; const char* text = s.text.c_str();
    bool act = s.active(rep);
    switch (s.kind) {
    case K_MARK: break;
    case K_PASS: do_pass(s.variant, f, l); break;
    case K_FAILCPP: do_cpp(s.variant, act, text, f, l); break;
    case K_FAILC: do_c(s.variant, act, text, f, l); break;
    case K_PRINT: UT_PRINT_LOCATION(text, f, l); break;
    case K_EXIT: if (act) TEST_EXIT; break;
#ifndef VF_NOEXC
    case K_THROWSTD:
        if (act) switch (s.variant) {
            case 0: throw std::runtime_error(text);
            case 1: throw std::out_of_range(text);
            case 2: throw MyStdEx(text);
            default: throw std::bad_alloc();
        }
        break;
    case K_THROWINT:
        if (act) switch (s.variant) {
            case 0: throw 42;
            case 1: throw "a c string";
            case 2: throw ForeignEx{ 7 };
            default: throw 2.5;
        }
        break;
#endif
    default: break;
    }
}
static void __attribute__((noinline)) exec_deep(const Stmt& s, int rep, int levels) {
    volatile char pad[48]; pad[0] = (char) levels;
    if (levels > 0) exec_deep(s, rep, levels - 1); else exec_core(s, rep);
    pad[1] = pad[0];
}

static void crash_hook_that_returns() {     // a debugger trap / stack-trace logger that continues
    Obs* o = g_obs;
    o->crash_calls++;
    if (G.cur_phase >= 0 && G.cur_phase < 3) o->crash_calls_in_phase[G.cur_phase]++; else o->crash_calls_outside_phase++;
}

static TestResult* current_result();
static void run_phase(int idx, int ph) {
    TestResult* res = current_result();      // the result the checks of this phase count into (read before every statement)
    rec(EV_ENTER, (uint8_t) ph, idx, res->getCheckCount());
    G.cur_phase = ph;
    Obs* o = g_obs;
    int d = CppUTestVerif_JumpBufferDepth();
    if (d >= 0 && d < 16) o->depth_hist[d]++;
    G.entry_depth[ph] = d;
    if (idx >= 0 && idx < (int) G.ntests) {
        if (d != G.depth_pre[idx] + 1) o->phase_depth_unexpected++;
        if (UtestShell::getCurrent() != G.shells[idx]) o->cur_bad_in_phase++;
        const TestSpec& t = G.p->tests[(size_t) idx];
        int rep = G.create_count[idx] - 1;
        if (rep < 0 || rep >= MAXREP) { o->count_overflow++; rep = 0; }
        const std::vector<Stmt>& v = t.ph[ph];
        for (size_t k = 0; k < v.size(); k++) {          // no object with a destructor is alive across a statement
            const Stmt& s = v[k];
            rec(EV_STMT, (uint8_t) ph, s.id, res->getCheckCount());
            if (s.deep) exec_deep(s, rep, s.deep); else exec_core(s, rep);
        }
    }
}

class ScriptTest : public Utest {
public:
    int idx;
    explicit ScriptTest(int i) : idx(i) {}
    void setup() CPPUTEST_OVERRIDE { run_phase(idx, 0); }
    void testBody() CPPUTEST_OVERRIDE { run_phase(idx, 1); }
    void teardown() CPPUTEST_OVERRIDE { run_phase(idx, 2); }
};
class ScriptShell : public UtestShell {
public:
    int idx;
    ScriptShell(int i, const TestSpec& t) : UtestShell(t.group.c_str(), t.name.c_str(), t.file.c_str(), (size_t) t.line), idx(i) {}
    Utest* createTest() CPPUTEST_OVERRIDE { if (G.create_count[idx] < 1000) G.create_count[idx]++; return new ScriptTest(idx); }
    TestResult* peekResult() { return getTestResult(); }
};
class IgnoredScriptShell : public IgnoredUtestShell {
public:
    int idx;
    IgnoredScriptShell(int i, const TestSpec& t) : IgnoredUtestShell(t.group.c_str(), t.name.c_str(), t.file.c_str(), (size_t) t.line), idx(i) {}
    Utest* createTest() CPPUTEST_OVERRIDE { if (G.create_count[idx] < 1000) G.create_count[idx]++; return new ScriptTest(idx); }
};
static ScriptShell* g_peek;   // any shell object gives access to the protected current-result accessor
static TestResult* current_result() { return g_peek->peekResult(); }

static int shell_index(UtestShell& t) {
    for (size_t i = 0; i < G.ntests; i++) if (G.shells[i] == &t) return (int) i;
    return -1;
}

class RecPlugin : public TestPlugin {
public:
    explicit RecPlugin(const SimpleString& n) : TestPlugin(n) {}
    void preTestAction(UtestShell& t, TestResult& r) CPPUTEST_OVERRIDE {
        Obs* o = g_obs; int idx = shell_index(t);
        if (idx < 0) { o->unknown_shell++; return; }
        int rep = G.pre_count[idx]++;
        rec(EV_PRE, 0, idx, r.getCheckCount());
        G.depth_pre[idx] = CppUTestVerif_JumpBufferDepth();
        G.entry_depth[0] = G.entry_depth[1] = G.entry_depth[2] = -1;
        G.cur_phase = -1;
        if (UtestShell::getCurrent() != G.base_cur) o->cur_bad_pre++;
        if (g_peek->peekResult() != G.base_res) o->res_bad_pre++;
        const TestSpec& ts = G.p->tests[(size_t) idx];
        if (ts.plug_pre && rep < MAXREP && ts.pre.active(rep))
            r.addFailure(TestFailure(&t, ts.pre.file.c_str(), (size_t) ts.pre.line, SimpleString(ts.pre.text.c_str())));
    }
    void postTestAction(UtestShell& t, TestResult& r) CPPUTEST_OVERRIDE {
        Obs* o = g_obs; int idx = shell_index(t);
        if (idx < 0) { o->unknown_shell++; return; }
        int rep = G.post_count[idx]++;
        rec(EV_POST, 0, idx, r.getCheckCount());
        G.cur_phase = -1;
        int d = CppUTestVerif_JumpBufferDepth();
        o->depth_checks++;
        if (d != G.depth_pre[idx]) { if (!o->depth_drifts++) { o->drift_test = idx; o->drift_rep = rep; o->drift_pre = G.depth_pre[idx]; o->drift_post = d; for (int k = 0; k < 3; k++) o->drift_entry[k] = G.entry_depth[k]; } }
        if (UtestShell::getCurrent() != G.base_cur) o->cur_bad_post++;
        if (g_peek->peekResult() != G.base_res) o->res_bad_post++;
        if (rep < MAXREP) o->hasfailed[idx][rep] = t.hasFailed() ? 1 : 0; else o->count_overflow++;
        const TestSpec& ts = G.p->tests[(size_t) idx];
        if (ts.plug_post && rep < MAXREP && ts.post.active(rep))
            r.addFailure(TestFailure(&t, ts.post.file.c_str(), (size_t) ts.post.line, SimpleString(ts.post.text.c_str())));
    }
};

class CaptureOutput : public TestOutput {   // same printing code as every TestOutput, storage without the quadratic SimpleString append
public:
    void printBuffer(const char* s) CPPUTEST_OVERRIDE { out_append(s); }
    void flush() CPPUTEST_OVERRIDE {}
};

static void seam_fputs(const char* s, PlatformSpecificFile) { out_append(s); }
static void seam_flush() {}

// the registry run, usable directly, inside an outer test, or inside a forked child
struct Keep {   // objects that must outlive the run
    std::vector<UtestShell*> shells;
    std::vector<const char*> av;
};

static void configure_output(TestOutput& o, const Program& p) {
    if (p.verbose == 1) o.verbose(TestOutput::level_verbose);
    if (p.verbose == 2) o.verbose(TestOutput::level_veryVerbose);
    if (p.color) o.color();
}

static void run_inner() {
    const Program& p = *G.p; Obs* o = g_obs;
    G.base_cur = UtestShell::getCurrent();
    G.base_res = g_peek->peekResult();
    o->depth_before_run = CppUTestVerif_JumpBufferDepth();
    o->depth_capacity = CppUTestVerif_JumpBufferCapacity();
    TestRegistry reg;
    RecPlugin plug("RecPlugin");
    // a bystander plugin without any action of its own: 1 = disabled and ahead of the recording plugin in the chain,
    // 2 = enabled and ahead, 3 = disabled and behind. It must never change what is recorded.
    TestPlugin bystander("Bystander");
    if (p.bystander == 3) { reg.installPlugin(&bystander); bystander.disable(); }
    reg.installPlugin(&plug);
    if (p.bystander == 1) { reg.installPlugin(&bystander); bystander.disable(); }
    if (p.bystander == 2) reg.installPlugin(&bystander);
    for (size_t i = p.tests.size(); i-- > 0;) reg.addTest(G.shells[i]);     // addTest prepends
    if (p.crash || p.hist_len) UtestShell::setCrashMethod(crash_hook_that_returns);   // never the default (abort) while a crashing terminator may be installed (in a history an earlier invocation may have installed it)
    if (p.crash == 1) UtestShell::setCrashOnFail();                          // (2: the runner does it when it sees -f)
    if (p.mode == 0) {
        TestFilter gfilt(p.gfs.c_str()), nfilt(p.nfs.c_str());
        if (p.gf == F_STRICT || p.gf == F_XSTRICT) gfilt.strictMatching();
        if (p.gf == F_XCONTAINS || p.gf == F_XSTRICT) gfilt.invertMatching();
        if (p.nf == F_STRICT || p.nf == F_XSTRICT) nfilt.strictMatching();
        if (p.nf == F_XCONTAINS || p.nf == F_XSTRICT) nfilt.invertMatching();
        if (p.gf != F_NONE) reg.setGroupFilters(&gfilt);
        if (p.nf != F_NONE) reg.setNameFilters(&nfilt);
        if (p.run_ignored) reg.setRunIgnored();
        if (p.reverse) reg.reverseTests();
        StringBufferTestOutput sbo; CaptureOutput cap;
        TestOutput& out = p.string_buffer_output ? (TestOutput&) sbo : (TestOutput&) cap;
        configure_output(out, p);
        for (int rep = 0; rep < p.reps; rep++) {
            TestResult tr(out);
            reg.runAllTests(tr);
            RepCounters& rc = o->rc_[rep];
            rc.tests = (long) tr.getTestCount(); rc.ran = (long) tr.getRunCount(); rc.checks = (long) tr.getCheckCount(); rc.ignored = (long) tr.getIgnoredCount();
            rc.filtered = (long) tr.getFilteredOutCount(); rc.failures = (long) tr.getFailureCount(); rc.is_failure = tr.isFailure() ? 1 : 0; rc.valid = 1;
        }
        if (p.string_buffer_output) out_append(sbo.getOutput().asCharString());
    } else {
        std::vector<const char*> av;
        for (const std::string& a : p.argv) av.push_back(a.c_str());
        void (*old_fputs)(const char*, PlatformSpecificFile) = PlatformSpecificFPuts;
        void (*old_flush)() = PlatformSpecificFlush;
        PlatformSpecificFPuts = seam_fputs; PlatformSpecificFlush = seam_flush;
        if (p.mode == 1) {
#ifndef VF_NOEXC
            // no generated program lets an exception out of the runner (every program that throws passes -e / -ci); if one comes out anyway
            // it is recorded and the case is judged on what was observed up to then (trace, output, no return value)
            try {
#endif
                CommandLineTestRunner runner((int) av.size(), av.data(), &reg);
                o->rc = runner.runAllTestsMain();
                o->have_rc = 1;
#ifndef VF_NOEXC
            }
            catch (const std::exception&) { o->escaped = 1; }
            catch (...) { o->escaped = 2; }
#endif
        } else {
            reg.setCurrentRegistry(&reg);
            o->rc = RUN_ALL_TESTS((int) av.size(), av.data());
            o->have_rc = 1;
        }
        PlatformSpecificFPuts = old_fputs; PlatformSpecificFlush = old_flush;
    }
    // the outer test (nested runs) continues in the default configuration; inside a history of invocations the static configuration
    // stays as the runner left it (it is restored after the last invocation, see run_program_here)
    if (p.crash && !p.hist_len) { UtestShell::restoreDefaultTestTerminator(); UtestShell::resetCrashMethod(); }
    o->depth_after_run = CppUTestVerif_JumpBufferDepth();
    o->cur_after_ok = UtestShell::getCurrent() == G.base_cur;
    o->res_after_ok = g_peek->peekResult() == G.base_res;
}

// Nested runs: a test may itself run tests (the documented way to test test code). `nested` outer tests are stacked around the program,
// each one a complete test (setup, body, teardown, own registry / result / output / plugin) whose body runs the next level and then
// completes or fails a check of its own. Every level is judged: lifecycle, failure recorded and printed once, jump-buffer depth restored.
static const char* const OUTER_FILE = "outer_file.cpp";
static int outer_check_line(int level) { return 100 + level; }
static void run_level(int level);
class OuterTest : public Utest {
public:
    int level;
    explicit OuterTest(int l) : level(l) {}
    void setup() CPPUTEST_OVERRIDE { g_obs->outer_setup[level]++; }
    void testBody() CPPUTEST_OVERRIDE {
        Obs* o = g_obs;
        o->outer_body[level]++;
        o->outer_depth_body[level] = CppUTestVerif_JumpBufferDepth();
        run_level(level + 1);
        o->outer_after_run[level]++;
        if (CppUTestVerif_JumpBufferDepth() != o->outer_depth_body[level]) o->outer_depth_body[level] = -1000;    // judged: the nested run left the depth changed
        int fk = G.p->outer_fail[level];
        if (fk == 1) CHECK_TRUE_LOCATION(false, "CHECK", "cond", "outer check", OUTER_FILE, (size_t) outer_check_line(level));
        if (fk == 2) CHECK_C_LOCATION(0, "cond", "outer check", OUTER_FILE, (size_t) outer_check_line(level));
        o->outer_after_fail[level]++;
    }
    void teardown() CPPUTEST_OVERRIDE { g_obs->outer_teardown[level]++; }
};
class OuterShell : public UtestShell {
public:
    int level;
    explicit OuterShell(int l) : UtestShell("OuterGroup", "outer", OUTER_FILE, (size_t) (7 + l)), level(l) {}
    Utest* createTest() CPPUTEST_OVERRIDE { return new OuterTest(level); }
};
class OuterPlugin : public TestPlugin {
public:
    int level; UtestShell* cur_at_pre;
    explicit OuterPlugin(int l) : TestPlugin("OuterPlugin"), level(l), cur_at_pre(NULLPTR) {}
    void preTestAction(UtestShell&, TestResult&) CPPUTEST_OVERRIDE { g_obs->outer_pre[level]++; g_obs->outer_depth_pre[level] = CppUTestVerif_JumpBufferDepth(); cur_at_pre = UtestShell::getCurrent(); }
    void postTestAction(UtestShell& t, TestResult&) CPPUTEST_OVERRIDE {
        Obs* o = g_obs;
        o->outer_post[level]++; o->outer_depth_post[level] = CppUTestVerif_JumpBufferDepth();
        o->outer_hasfailed[level] = t.hasFailed() ? 1 : 0;
        if (UtestShell::getCurrent() != cur_at_pre) o->outer_cur_bad[level]++;
    }
};
static int count_occurrences(const char* hay, const std::string& needle) {
    int n = 0;
    for (const char* q = strstr(hay, needle.c_str()); q; q = strstr(q + 1, needle.c_str())) n++;
    return n;
}
static void run_level(int level) {
    if (level >= G.p->nested || level >= MAX_OUTER) { run_inner(); return; }
    Obs* o = g_obs;
    TestRegistry oreg;
    StringBufferTestOutput oout; TestResult ores(oout); OuterShell osh(level); OuterPlugin oplug(level);
    oreg.installPlugin(&oplug);
    oreg.addTest(&osh);
    oreg.runAllTests(ores);
    o->outer_failures[level] = (int) ores.getFailureCount(); o->outer_runs[level] = (int) ores.getRunCount(); o->outer_checks[level] = (int) ores.getCheckCount();
    const char* text = oout.getOutput().asCharString();
    o->outer_printed[level] = count_occurrences(text, std::string(OUTER_FILE) + ":" + std::to_string(outer_check_line(level)) + ": error:")
                            + count_occurrences(text, std::string(OUTER_FILE) + "(" + std::to_string(outer_check_line(level)) + "): error:");
}

static void reset_static_configuration() {
    UtestShell::setRethrowExceptions(false);
    UtestShell::restoreDefaultTestTerminator();
    UtestShell::resetCrashMethod();
}
static void run_program_here(const Program& p) {   // fills g_obs
    G = RunCtx();
    G.p = &p; G.ntests = p.tests.size();
    std::vector<std::unique_ptr<UtestShell>> own;
    for (size_t i = 0; i < p.tests.size(); i++) {
        UtestShell* s = p.tests[i].ignored ? (UtestShell*) new IgnoredScriptShell((int) i, p.tests[i]) : (UtestShell*) new ScriptShell((int) i, p.tests[i]);
        own.emplace_back(s); G.shells[i] = s;
    }
    if (p.vsformat) TestOutput::setWorkingEnvironment(TestOutput::visualStudio);
    g_obs->outer_used = std::min(p.nested, MAX_OUTER);
#ifndef VF_NOEXC
    try { run_level(0); } catch (...) { if (!g_obs->escaped) g_obs->escaped = 3; }
#else
    run_level(0);
#endif
    TestOutput::setWorkingEnvironment(TestOutput::detectEnvironment);
    if (!p.hist_len || p.hist_pos + 1 >= p.hist_len) reset_static_configuration();
    g_obs->finished = 1;
}

// ================================================================= output parsing
struct FailRec { std::string loc, testloc, testname; std::vector<std::string> msg; bool twoline = false; };
struct RepOut { std::vector<FailRec> fails; int stray = 0; bool summary = false, ok_word = false, ran_nothing = false, has_failcount = false; long failures = 0, tests = 0, ran = 0, checks = 0, ignored = 0, filtered = 0; std::string line; };

static std::string strip_ansi(const std::string& s) {
    std::string o; o.reserve(s.size());
    for (size_t i = 0; i < s.size(); i++) {
        if (s[i] == '\033' && i + 1 < s.size() && s[i + 1] == '[') { size_t j = i + 2; while (j < s.size() && s[j] != 'm') j++; i = j; continue; }
        o += s[i];
    }
    return o;
}
static bool all_digits(const std::string& s) { if (s.empty()) return false; for (char ch : s) if (ch < '0' || ch > '9') return false; return true; }
static bool parse_errline(const std::string& line, std::string& loc, std::string& rest) {
    size_t p = line.find(": error:");
    if (p == std::string::npos) return false;
    std::string prefix = line.substr(0, p); rest = line.substr(p + 8);
    std::string file, num;
    if (!prefix.empty() && prefix.back() == ')') {
        size_t q = prefix.rfind('('); if (q == std::string::npos) return false;
        file = prefix.substr(0, q); num = prefix.substr(q + 1, prefix.size() - q - 2);
    } else {
        size_t q = prefix.rfind(':'); if (q == std::string::npos) return false;
        file = prefix.substr(0, q); num = prefix.substr(q + 1);
    }
    if (!all_digits(num)) return false;
    loc = file + ":" + num;
    return true;
}
static std::vector<RepOut> parse_output(const std::string& raw) {
    std::string s = strip_ansi(raw);
    std::vector<std::string> lines; size_t st = 0;
    while (st <= s.size()) { size_t e = s.find('\n', st); if (e == std::string::npos) { lines.push_back(s.substr(st)); break; } lines.push_back(s.substr(st, e - st)); st = e + 1; }
    std::vector<RepOut> reps; RepOut cur;
    for (size_t i = 0; i < lines.size(); i++) {
        const std::string& ln = lines[i];
        std::string loc, rest;
        if (parse_errline(ln, loc, rest)) {
            if (rest.compare(0, 12, " Failure in ") == 0) {
                FailRec fr; fr.testname = rest.substr(12);
                std::string loc2, rest2;
                if (i + 1 < lines.size() && parse_errline(lines[i + 1], loc2, rest2) && rest2.empty()) { fr.testloc = loc; fr.loc = loc2; fr.twoline = true; i++; }
                else fr.loc = loc;
                while (i + 1 < lines.size() && !lines[i + 1].empty() && lines[i + 1][0] == '\t') fr.msg.push_back(lines[++i]);
                cur.fails.push_back(fr);
            } else cur.stray++;
            continue;
        }
        bool okw = ln.compare(0, 4, "OK (") == 0, erw = ln.compare(0, 8, "Errors (") == 0;
        if (okw || erw) {
            long ms = 0; int n = 0;
            cur.line = ln; cur.ok_word = okw;
            if (okw) n = sscanf(ln.c_str(), "OK (%ld tests, %ld ran, %ld checks, %ld ignored, %ld filtered out, %ld ms)", &cur.tests, &cur.ran, &cur.checks, &cur.ignored, &cur.filtered, &ms);
            else if (ln.compare(0, 21, "Errors (ran nothing, ") == 0) { cur.ran_nothing = true; n = sscanf(ln.c_str(), "Errors (ran nothing, %ld tests, %ld ran, %ld checks, %ld ignored, %ld filtered out, %ld ms)", &cur.tests, &cur.ran, &cur.checks, &cur.ignored, &cur.filtered, &ms); }
            else { cur.has_failcount = true; n = sscanf(ln.c_str(), "Errors (%ld failures, %ld tests, %ld ran, %ld checks, %ld ignored, %ld filtered out, %ld ms)", &cur.failures, &cur.tests, &cur.ran, &cur.checks, &cur.ignored, &cur.filtered, &ms); if (n == 7) n = 6; else n = -1; }
            if (n == 6) { cur.summary = true; reps.push_back(cur); cur = RepOut(); }
            else cur.stray++;
        }
    }
    if (!cur.fails.empty() || cur.stray) reps.push_back(cur);   // trailing material without a summary
    return reps;
}

// ================================================================= judging
static std::string triple_name(const MRep& R, int ti) {
    return std::string("setup=") + ONAME[R.outcome[ti][0]] + "/body=" + ONAME[R.outcome[ti][1]] + "/teardown=" + ONAME[R.outcome[ti][2]];
}

struct StmtRef { int test, ph, pos; const Stmt* s; };

static std::string ev_str(const Program& p, const std::vector<StmtRef>& by_id, const Ev& e) {
    if (e.kind == EV_END) return "end-of-run";
    if (e.kind == EV_STMT) {
        if (e.a < 0 || e.a >= (int) by_id.size()) return "stmt#" + std::to_string(e.a) + "(unknown)";
        const StmtRef& r = by_id[(size_t) e.a];
        return std::string("stmt#") + std::to_string(e.a) + "(" + KNAME[r.s->kind] + " in " + PHNAME[r.ph] + " of test " + std::to_string(r.test) + ")";
    }
    std::string t = e.a >= 0 && e.a < (int) p.tests.size() ? p.tests[(size_t) e.a].group + "." + p.tests[(size_t) e.a].name : "?";
    if (e.kind == EV_ENTER) return std::string("enter-") + PHNAME[e.ph % 3] + " of test " + std::to_string(e.a) + " " + t;
    return std::string(EVNAME[e.kind]) + " of test " + std::to_string(e.a) + " " + t;
}
static std::string ev_kind(const Ev& e) {
    if (e.kind == EV_ENTER) return std::string("enter-") + PHNAME[e.ph % 3];
    return EVNAME[e.kind <= EV_END ? e.kind : 0];
}

static const char* mode_name(int m) { return m == 0 ? "registry" : m == 1 ? "runner" : "process"; }

static void judge(vf::Ctx& c, const Program& p, const Model& m, const Obs& o) {
    std::vector<StmtRef> by_id((size_t) p.nstmts);
    for (size_t ti = 0; ti < p.tests.size(); ti++)
        for (int ph = 0; ph < 3; ph++)
            for (size_t k = 0; k < p.tests[ti].ph[ph].size(); k++) { const Stmt& s = p.tests[ti].ph[ph][k]; by_id[(size_t) s.id] = StmtRef{ (int) ti, ph, (int) k, &s }; }

    // the configuration / history shape is part of the failing class: tests at the deepest legal nesting level, an invocation of the runner
    // that is not the first one in its process
    const int cap = CppUTestVerif_JumpBufferCapacity();
    const bool deepest = p.nested > 0 && 2 * (p.nested + 1) >= cap;
    std::string shape_suffix;
    if (deepest) shape_suffix += ":at-deepest-nesting-level";
    if (p.hist_pos > 0) shape_suffix += p.flag_e && p.hist_prev_without_e ? ":invocation-with-e-after-invocation-without-e" : ":later-invocation-in-process";
    std::string shape_note;
    if (p.nested) shape_note += "[tests run at nesting level " + std::to_string(p.nested + 1) + " of " + std::to_string(cap / 2) + " that the jump-buffer stack allows] ";
    if (p.hist_len) shape_note += "[invocation " + std::to_string(p.hist_pos + 1) + " of " + std::to_string(p.hist_len) + " in this process] ";

    if (o.ev_overflow || o.out_overflow) { c.violation("harness:capture-overflow", "trace or output capture buffer too small (harness limit, not a property violation)"); return; }
    if (o.unknown_shell) c.violation("plugin:action-for-unknown-test", "plugin action called with a shell that is not part of the program: " + std::to_string(o.unknown_shell));

    // ---- 1. execution trace
    bool trace_ok = false;
    {
        size_t n = std::min((size_t) o.nev, m.trace.size() - 1), i = 0;
        while (i < n && o.ev[i] == m.trace[i]) i++;
        bool obs_end = i >= o.nev, exp_end = i >= m.trace.size() - 1;
        trace_ok = obs_end && exp_end;
        if (!(obs_end && exp_end)) {
            Ev got = obs_end ? Ev{ EV_END, 0, 0, 0 } : o.ev[i];
            Ev exp = exp_end ? Ev{ EV_END, 0, 0, 0 } : m.trace[i];
            std::string key;
            const Ev* prev = i > 0 ? &o.ev[i - 1] : nullptr;
            const StmtRef* pr = prev && prev->kind == EV_STMT && prev->a >= 0 && prev->a < (int) by_id.size() ? &by_id[(size_t) prev->a] : nullptr;
            const StmtRef* gr = got.kind == EV_STMT && got.a >= 0 && got.a < (int) by_id.size() ? &by_id[(size_t) got.a] : nullptr;
            if (gr && pr && pr->s->terminating_kind() && pr->test == gr->test && pr->ph == gr->ph && gr->pos == pr->pos + 1)
                key = std::string("trace:statement-executed-after:") + KNAME[pr->s->kind] + ":" + PHNAME[pr->ph];
            else if (got.kind == EV_ENTER && got.ph == 1 && pr && pr->s->terminating_kind() && pr->test == got.a && pr->ph == 0)
                key = std::string("trace:body-run-after-setup-ended-by:") + KNAME[pr->s->kind];
            else if (exp.kind == EV_ENTER && exp.ph == 2 && !(got.kind == EV_ENTER && got.ph == 1))
                key = std::string("trace:teardown-skipped:after-") + (pr && pr->s->terminating_kind() ? std::string(KNAME[pr->s->kind]) + "-in-" + PHNAME[pr->ph] : std::string("normal-phase-end"));
            else key = "trace:mismatch:expected=" + ev_kind(exp) + ":observed=" + ev_kind(got);
            if (p.crash) key += ":crash-on-fail";     // the configuration is part of the failing class (terminator in use: the crashing one, crash method returns)
            key += shape_suffix;
            c.violation(key, shape_note + std::string(p.crash ? (p.crash == 1 ? "[crash-on-fail set with setCrashOnFail(), crash method returns] " : "[crash-on-fail set with -f, crash method returns] ") : "") + "event " + std::to_string(i) + ": expected " + ev_str(p, by_id, exp) + ", observed " + ev_str(p, by_id, got) + (prev ? "; previous event " + ev_str(p, by_id, *prev) : ""));
        }
        c.count("trace_events_compared", i);
    }

    // ---- 1b. what every single statement added to the check counter of the result in use: the counter is read when an event is
    // recorded, so the difference to the next event of the same test is the contribution of that statement (also of one that left its
    // phase: the next event is then the entry of the next phase or the post action). The property speaks of the counts of the summary,
    // so a deviation is NOT judged here; it names the culprit when the count of a repetition turns out wrong (sections 2 and 3).
    struct Miscount { std::string label, macro; long got, want; long times; int test; };
    std::vector<std::vector<Miscount>> miscounts((size_t) p.reps);
    if (trace_ok) {
        std::vector<int> pre_seen(p.tests.size(), 0);
        uint64_t compared = 0, unexpected = 0;
        for (uint32_t i = 0; i + 1 < o.nev; i++) {
            const Ev& a = o.ev[i]; const Ev& b = o.ev[i + 1];
            if (a.kind == EV_PRE && a.a >= 0 && a.a < (int) pre_seen.size()) pre_seen[(size_t) a.a]++;
            if (a.kind == EV_POST || b.kind == EV_PRE) continue;                    // between two tests
            long got = (long) o.evchk[i + 1] - (long) o.evchk[i], want = 0;
            int test = a.a; std::string label = "no-statement:" + ev_kind(a), macro = "-";
            bool failing_path = false; const Stmt* st = nullptr;
            if (a.kind == EV_STMT) {
                if (a.a < 0 || a.a >= (int) by_id.size()) continue;
                st = by_id[(size_t) a.a].s; test = by_id[(size_t) a.a].test;
            }
            int rep = test >= 0 && test < (int) pre_seen.size() ? pre_seen[(size_t) test] - 1 : -1;
            if (rep < 0 || rep >= p.reps) continue;
            if (st) {
                failing_path = st->kind != K_PASS && st->active(rep);
                want = form_of(*st) ? 1 : 0;
                label = form_label(*st, failing_path);
                macro = std::string(KNAME[st->kind]) + (form_of(*st) ? std::string(" ") + form_of(*st)->macro : std::string());
            }
            compared++;
            if (got == want) continue;
            unexpected++;
            std::vector<Miscount>& v = miscounts[(size_t) rep];
            bool found = false;
            for (Miscount& x : v) if (x.label == label && x.got == got) { x.times++; found = true; break; }
            if (!found && v.size() < 12) v.push_back(Miscount{ label, macro, got, want, 1, test });
        }
        c.count("statement_check_count_deltas_compared", compared);
        if (unexpected) c.count("statement_check_count_deltas_unexpected", unexpected);
    }
    std::vector<int> checks_wrong((size_t) p.reps, 0);

    // ---- 2. printed output: failures and summary, per repetition
    std::vector<RepOut> ro = parse_output(std::string(o.out, o.outlen));
    size_t nsum = 0; for (const RepOut& r : ro) if (r.summary) nsum++;
    if (o.escaped) {
        // an exception came out of runAllTestsMain. With -e / -ci ("do not rethrow unexpected exceptions") that is never the documented
        // behaviour; it is reported under its own key only together with what the property states (trace / summaries / return value)
        if (p.flag_e && (!trace_ok || nsum != (size_t) p.reps))
            c.violation("runner:exception-escaped-although-told-not-to-rethrow" + shape_suffix, shape_note + "an exception (" + (o.escaped == 1 ? "std::exception" : "foreign") + ") left CommandLineTestRunner::runAllTestsMain although " + (p.hist_prev_without_e ? "this invocation was given -e/-ci (an earlier invocation in the same process was not)" : "the invocation was given -e/-ci") + "; no value was returned");
        c.count("runner_invocations_left_by_an_exception");
    }
    if (nsum != (size_t) p.reps) c.violation("summary:count", shape_note + "expected " + std::to_string(p.reps) + " summary lines, found " + std::to_string(nsum));
    for (size_t rep = 0; rep < ro.size(); rep++) {
        const RepOut& r = ro[rep];
        if (r.stray) c.violation("output:stray-error-line", std::to_string(r.stray) + " line(s) with ': error:' or a summary word that do not parse, repetition " + std::to_string(rep));
        if (rep >= m.reps.size()) { if (!r.fails.empty()) c.violation("failure-printed-outside-any-repetition", "first at " + r.fails[0].loc); continue; }
        const MRep& R = m.reps[rep];
        c.count("failure_records_parsed", r.fails.size());
        // expected / observed counts per location
        std::map<std::string, std::vector<const MFail*>> exp; std::map<std::string, std::vector<const FailRec*>> obs;
        for (const MFail& f : R.fails) exp[f.loc].push_back(&f);
        for (const FailRec& f : r.fails) obs[f.loc].push_back(&f);
        for (auto& kv : exp) {
            size_t E = kv.second.size(), O = obs.count(kv.first) ? obs[kv.first].size() : 0;
            const MFail& f = *kv.second[0];
            std::string where = std::string(KNAME[f.kind]) + (f.kind == K_PLUGIN ? "" : "");
            if (O < E) c.violation(std::string(O == 0 ? "failure-not-printed:" : "failure-printed-too-few-times:") + where, "location " + kv.first + " (test " + p.tests[(size_t) f.test].formatted() + "): expected " + std::to_string(E) + " printed failure(s), found " + std::to_string(O) + ", repetition " + std::to_string(rep));
            else if (O > E) c.violation("failure-printed-more-than-once:" + where, "location " + kv.first + ": expected " + std::to_string(E) + " printed failure(s), found " + std::to_string(O) + ", repetition " + std::to_string(rep));
            if (O) {
                const std::string want = p.tests[(size_t) f.test].formatted(), wantloc = p.tests[(size_t) f.test].loc();
                for (const FailRec* fr : obs[kv.first]) {
                    if (fr->testname != want) c.violation("failure-attributed-to-wrong-test:" + where, "failure at " + kv.first + " printed as '" + fr->testname + "', it happened in '" + want + "'");
                    if (fr->twoline && fr->testloc != wantloc) c.violation("failure-wrong-test-location:" + where, "failure at " + kv.first + " printed with test location " + fr->testloc + ", the test is at " + wantloc);
                }
                if (f.exc) {   // escaped exceptions: the test's own location and an "Unexpected exception" message
                    size_t with_text = 0; std::map<std::string, int> tok;
                    for (const FailRec* fr : obs[kv.first]) { std::string all; for (const std::string& l : fr->msg) all += l + "\n"; if (all.find("Unexpected exception") != std::string::npos) with_text++;
                        for (const MFail* e : kv.second) if (e->stdexc && e->variant < 3 && all.find(e->token) != std::string::npos) tok[e->token]++; }
                    if (with_text < std::min(E, O)) c.violation("exception-failure-without-unexpected-exception-text", "location " + kv.first + ": " + std::to_string(with_text) + " of " + std::to_string(std::min(E, O)) + " records mention 'Unexpected exception'");
                    if (O == E) for (const MFail* e : kv.second) if (e->stdexc && e->variant < 3 && tok[e->token] != 1) c.violation("exception-what-text-not-printed-once", "what() text " + e->token + " printed " + std::to_string(tok[e->token]) + " times at " + kv.first);
                }
            }
        }
        for (auto& kv : obs) if (!exp.count(kv.first)) {
            // a location where nothing failed in this repetition: say what lives there
            std::string what = "unknown-location";
            for (size_t ti = 0; ti < p.tests.size() && what == "unknown-location"; ti++) {
                const TestSpec& t = p.tests[ti];
                if (t.loc() == kv.first) what = "test-location";
                if (t.plug_pre && t.pre.file + ":" + std::to_string(t.pre.line) == kv.first) what = "plugin-location";
                if (t.plug_post && t.post.file + ":" + std::to_string(t.post.line) == kv.first) what = "plugin-location";
                for (int ph = 0; ph < 3; ph++) for (const Stmt& s : t.ph[ph]) if (s.file + ":" + std::to_string(s.line) == kv.first) what = std::string("statement-") + KNAME[s.kind];
            }
            std::string msg; for (const std::string& l : kv.second[0]->msg) msg += l + " ";
            c.violation("failure-printed-where-none-happened:" + what, "location " + kv.first + " '" + kv.second[0]->testname + "' x" + std::to_string(kv.second.size()) + " in repetition " + std::to_string(rep) + ": " + msg.substr(0, 300));
        }
        if (!r.summary) continue;
        c.count("summaries_parsed");
        struct { const char* n; long got, want; } cmp[] = { { "tests", r.tests, R.tests }, { "ran", r.ran, R.ran }, { "checks", r.checks, R.checks }, { "ignored", r.ignored, R.ignored }, { "filtered-out", r.filtered, R.filtered } };
        if (r.checks != R.checks) checks_wrong[rep] |= 1;
        for (auto& x : cmp) if (x.got != x.want) c.violation(std::string("summary:wrong-count:") + x.n, std::string("summary '") + r.line + "' says " + std::to_string(x.got) + " " + x.n + ", the repetition had " + std::to_string(x.want) + " (repetition " + std::to_string(rep) + ")");
        if (r.has_failcount && r.failures != R.failures) c.violation("summary:wrong-count:failures", "summary '" + r.line + "' says " + std::to_string(r.failures) + " failures, the repetition had " + std::to_string(R.failures));
        if (r.ok_word && !R.ok) c.violation(R.failures ? "summary:verdict:ok-with-failures" : "summary:verdict:ok-when-nothing-ran-or-ignored", "summary '" + r.line + "' but the repetition had " + std::to_string(R.failures) + " failures, " + std::to_string(R.ran) + " ran, " + std::to_string(R.ignored) + " ignored");
        if (!r.ok_word && R.ok) c.violation("summary:verdict:errors-on-clean-repetition", "summary '" + r.line + "' but the repetition had no failure and ran/ignored " + std::to_string(R.ran + R.ignored) + " tests");
        if (!r.ok_word && !R.ok && r.ran_nothing && R.failures > 0) c.violation("summary:wrong-count:failures", "summary '" + r.line + "' omits the failure count, the repetition had " + std::to_string(R.failures));
    }

    // ---- 3. TestResult counters (mode a)
    for (int rep = 0; rep < p.reps && rep < MAXREP; rep++) {
        const RepCounters& rc = o.rc_[rep]; if (!rc.valid) continue;
        const MRep& R = m.reps[(size_t) rep];
        struct { const char* n; long got, want; } cmp[] = { { "tests", rc.tests, R.tests }, { "ran", rc.ran, R.ran }, { "checks", rc.checks, R.checks }, { "ignored", rc.ignored, R.ignored }, { "filtered-out", rc.filtered, R.filtered }, { "failures", rc.failures, R.failures } };
        if (rc.checks != R.checks) checks_wrong[(size_t) rep] |= 2;
        for (auto& x : cmp) if (x.got != x.want) c.violation(std::string("result-counter:") + x.n, std::string("TestResult says ") + std::to_string(x.got) + " " + x.n + ", the repetition had " + std::to_string(x.want) + " (repetition " + std::to_string(rep) + ")");
        if ((rc.is_failure != 0) != !R.ok) c.violation(R.ok ? "isfailure:true-on-clean-repetition" : R.failures ? "isfailure:false-with-failures" : "isfailure:false-when-nothing-ran-or-ignored", "isFailure()=" + std::to_string(rc.is_failure) + " with " + std::to_string(R.failures) + " failures, " + std::to_string(R.ran) + " ran, " + std::to_string(R.ignored) + " ignored");
        c.count("result_counter_sets_compared");
    }

    // ---- 3b. a repetition whose check count is wrong: which statements were not counted once
    for (int rep = 0; rep < p.reps; rep++) {
        if (!checks_wrong[(size_t) rep]) continue;
        c.count("repetitions_with_wrong_check_count");
        for (const Miscount& x : miscounts[(size_t) rep])
            c.violation("checks:miscounted:" + x.label + ":counted-" + std::to_string(x.got) + "-instead-of-" + std::to_string(x.want),
                        std::string(checks_wrong[(size_t) rep] & 1 ? "summary" : "TestResult") + " of repetition " + std::to_string(rep) + " has a wrong number of checks; the check counter moved by " + std::to_string(x.got) + " instead of " + std::to_string(x.want) + " across this statement (" + x.macro + "), " + std::to_string(x.times) + " time(s), first in test " + std::to_string(x.test) + " " + (x.test >= 0 && x.test < (int) p.tests.size() ? p.tests[(size_t) x.test].formatted() : std::string("?")));
    }

    // ---- 4. value returned by the command line runner
    if (p.mode == 1 && !o.have_rc && !o.escaped) c.violation("harness:runner-did-not-return", "no return value and no escaped exception recorded");
    if (o.have_rc) {
        bool all_ok = true, last_ok = m.reps.back().ok, only_ran_nothing = true;
        for (const MRep& R : m.reps) if (!R.ok) { all_ok = false; if (R.failures) only_ran_nothing = false; }
        if (o.rc == 0 && !all_ok) c.violation(only_ran_nothing ? "return:zero-when-nothing-ran-or-ignored" : last_ok ? "return:zero-with-failures:last-repetition-clean" : "return:zero-with-failures", "runner returned 0 but at least one of " + std::to_string(p.reps) + " repetitions was not OK");
        if (o.rc != 0 && all_ok) c.violation("return:nonzero-on-clean-run", "runner returned " + std::to_string(o.rc) + " but every repetition was OK");
        c.count(o.rc == 0 ? "runner_returned_zero" : "runner_returned_nonzero");
    }

    // ---- 5. jump-buffer depth, current test / result, failed flag
    c.count("depth_checks_after_test", o.depth_checks);
    if (o.depth_drifts) {
        // which phase left the stack unbalanced: compare the depth seen at each later observation point of the same test
        std::string culprit = "unknown-phase"; int delta = o.drift_post - o.drift_pre;
        if (o.drift_rep >= 0 && o.drift_rep < (int) m.reps.size() && o.drift_test >= 0 && o.drift_test < (int) p.tests.size()) {
            const MRep& R = m.reps[(size_t) o.drift_rep];
            int ph_of[4], dv[4], n = 0;
            for (int ph = 0; ph < 3; ph++) if (o.drift_entry[ph] >= 0) { ph_of[n] = ph; dv[n] = o.drift_entry[ph] - (o.drift_pre + 1); n++; }
            ph_of[n] = 3; dv[n] = o.drift_post - o.drift_pre; n++;
            int prevd = 0, prevph = -1;
            for (int k = 0; k < n; k++) {
                if (dv[k] != prevd) {
                    delta = dv[k] - prevd;
                    culprit = prevph < 0 ? std::string("before-setup") : std::string(prevph == 2 ? "teardown" : "setup-or-body") + "-left-by-" + ONAME[R.outcome[(size_t) o.drift_test][prevph]];
                    break;
                }
                prevd = dv[k]; prevph = ph_of[k];
            }
        }
        std::string shape = o.drift_rep >= 0 && o.drift_rep < (int) m.reps.size() && o.drift_test >= 0 && o.drift_test < (int) p.tests.size() ? triple_name(m.reps[(size_t) o.drift_rep], o.drift_test) : "?";
        c.violation("jump-buffer-depth-not-restored-after-test:" + culprit + ":drift=" + (delta > 0 ? "+" : "") + std::to_string(delta) + (deepest ? ":at-deepest-nesting-level" : ""),
                    shape_note + "depth " + std::to_string(o.drift_pre) + " at the pre action, " + std::to_string(o.drift_post) + " at the post action of test " + std::to_string(o.drift_test) + " (repetition " + std::to_string(o.drift_rep) + ", " + shape + "; depth at phase entries " + std::to_string(o.drift_entry[0]) + "/" + std::to_string(o.drift_entry[1]) + "/" + std::to_string(o.drift_entry[2]) + "); " + std::to_string(o.depth_drifts) + " tests drifted; capacity " + std::to_string(o.depth_capacity));
    }
    if (o.depth_after_run != o.depth_before_run) c.violation("jump-buffer-depth-not-restored-after-run", "depth " + std::to_string(o.depth_before_run) + " before, " + std::to_string(o.depth_after_run) + " after the run");
    if (o.cur_bad_pre || o.cur_bad_post) c.violation(std::string("current-test-not-restored:seen-at-") + (o.cur_bad_post ? "post" : "pre") + "-action", std::to_string(o.cur_bad_pre) + " pre / " + std::to_string(o.cur_bad_post) + " post actions saw UtestShell::getCurrent() different from its value before the run");
    if (o.res_bad_pre || o.res_bad_post) c.violation(std::string("current-result-not-restored:seen-at-") + (o.res_bad_post ? "post" : "pre") + "-action", std::to_string(o.res_bad_pre) + " pre / " + std::to_string(o.res_bad_post) + " post actions saw the current TestResult different from its value before the run");
    if (!o.cur_after_ok) c.violation("current-test-not-restored:after-run", "UtestShell::getCurrent() after the run differs from before");
    if (!o.res_after_ok) c.violation("current-result-not-restored:after-run", "current TestResult after the run differs from before");
    c.count("phase_entry_depth_unexpected", o.phase_depth_unexpected);
    c.count("phase_entry_current_test_unexpected", o.cur_bad_in_phase);
    for (int d = 0; d < 16; d++) if (o.depth_hist[d]) c.count("phase_entries_at_depth_" + std::to_string(d), (uint64_t) o.depth_hist[d]);
    for (int rep = 0; rep < p.reps && rep < MAXREP; rep++) for (size_t ti = 0; ti < p.tests.size(); ti++) {
        int want = m.reps[(size_t) rep].hasfailed[ti], got = o.hasfailed[ti][rep];
        if (want < 0 || got < 0) continue;     // (a post action that did not happen is a trace violation)
        c.count("failed_flag_checks");
        if (got != want) c.violation(got ? "failed-flag:set-on-test-without-failure" : "failed-flag:clear-on-failed-test", "hasFailed()=" + std::to_string(got) + " at the post action of test " + std::to_string(ti) + " in repetition " + std::to_string(rep) + ", outcome " + triple_name(m.reps[(size_t) rep], (int) ti));
    }
    if (o.outer_used) {
        // every enclosing test is a test like any other: lifecycle, its failure recorded and printed once, depth restored, flag
        static const char* const OFK[] = { "no-failing-check", "failcpp", "failc" };
        for (int lv = 0; lv < o.outer_used && lv < MAX_OUTER; lv++) {
            int fk = p.outer_fail[lv]; long wantf = fk ? 1 : 0;
            std::string lvl = "outer test " + std::to_string(lv + 1) + " of " + std::to_string(o.outer_used) + " (counted from the outside; body " + (fk ? std::string("fails a ") + (fk == 1 ? "C++-style" : "C-style") + " check after the nested run" : std::string("completes")) + "): ";
            std::string tail = std::string(lv + 1 == o.outer_used ? ":innermost-outer-test" : ":enclosing-outer-test") + (deepest ? ":at-deepest-nesting-level" : "");
            if (o.outer_runs[lv] != 1 || o.outer_setup[lv] != 1 || o.outer_body[lv] != 1 || o.outer_after_run[lv] != 1 || o.outer_pre[lv] != 1 || o.outer_post[lv] != 1)
                c.violation("nested:outer-test-disturbed" + tail, lvl + std::to_string(o.outer_runs[lv]) + " runs, setup x" + std::to_string(o.outer_setup[lv]) + ", body x" + std::to_string(o.outer_body[lv]) + ", statement after the nested run x" + std::to_string(o.outer_after_run[lv]) + ", pre action x" + std::to_string(o.outer_pre[lv]) + ", post action x" + std::to_string(o.outer_post[lv]));
            if (o.outer_setup[lv] > 0 && o.outer_teardown[lv] != o.outer_setup[lv])
                c.violation(std::string("nested:outer-test-teardown-skipped:after-") + OFK[fk] + "-in-body" + tail, lvl + "setup entered " + std::to_string(o.outer_setup[lv]) + " time(s), teardown ran " + std::to_string(o.outer_teardown[lv]) + " time(s)");
            if (fk && o.outer_after_fail[lv] != 0) c.violation(std::string("nested:outer-test-statement-executed-after:") + OFK[fk] + tail, lvl + "the statement after its failing check was executed");
            if (!fk && o.outer_after_fail[lv] != o.outer_after_run[lv]) c.violation("nested:outer-test-disturbed" + tail, lvl + "body did not run to its end");
            if (o.outer_failures[lv] != wantf) c.violation(std::string("nested:outer-test-failure-count:") + OFK[fk] + tail, lvl + "its run recorded " + std::to_string(o.outer_failures[lv]) + " failure(s), expected " + std::to_string(wantf) + " (failures of the nested run belong to the nested run's own result)");
            if (o.outer_printed[lv] != wantf) c.violation(std::string("nested:outer-test-failure-printed-times:") + OFK[fk] + tail, lvl + "its failing check was printed " + std::to_string(o.outer_printed[lv]) + " time(s), expected " + std::to_string(wantf));
            if (o.outer_post[lv] == 1 && o.outer_hasfailed[lv] != (int) wantf) c.violation(std::string(o.outer_hasfailed[lv] ? "nested:outer-test-failed-flag:set-on-test-without-failure" : "nested:outer-test-failed-flag:clear-on-failed-test") + tail, lvl + "hasFailed()=" + std::to_string(o.outer_hasfailed[lv]) + " at its post action");
            if (o.outer_pre[lv] == 1 && o.outer_post[lv] == 1 && o.outer_depth_pre[lv] != o.outer_depth_post[lv])
                c.violation("nested:jump-buffer-depth-not-restored-after-outer-test" + tail, lvl + "depth " + std::to_string(o.outer_depth_pre[lv]) + " at its pre action, " + std::to_string(o.outer_depth_post[lv]) + " at its post action");
            if (o.outer_depth_body[lv] == -1000) c.violation("nested:jump-buffer-depth-changed-by-nested-run" + tail, lvl + "the depth seen in its body differs before and after the nested run");
            if (o.outer_cur_bad[lv]) c.violation("nested:current-test-not-restored-after-outer-test" + tail, lvl + "UtestShell::getCurrent() at its post action differs from its pre action");
            c.count("outer_tests_judged");
            if (fk) c.count(std::string("outer_tests_failing_a_") + (fk == 1 ? "cpp" : "c") + "_style_check_after_the_nested_run");
        }
        c.count("nested_programs");
        c.count("programs_with_tests_at_nesting_level_" + std::to_string(o.outer_used + 1));
        if (deepest) {
            c.count("programs_at_deepest_nesting_level");
            c.count("test_executions_at_deepest_nesting_level", (uint64_t) m.test_exec);
            if (m.phase_outcomes[O_C]) c.count("programs_at_deepest_nesting_level_with_a_failing_c_style_check");
            if (m.phase_outcomes[O_CPP]) c.count("programs_at_deepest_nesting_level_with_a_failing_cpp_style_check");
            if (m.phase_outcomes[O_STD] || m.phase_outcomes[O_INT]) c.count("programs_at_deepest_nesting_level_with_an_escaping_exception");
            if (p.outer_fail[o.outer_used - 1]) c.count("programs_at_deepest_nesting_level_whose_enclosing_test_fails_afterwards");
        }
    }
    if (p.hist_len) {
        c.count("history_invocations");
        c.count("history_invocations_at_position_" + std::to_string(p.hist_pos + 1));
        bool throws = m.phase_outcomes[O_STD] || m.phase_outcomes[O_INT];
        if (p.hist_pos > 0) {
            if (p.flag_e && p.hist_prev_without_e) c.count("history_invocations_with_e_after_an_invocation_without_e");
            if (p.flag_e && p.hist_prev_without_e && throws) c.count("history_invocations_with_e_and_an_escaping_exception_after_an_invocation_without_e");
            if (!p.flag_e && p.hist_prev_with_e) c.count("history_invocations_without_e_after_an_invocation_with_e");
            if (p.crash != 2 && p.hist_prev_with_f) c.count("history_invocations_without_f_after_an_invocation_with_f");
            if (p.crash == 2 && !p.hist_prev_with_f) c.count("history_invocations_with_f_after_invocations_without_f");
            if (m.any_failing_phase) c.count("history_later_invocations_with_a_failing_phase");
        }
    }

    // ---- crash-on-fail configuration: what the returning crash hook saw (evidence; the property does not state when the hook is called)
    if (p.crash) {
        long uses = m.terminator_uses[0] + m.terminator_uses[1] + m.terminator_uses[2];
        c.count(p.crash == 1 ? "programs_crash_on_fail_set_by_api" : "programs_crash_on_fail_set_by_flag_f");
        c.count(std::string("programs_crash_on_fail_") + mode_name(p.mode));
        if (p.nested) c.count("programs_crash_on_fail_nested");
        c.count("crash_on_fail_terminator_uses_expected", (uint64_t) uses);
        for (int ph = 0; ph < 3; ph++) if (m.terminator_uses[ph]) c.count(std::string("crash_on_fail_checks_leaving_") + PHNAME[ph], (uint64_t) m.terminator_uses[ph]);
        c.count("crash_hook_calls", o.crash_calls);
        for (int ph = 0; ph < 3; ph++) if (o.crash_calls_in_phase[ph]) c.count(std::string("crash_hook_calls_in_") + PHNAME[ph], o.crash_calls_in_phase[ph]);
        if (o.crash_calls_outside_phase) c.count("crash_hook_calls_outside_any_phase", o.crash_calls_outside_phase);
        if (uses > 0) c.count("programs_crash_on_fail_with_a_failing_check");
        if (m.terminator_uses[0] > 0) c.count("programs_crash_on_fail_with_a_failing_check_in_setup");
        if (o.crash_calls > 0 && (long) o.crash_calls == uses) c.count("programs_crash_hook_called_once_per_leaving_check");
    } else if (o.crash_calls) c.count("crash_hook_calls_without_crash_on_fail", o.crash_calls);

    // ---- evidence
    c.count(std::string("programs_") + mode_name(p.mode));
    c.count("programs_shape_" + p.shape);
    c.count("tests_declared", p.tests.size());
    c.count("test_executions", (uint64_t) m.test_exec);
    for (int k = 0; k <= K_N; k++) if (m.stmt_exec[k]) c.count(std::string("executed_") + KNAME[k], (uint64_t) m.stmt_exec[k]);
    for (int k = 1; k < 8; k++) if (m.phase_outcomes[k]) c.count(std::string("phase_outcome_") + ONAME[k], (uint64_t) m.phase_outcomes[k]);
    {   // the check catalogue: what was executed, by family, argument class and path
        static const Form* const TAB[3] = { PASSFORM, CPPFORM, CFORM }; const int NTAB[3] = { N_PASS, N_CPP, N_C };
        uint64_t zero_len = 0, null_ops = 0, boundary = 0, boundary_failing = 0;
        for (int k = 0; k < 3; k++) for (int v = 0; v < NTAB[k] && v < 64; v++) for (int path = 0; path < 2; path++) {
            uint64_t n = (uint64_t) m.form_exec[k][v][path]; if (!n) continue;
            const Form& f = TAB[k][v]; std::string args = path ? f.fail_args : f.pass_args;
            c.count(std::string("checks_") + f.family + "_" + args + (path ? "_failing" : "_passing"), n);
            if (std::string(f.family) == "binary" && args.compare(0, 8, "length_0") == 0) zero_len += n;
            if (args.find("null") != std::string::npos) null_ops += n;
            if (args != "ordinary") { boundary += n; if (path) boundary_failing += n; }
        }
        if (zero_len) c.count("zero_length_binary_compares_executed", zero_len);
        if (null_ops) c.count("checks_with_null_operands_executed", null_ops);
        if (boundary) c.count("boundary_argument_checks_executed", boundary);
        if (boundary_failing) c.count("boundary_argument_checks_failing", boundary_failing);
        if (zero_len) c.count("programs_with_a_zero_length_binary_compare");
        if (zero_len && m.any_failing_phase) c.count("programs_with_a_zero_length_binary_compare_and_a_failing_phase");
    }
    int longest = 0;
    for (const MRep& R : m.reps) { c.count(R.ok ? "repetitions_ok" : R.failures ? "repetitions_with_failures" : "repetitions_ran_nothing"); c.count("failures_expected", (uint64_t) R.failures); longest = std::max(longest, R.longest_jump_run); }
    if (longest > CppUTestVerif_JumpBufferCapacity()) c.count("programs_with_failing_run_longer_than_jump_buffer_stack");
    if (longest >= 25) c.count("programs_with_failing_run_of_25_or_more");
    c.count("repetitions", (uint64_t) p.reps);
    if (p.gf != F_NONE || p.nf != F_NONE) c.count("programs_with_filters");
    if (m.any_failing_phase) c.nontrivial(m.sig);
}

// ================================================================= generator
static const char* GROUPS[] = { "Ga", "Gb", "Gab", "Net", "IO" };
static const char* TFILES[] = { "tests_a.cpp", "tests_b.cpp", "suite/deep_c.cpp" };
static const char* OFILES[] = { "helpers/util_x.cpp", "other_y.cpp", "src/prod_z.c" };
static const char* NSUFFIX[] = { "", "_io", "_net", "x1", "x2" };

struct GenState { int next_id = 0; int next_outside_line = 5; int density = 20; bool thorough = false; int reps = 1; bool no_throw = false; };
struct GenOpts {            // wishes of the section (defaults: none)
    int max_tests = -1;     // cap on the size of the random part / the block
    int e_wish = -1;        // 0: a program without throw statements and without -e / -ci, 1: a program with -e and at least one test that lets an exception escape
    int nested = -1;        // number of enclosing outer tests, -1: drawn
};
static int max_outer_levels() { return std::max(0, std::min(MAX_OUTER, CppUTestVerif_JumpBufferCapacity() / 2 - 1)); }   // never deeper than the stack allows
static void gen_nesting(vf::Rng& r, Program& p, int wish) {
    int mx = max_outer_levels();
    if (wish >= 0) p.nested = std::min(wish, mx);
    else if (p.mode != 2 && mx > 0 && r.chance(25)) { int x = (int) r.below(100); p.nested = x < 40 ? 1 : x < 70 ? mx : r.range(1, mx); }
    for (int lv = 0; lv < p.nested; lv++) { int x = (int) r.below(100); p.outer_fail[lv] = x < 60 ? 0 : x < 80 ? 1 : 2; }
}

static unsigned gen_mask(vf::Rng& r, GenState& g) {
    if (g.reps > 1 && r.chance(25)) { unsigned mk = (unsigned) r.below(1u << g.reps); return mk; }   // may be 0: never fails
    if (r.chance(3)) return 0;
    return 0xF;
}
static void place(vf::Rng& r, GenState& g, const TestSpec& t, int seq, Stmt& s) {
    int style = (int) r.below(100);
    if (style < 60) { s.file = t.file; s.line = t.line + 1 + seq; }
    else if (style < 75) { s.file = t.file; s.line = t.line - 1 - seq; }          // "helper function" above the test
    else { s.file = r.pick(OFILES); s.line = g.next_outside_line++; }
}
static Stmt gen_stmt(vf::Rng& r, GenState& g, const TestSpec& t, int seq, int forced_kind = -1) {
    Stmt s; s.id = g.next_id++;
    int k = forced_kind;
    if (k < 0) {
        int d = g.density;    // percentage of statements that are of a terminating kind
        int x = (int) r.below(100);
        if (x < d) {
            int y = (int) r.below(100);
#ifdef VF_NOEXC
            k = y < 46 ? K_FAILCPP : y < 92 ? K_FAILC : K_EXIT;
#else
            k = y < 30 ? K_FAILCPP : y < 60 ? K_FAILC : y < 77 ? K_THROWSTD : y < 92 ? K_THROWINT : K_EXIT;
            if (g.no_throw && (k == K_THROWSTD || k == K_THROWINT)) k = y < 68 ? K_FAILCPP : y < 77 ? K_FAILC : y < 84 ? K_FAILCPP : K_FAILC;
#endif
        } else { int y = (int) r.below(100); k = y < 45 ? K_MARK : y < 85 ? K_PASS : K_PRINT; }
    }
    s.kind = k;
    switch (k) {
    case K_PASS: s.variant = (int) r.below(N_PASS); break;
    case K_FAILCPP: s.variant = (int) r.below(N_CPP); break;
    case K_FAILC: s.variant = (int) r.below(N_C); break;
    case K_THROWSTD: s.variant = (int) r.below(N_STD); break;
    case K_THROWINT: s.variant = (int) r.below(N_INT); break;
    default: break;
    }
    s.mask = s.terminating_kind() ? gen_mask(r, g) : 0xF;
    s.deep = r.chance(25) ? r.range(1, 6) : 0;
    s.text = "tok" + std::to_string(s.id) + "q";
    place(r, g, t, seq, s);
    return s;
}
static TestSpec gen_test(vf::Rng& r, GenState& g, int i, int forced_kind = -1, int forced_phase = -1, bool force_normal = false) {
    TestSpec t;
    t.group = r.pick(GROUPS);
    t.name = "t" + std::to_string(i) + r.pick(NSUFFIX);
    t.file = r.pick(TFILES);
    t.line = 1000 + 100 * i;
    t.ignored = !force_normal && r.chance(12);
    int seq = 0;
    for (int ph = 0; ph < 3; ph++) {
        int x = (int) r.below(100);
        int n = x < 25 ? 0 : x < 55 ? 1 : x < 80 ? 2 : x < 92 ? 3 : 4;
        for (int k = 0; k < n; k++) t.ph[ph].push_back(gen_stmt(r, g, t, seq++));
        bool force_here = forced_kind >= 0 && (forced_phase == ph || forced_phase == 3);
        if (force_here) {
            Stmt s = gen_stmt(r, g, t, seq++, forced_kind); s.mask = 0xF;
            size_t pos = (size_t) r.below(t.ph[ph].size() + 1);
            t.ph[ph].insert(t.ph[ph].begin() + (long) pos, s);
        }
    }
    if (r.chance(7)) { t.plug_pre = true; t.pre.id = -1; t.pre.kind = K_PLUGIN; t.pre.mask = gen_mask(r, g); t.pre.text = "plugpre" + std::to_string(i) + "q"; place(r, g, t, seq++, t.pre); }
    if (r.chance(7)) { t.plug_post = true; t.post.id = -1; t.post.kind = K_PLUGIN; t.post.mask = gen_mask(r, g); t.post.text = "plugpost" + std::to_string(i) + "q"; place(r, g, t, seq++, t.post); }
    return t;
}

static int random_terminating_kind(vf::Rng& r, bool with_exit, bool no_throw = false) {
    if (no_throw) { int n = with_exit ? 3 : 2; int y = (int) r.below((uint64_t) n); return y == 0 ? K_FAILCPP : y == 1 ? K_FAILC : K_EXIT; }
#ifdef VF_NOEXC
    int n = with_exit ? 3 : 2; int y = (int) r.below((uint64_t) n);
    return y == 0 ? K_FAILCPP : y == 1 ? K_FAILC : K_EXIT;
#else
    int n = with_exit ? 5 : 4; int y = (int) r.below((uint64_t) n);
    return y == 0 ? K_FAILCPP : y == 1 ? K_FAILC : y == 2 ? K_THROWSTD : y == 3 ? K_THROWINT : K_EXIT;
#endif
}

static void finish_program(vf::Rng& r, Program& p, GenState& g, int forced_crash = -1, int e_wish = -1) {
    p.nstmts = g.next_id;
    p.bystander = r.chance(40) ? 1 + (int) r.below(3) : 0;
    // terminator configuration: default, or crash-on-fail with a crash method that returns (by API call, or by -f where there is a command line)
    { bool on = r.chance(25), by_flag = r.chance(70); p.crash = !on ? 0 : (p.mode != 0 && by_flag) ? 2 : 1; }
    if (forced_crash >= 0) p.crash = forced_crash == 0 ? 0 : p.mode == 0 ? 1 : forced_crash;
    bool has_throw = false;
    for (const TestSpec& t : p.tests) for (int ph = 0; ph < 3; ph++) for (const Stmt& s : t.ph[ph]) if ((s.kind == K_THROWSTD || s.kind == K_THROWINT) && s.mask) has_throw = true;
    p.flag_e = has_throw || r.chance(40);
    if (e_wish == 0 && !has_throw) p.flag_e = false;
    if (e_wish == 1) p.flag_e = true;
    if (p.mode == 0) { p.string_buffer_output = p.tests.size() <= 40 && r.chance(50); return; }
    std::vector<std::string>& a = p.argv;
    a.push_back("c01_program");
    std::vector<std::vector<std::string>> opts;
    if (p.flag_e) opts.push_back({ r.chance(70) ? "-e" : "-ci" });
    if (p.verbose == 1) opts.push_back({ "-v" });
    if (p.verbose == 2) opts.push_back({ "-vv" });
    if (p.color) opts.push_back({ "-c" });
    if (p.reverse) opts.push_back({ "-b" });
    if (p.run_ignored) opts.push_back({ "-ri" });
    if (r.chance(10)) opts.push_back({ r.chance(50) ? "-onormal" : "-oeclipse" });
    if (p.crash == 2) opts.push_back({ "-f" });
    static const char* GO[] = { "", "-g", "-sg", "-xg", "-xsg" }; static const char* NO[] = { "", "-n", "-sn", "-xn", "-xsn" };
    if (p.gf != F_NONE) { if (r.chance(50)) opts.push_back({ std::string(GO[p.gf]) + p.gfs }); else opts.push_back({ GO[p.gf], p.gfs }); }
    if (p.nf != F_NONE) { if (r.chance(50)) opts.push_back({ std::string(NO[p.nf]) + p.nfs }); else opts.push_back({ NO[p.nf], p.nfs }); }
    bool bare_r = false;
    if (p.reps == 2 && r.chance(40)) bare_r = true;                                  // "-r" alone means twice
    else if (p.reps > 1 || r.chance(20)) { if (r.chance(60)) opts.push_back({ "-r" + std::to_string(p.reps) }); else opts.push_back({ "-r", std::to_string(p.reps) }); }
    for (size_t i = opts.size(); i > 1; i--) std::swap(opts[i - 1], opts[r.below(i)]);
    for (auto& o : opts) for (auto& s : o) a.push_back(s);
    if (bare_r) a.push_back("-r");                                                   // last, so that it cannot swallow a numeric-looking neighbour
}

static Program gen_program(vf::Rng& r, int mode, bool thorough, const GenOpts& go = GenOpts()) {
    Program p; p.mode = mode;
    GenState g; g.thorough = thorough; g.no_throw = go.e_wish == 0;
    { int x = (int) r.below(100); p.reps = x < 40 ? 1 : x < 70 ? 2 : x < 85 ? 3 : 4; }
    g.reps = p.reps;
    { int x = (int) r.below(100); g.density = x < 12 ? 0 : x < 35 ? 4 : x < 75 ? 15 : 40; }
    { int x = (int) r.below(100); p.verbose = x < 60 ? 0 : x < 85 ? 1 : 2; }
    p.color = r.chance(15); p.reverse = r.chance(20); p.run_ignored = r.chance(15); p.vsformat = r.chance(10);
    gen_nesting(r, p, go.nested);
    int shape = (int) r.below(100);
    int maxrand = mode == 2 ? 30 : 40;
    int block = thorough ? r.range(25, 40) : r.range(12, 16);
    if (mode == 2) block = r.range(12, 15);
    if (go.max_tests >= 0) { maxrand = std::min(maxrand, go.max_tests); block = r.range(12, 13); }
    if (shape < 40) {
        p.shape = "random";
        int n = thorough && mode != 2 && go.max_tests < 0 && r.chance(6) ? r.range(41, 300) : r.range(0, maxrand);
        for (int i = 0; i < n; i++) p.tests.push_back(gen_test(r, g, i));
    } else if (shape < 85) {
        bool one_kind = shape < 62;
        p.shape = one_kind ? "long_run_one_kind" : "long_run_mixed";
        int before = r.range(0, 8), after = r.range(0, 8), i = 0;
        int kind = random_terminating_kind(r, r.chance(15), g.no_throw), phase = (int) r.below(4);
        for (int k = 0; k < before; k++, i++) p.tests.push_back(gen_test(r, g, i));
        for (int k = 0; k < block; k++, i++) {
            if (!one_kind) { kind = random_terminating_kind(r, r.chance(10), g.no_throw); phase = (int) r.below(4); }
            p.tests.push_back(gen_test(r, g, i, kind, phase, true));
        }
        for (int k = 0; k < after; k++, i++) p.tests.push_back(gen_test(r, g, i));
    } else {
        p.shape = "tiny";
        int n = r.range(0, 3);
        for (int i = 0; i < n; i++) { p.tests.push_back(gen_test(r, g, i)); if (r.chance(35)) p.tests.back().ignored = true; }
    }
    // filters (long-run programs stay unfiltered so that the block really runs back to back)
    if (p.shape == "random" || p.shape == "tiny") {   // (decided before the _repmask suffix is added)
        int x = (int) r.below(100);
        if (x < 60) p.gf = F_NONE;
        else if (x < 70) { p.gf = F_STRICT; p.gfs = r.pick(GROUPS); }
        else if (x < 78) { p.gf = F_CONTAINS; p.gfs = r.chance(50) ? "a" : "G"; }
        else if (x < 86) { p.gf = F_STRICT; p.gfs = "NoSuchGroup"; }            // selects nothing
        else if (x < 93) { p.gf = F_XSTRICT; p.gfs = r.pick(GROUPS); }
        else { p.gf = F_XCONTAINS; p.gfs = r.chance(50) ? "G" : "b"; }         // "G" excludes Ga, Gb, Gab
        x = (int) r.below(100);
        if (x < 75) p.nf = F_NONE;
        else if (x < 83) { p.nf = F_CONTAINS; p.nfs = r.chance(50) ? "1" : "_io"; }
        else if (x < 89) { p.nf = F_STRICT; p.nfs = p.tests.empty() ? "t0" : p.tests[r.below(p.tests.size())].name; }
        else if (x < 94) { p.nf = F_STRICT; p.nfs = "no_such_test"; }           // selects nothing
        else if (x < 97) { p.nf = F_XCONTAINS; p.nfs = "t"; }                   // excludes everything
        else { p.nf = F_XSTRICT; p.nfs = p.tests.empty() ? "t0" : p.tests[r.below(p.tests.size())].name; }
    }
    // repetition-dependent programs: every failure is confined to a proper, non-empty subset of the repetitions
    // (only the first, only a middle one, all but the last, ...), so that clean and failing repetitions are mixed
    if (p.reps > 1 && r.chance(30)) {
        unsigned pm = 1u + (unsigned) r.below((1u << p.reps) - 2u);
        for (TestSpec& t : p.tests) {
            for (int ph = 0; ph < 3; ph++) for (Stmt& s : t.ph[ph]) if (s.terminating_kind()) s.mask &= pm;
            t.pre.mask &= pm; t.post.mask &= pm;
        }
        p.shape += "_repmask";
    }
#ifndef VF_NOEXC
    if (go.e_wish == 1) {      // at least one test that really lets an exception escape from a phase, in every repetition
        int at = (int) p.tests.size();
        TestSpec t = gen_test(r, g, at, r.chance(50) ? K_THROWSTD : K_THROWINT, (int) r.below(3), true);
        for (int ph = 0; ph < 3; ph++) for (Stmt& s : t.ph[ph]) if (s.kind == K_THROWSTD || s.kind == K_THROWINT) s.mask = 0xF;
        if (p.gf == F_NONE && p.nf == F_NONE) p.tests.insert(p.tests.begin() + (long) r.below(p.tests.size() + 1), t); else p.tests.push_back(t);
    }
#endif
    finish_program(r, p, g, -1, go.e_wish);
    return p;
}

// ================================================================= description for replay / samples
static std::string describe(const Program& p) {
    std::vector<std::string> ts;
    size_t lim = std::min<size_t>(p.tests.size(), 60);
    for (size_t i = 0; i < lim; i++) {
        const TestSpec& t = p.tests[i];
        std::string d = (t.ignored ? "IGNORE " : "") + t.group + "." + t.name + "@" + t.loc();
        for (int ph = 0; ph < 3; ph++) {
            d += std::string(" ") + "SBT"[ph] + "[";
            for (size_t k = 0; k < t.ph[ph].size(); k++) {
                const Stmt& s = t.ph[ph][k];
                d += (k ? "," : "") + std::string(KNAME[s.kind]);
                if (s.kind == K_FAILCPP || s.kind == K_FAILC || s.kind == K_THROWSTD || s.kind == K_THROWINT || s.kind == K_PASS) d += "#" + std::to_string(s.variant);
                if (const Form* fm = form_of(s)) { d += std::string("=") + fm->macro + "(" + fm->pass_args; if (s.kind != K_PASS) d += std::string("|") + fm->fail_args; d += ")"; }
                if (s.terminating_kind()) { d += "@" + s.file + ":" + std::to_string(s.line); if (s.mask != 0xF) d += "/reps=" + std::to_string(s.mask & ((1u << p.reps) - 1)); }
                if (s.deep) d += "+" + std::to_string(s.deep);
            }
            d += "]";
        }
        if (t.plug_pre) d += " plugin-pre@" + t.pre.file + ":" + std::to_string(t.pre.line);
        if (t.plug_post) d += " plugin-post@" + t.post.file + ":" + std::to_string(t.post.line);
        ts.push_back(vf::jstr(d));
    }
    if (lim < p.tests.size()) ts.push_back(vf::jstr("... " + std::to_string(p.tests.size() - lim) + " more tests"));
    std::vector<std::string> av; for (const std::string& a : p.argv) av.push_back(vf::jstr(a));
    return vf::J().k("mode", mode_name(p.mode)).k("build", VF_VARIANT).k("shape", p.shape).k("bystander_plugin", p.bystander).k("crash_on_fail", p.crash == 0 ? "off" : p.crash == 1 ? "setCrashOnFail(), crash method returns" : "-f, crash method returns").k("tests", (unsigned long) p.tests.size()).k("repetitions", p.reps)
        .k("group_filter", std::string(FNAME[p.gf]) + ":" + p.gfs).k("name_filter", std::string(FNAME[p.nf]) + ":" + p.nfs)
        .k("verbose", p.verbose).k("color", p.color).k("reverse", p.reverse).k("run_ignored", p.run_ignored).k("visual_studio_format", p.vsformat).k("enclosing_outer_tests", p.nested).k("outer_tests_fail_after_nested_run", std::to_string(p.outer_fail[0]) + std::to_string(p.outer_fail[1]) + std::to_string(p.outer_fail[2]) + std::to_string(p.outer_fail[3]))
        .k("invocation_in_history", std::to_string(p.hist_len ? p.hist_pos + 1 : 0) + "/" + std::to_string(p.hist_len))
        .k("string_buffer_output", p.string_buffer_output).raw("argv", vf::jarr(av)).raw("program", vf::jarr(ts)).str();
}

// ================================================================= sections
static void run_and_judge(vf::Ctx& c, std::shared_ptr<Program> pp, bool begin = true) {
    const Program& p = *pp;
    if (begin) c.begin([pp] { return describe(*pp); });
    Model m = interpret(p);
    obs_reset();
    if (p.mode != 2) {
        run_program_here(p);
        judge(c, p, m, *g_obs);
        return;
    }
    fflush(stdout); fflush(stderr); fflush(vf::rt().out);
    pid_t pid = fork();
    if (pid < 0) { c.count("fork_failed"); return; }
    if (pid == 0) {
        run_program_here(p);
        _exit(g_obs->rc);        // what `return RUN_ALL_TESTS(ac, av);` in main() does to the exit status
    }
    int status = 0; pid_t w;
    do { w = waitpid(pid, &status, 0); } while (w < 0 && errno == EINTR);
    if (!WIFEXITED(status) || !g_obs->finished) {
        std::string how = WIFSIGNALED(status) ? "signal-" + std::to_string(WTERMSIG(status)) : "exit-" + std::to_string(WEXITSTATUS(status));
        c.violation("process:child-died:" + how, "the forked test process did not finish the run (status " + std::to_string(status) + "); a sanitizer report, if any, is in the harness stderr");
        return;
    }
    c.count("process_runs");
    int es = WEXITSTATUS(status);
    if (es != (g_obs->rc & 0xff)) c.violation("process:exit-status-differs-from-return-value", "exit status " + std::to_string(es) + ", RUN_ALL_TESTS returned " + std::to_string(g_obs->rc));
    c.count(es ? "process_exit_status_nonzero" : "process_exit_status_zero");
    if (g_obs->rc != 0 && es == 0) c.count("process_exit_status_wrapped_modulo_256");
    judge(c, p, m, *g_obs);
}

static void sec_registry(vf::Ctx& c) { run_and_judge(c, std::make_shared<Program>(gen_program(c.rng, 0, c.thorough))); }
static void sec_runner(vf::Ctx& c) { run_and_judge(c, std::make_shared<Program>(gen_program(c.rng, 1, c.thorough))); }
static void sec_process(vf::Ctx& c) { run_and_judge(c, std::make_shared<Program>(gen_program(c.rng, 2, c.thorough))); }

// complete enumeration: every (setup, body, teardown) outcome triple, 13 identical tests back to back (more than the
// 10 jump-buffer slots), two repetitions, through the registry and through the runner, with the default terminators and
// in the crash-on-fail configuration (crash method returns)
#ifdef VF_NOEXC
static const int TRI_K[] = { -1, K_FAILCPP, K_FAILC, K_EXIT };
#else
static const int TRI_K[] = { -1, K_FAILCPP, K_FAILC, K_EXIT, K_THROWSTD, K_THROWINT };
#endif
static const int TRI_N = (int) (sizeof TRI_K / sizeof TRI_K[0]);
static void sec_triples(vf::Ctx& c) {
    uint64_t i = c.idx;
    int ks[3]; ks[0] = TRI_K[i % TRI_N]; i /= TRI_N; ks[1] = TRI_K[i % TRI_N]; i /= TRI_N; ks[2] = TRI_K[i % TRI_N]; i /= TRI_N;
    int mode = (int) (i % 2); i /= 2;
    int crash = (int) (i % 3); i /= 3;   // 0 default terminators, 1 setCrashOnFail(), 2 -f (registry mode: 1 and 2 are both the API call, there is no command line)
    int deep = (int) (i % 2);            // 0: the tests run at nesting level 1, 1: at the deepest level the jump-buffer stack allows (inside capacity/2 - 1 outer tests)
    auto pp = std::make_shared<Program>();
    Program& p = *pp; p.mode = mode; p.reps = 2; p.shape = crash ? "outcome_triple_crash_on_fail" : "outcome_triple";
    if (deep) { p.nested = max_outer_levels(); p.shape += "_deepest_nesting"; for (int lv = 0; lv < p.nested; lv++) p.outer_fail[lv] = (int) ((c.idx / 7 + (uint64_t) lv) % 3); }
    GenState g; g.reps = 2;
    for (int t = 0; t < 13; t++) {
        TestSpec ts; ts.group = "Tri"; ts.name = "t" + std::to_string(t); ts.file = "tests_a.cpp"; ts.line = 1000 + 100 * t;
        int seq = 0;
        for (int ph = 0; ph < 3; ph++) {
            Stmt a; a.id = g.next_id++; a.kind = K_MARK; a.file = ts.file; a.line = ts.line + 1 + seq++; a.text = "m"; ts.ph[ph].push_back(a);
            if (ks[ph] >= 0) {
                Stmt s; s.id = g.next_id++; s.kind = ks[ph]; s.variant = (t * 7 + ph * 3) % (ks[ph] == K_FAILCPP ? N_CPP : ks[ph] == K_FAILC ? N_C : 4);
                s.file = ts.file; s.line = ts.line + 1 + seq++; s.text = "tok" + std::to_string(s.id) + "q"; s.deep = t % 3;
                ts.ph[ph].push_back(s);
            }
            Stmt b; b.id = g.next_id++; b.kind = K_PASS; b.variant = ph; b.file = ts.file; b.line = ts.line + 1 + seq++; b.text = "m"; ts.ph[ph].push_back(b);
        }
        p.tests.push_back(ts);
    }
    finish_program(c.rng, p, g, crash);
    run_and_judge(c, pp);
}

// Failure totals on and around multiples of 256 (the width of a process exit status): N failing tests x R
// repetitions x 1..2 failing phases per test. "Zero iff every repetition OK" must not depend on the total.
struct TotCombo { int tests, reps, phases; };
static const TotCombo TOT[] = { { 255, 1, 1 }, { 256, 1, 1 }, { 257, 1, 1 }, { 128, 2, 1 }, { 64, 4, 1 }, { 128, 1, 2 }, { 64, 2, 2 }, { 32, 4, 2 }, { 85, 3, 1 }, { 86, 3, 1 }, { 127, 2, 1 }, { 129, 2, 1 } };
static const int TOT_N = (int) (sizeof TOT / sizeof TOT[0]);
static void sec_totals(vf::Ctx& c) {
    uint64_t i = c.idx;
    TotCombo tc = TOT[i % TOT_N]; i /= TOT_N;
    int mode = 1 + (int) (i % 2); i /= 2;
    int kind = (i % 2) ? K_FAILC : K_FAILCPP;
    auto pp = std::make_shared<Program>();
    Program& p = *pp; p.mode = mode; p.reps = tc.reps; p.shape = "failure_total_" + std::to_string(tc.tests * tc.reps * tc.phases);
    GenState g; g.reps = tc.reps;
    for (int t = 0; t < tc.tests; t++) {
        TestSpec ts; ts.group = "Tot"; ts.name = "t" + std::to_string(t); ts.file = "tests_tot.cpp"; ts.line = 1000 + 10 * t;
        int seq = 0;
        for (int ph = 1; ph <= tc.phases; ph++) {     // body, and teardown when two phases fail
            Stmt s; s.id = g.next_id++; s.kind = kind; s.variant = (t + ph) % (kind == K_FAILCPP ? N_CPP : N_C);
            s.file = ts.file; s.line = ts.line + 1 + seq++; s.text = "tok" + std::to_string(s.id) + "q"; s.deep = t % 2;
            ts.ph[ph].push_back(s);
        }
        p.tests.push_back(ts);
    }
    finish_program(c.rng, p, g);
    run_and_judge(c, pp);
}

// complete enumeration of the check catalogue: every check form (passing forms, C++-style and C-style forms on their failing AND their
// passing path: the failing ones fail in the first repetition only) x the phase it stands in x registry / runner. The form stands between
// two ordinary passing checks, is repeated in a loop-like second test (three times in a row, e.g. "compare the prefixes 0..n"), and is
// followed by a test whose body ends in an ordinary failing check, so that OK and Errors summaries both have to carry the count.
static const int CAT_N = (int) (sizeof PASSFORM / sizeof PASSFORM[0] + sizeof CPPFORM / sizeof CPPFORM[0] + sizeof CFORM / sizeof CFORM[0]);
static void sec_catalogue(vf::Ctx& c) {
    uint64_t i = c.idx;
    int form = (int) (i % (uint64_t) CAT_N); i /= (uint64_t) CAT_N;
    int ph = (int) (i % 3); i /= 3;
    int mode = (int) (i % 2);
    int kind = K_PASS, variant = form;
    if (variant >= N_PASS) { variant -= N_PASS; kind = K_FAILCPP; if (variant >= N_CPP) { variant -= N_CPP; kind = K_FAILC; } }
    auto pp = std::make_shared<Program>();
    Program& p = *pp; p.mode = mode; p.reps = 2; p.shape = "check_catalogue";
    GenState g; g.reps = 2;
    auto mk = [&](TestSpec& ts, int& seq, int k, int v, unsigned mask) {
        Stmt s; s.id = g.next_id++; s.kind = k; s.variant = v; s.mask = mask; s.file = ts.file; s.line = ts.line + 1 + seq++; s.text = "tok" + std::to_string(s.id) + "q"; return s;
    };
    for (int t = 0; t < 3; t++) {
        TestSpec ts; ts.group = "Cat"; ts.name = "t" + std::to_string(t); ts.file = "tests_cat.cpp"; ts.line = 1000 + 100 * t;
        int seq = 0;
        if (t == 0) {
            for (int q = 0; q < 3; q++) {
                ts.ph[q].push_back(mk(ts, seq, K_PASS, q, 0xF));
                if (q == ph) { ts.ph[q].push_back(mk(ts, seq, kind, variant, kind == K_PASS ? 0xFu : 0x1u)); ts.ph[q].push_back(mk(ts, seq, K_PASS, 1, 0xF)); }
            }
        } else if (t == 1) {
            for (int q = 0; q < 3; q++) ts.ph[ph].push_back(mk(ts, seq, kind, variant, kind == K_PASS ? 0xFu : 0x0u));     // passing path three times in a row
        } else {
            ts.ph[1].push_back(mk(ts, seq, kind, variant, kind == K_PASS ? 0xFu : 0x0u));
            ts.ph[1].push_back(mk(ts, seq, (c.idx & 1) ? K_FAILC : K_FAILCPP, 4, 0x2));                                     // second repetition: an ordinary failing check after it
        }
        p.tests.push_back(ts);
    }
    finish_program(c.rng, p, g, 0);
    c.count("catalogue_forms_enumerated");
    run_and_judge(c, pp);
}

// ---- histories of runner invocations in one process. A test main may call the command-line runner more than once (a smoke subset first,
// then everything; a wrapper that retries with other options): every invocation has to behave as its OWN argv says, whatever an earlier
// invocation was asked to do. Each invocation has its own registry and program and is judged by the unchanged per-program model; the
// process-wide configuration (rethrow flag, terminators, crash method) is NOT reset between the invocations of one history.
static void run_history(vf::Ctx& c, std::vector<std::shared_ptr<Program>> steps) {
    bool without_e = false, with_e = false, with_f = false;
    for (size_t k = 0; k < steps.size(); k++) {
        Program& p = *steps[k];
        p.hist_pos = (int) k; p.hist_len = (int) steps.size();
        p.hist_prev_without_e = without_e; p.hist_prev_with_e = with_e; p.hist_prev_with_f = with_f;
        (p.flag_e ? with_e : without_e) = true;
        if (p.crash == 2) with_f = true;
    }
    c.begin([steps] { std::vector<std::string> d; for (auto& s : steps) d.push_back(describe(*s)); return vf::J().raw("history_of_runner_invocations", vf::jarr(d)).str(); });
    for (auto& s : steps) run_and_judge(c, s, false);
    reset_static_configuration();       // (run_program_here did it after the last invocation; again in case the history ended early)
    c.count("histories");
    c.count("histories_of_" + std::to_string(steps.size()) + "_invocations");
}
static void sec_histories(vf::Ctx& c) {
    vf::Rng& r = c.rng;
    int n = r.chance(65) ? 2 : 3;
    // shapes: free (every invocation draws its options on its own), or "subset first": the earlier invocations neither throw nor pass -e,
    // the last one passes -e and lets exceptions escape from tests (no-exceptions build: the same without the throw statements)
    bool subset_first = r.chance(50);
    std::vector<std::shared_ptr<Program>> steps;
    for (int k = 0; k < n; k++) {
        GenOpts go; go.max_tests = 12;
        if (subset_first) go.e_wish = k + 1 < n ? 0 : 1;
        else { int x = (int) r.below(100); go.e_wish = x < 30 ? 0 : x < 55 ? 1 : -1; }
        steps.push_back(std::make_shared<Program>(gen_program(r, 1, false, go)));
        steps.back()->shape += "_in_history";
    }
    run_history(c, steps);
}

// complete table: option set of the first invocation x option set of the second invocation x what ends a phase of the second program's
// middle test (and of the first program's, if its options allow it) x phase. Three tests per program.
static const char* const HOPT[] = { "", "-e", "-ci", "-f", "-v", "-c", "-r2", "-ri", "-vv" };
static const int HOPT_N = (int) (sizeof HOPT / sizeof HOPT[0]);
#ifdef VF_NOEXC
static const int HK[] = { K_FAILCPP, K_FAILC };
#else
static const int HK[] = { K_FAILCPP, K_FAILC, K_THROWSTD, K_THROWINT };
#endif
static const int HK_N = (int) (sizeof HK / sizeof HK[0]);
static std::shared_ptr<Program> option_program(vf::Ctx& c, const char* opt, int kind, int ph, int salt) {
    auto pp = std::make_shared<Program>();
    Program& p = *pp; p.mode = 1; p.shape = "option_history";
    std::string o = opt;
    bool throws = kind == K_THROWSTD || kind == K_THROWINT;
    p.reps = o == "-r2" ? 2 : 1; p.verbose = o == "-v" ? 1 : o == "-vv" ? 2 : 0; p.color = o == "-c"; p.run_ignored = o == "-ri"; p.crash = o == "-f" ? 2 : 0;
    p.flag_e = o == "-e" || o == "-ci" || throws;
    GenState g; g.reps = p.reps;
    for (int t = 0; t < 3; t++) {
        TestSpec ts; ts.group = "Hist"; ts.name = "t" + std::to_string(t); ts.file = "tests_hist.cpp"; ts.line = 1000 + 100 * t; ts.ignored = t == 2 && o == "-ri";
        int seq = 0;
        for (int q = 0; q < 3; q++) {
            Stmt a; a.id = g.next_id++; a.kind = K_PASS; a.variant = (salt + q + t) % N_PASS; a.file = ts.file; a.line = ts.line + 1 + seq++; a.text = "m"; ts.ph[q].push_back(a);
            if (t == 1 && q == ph && kind >= 0) {
                Stmt s; s.id = g.next_id++; s.kind = kind; s.variant = (salt + ph) % (kind == K_FAILCPP ? N_CPP : kind == K_FAILC ? N_C : 4);
                s.file = ts.file; s.line = ts.line + 1 + seq++; s.text = "tok" + std::to_string(s.id) + "q"; ts.ph[q].push_back(s);
            }
            Stmt b; b.id = g.next_id++; b.kind = K_MARK; b.file = ts.file; b.line = ts.line + 1 + seq++; b.text = "m"; ts.ph[q].push_back(b);
        }
        p.tests.push_back(ts);
    }
    p.nstmts = g.next_id;
    p.argv.push_back("c01_program");
    if (!o.empty()) p.argv.push_back(o);
    if (throws && o != "-e" && o != "-ci") p.argv.push_back((salt & 1) ? "-e" : "-ci");     // a program that throws always asks for "do not rethrow"
    (void) c;
    return pp;
}
static void sec_option_histories(vf::Ctx& c) {
    uint64_t i = c.idx;
    int o1 = (int) (i % HOPT_N); i /= HOPT_N;
    int o2 = (int) (i % HOPT_N); i /= HOPT_N;
    int k2 = HK[i % HK_N]; i /= HK_N;
    int ph = (int) (i % 3);
    // first invocation: a failing check of the other style in the same phase (it never throws unless it is the -e / -ci invocation itself)
    int k1 = (std::string(HOPT[o1]) == "-e" || std::string(HOPT[o1]) == "-ci") ? k2 : (k2 == K_FAILC ? K_FAILCPP : K_FAILC);
    if ((c.idx / 5) % 3 == 0) k1 = -1;      // ... or no failure at all (a passing smoke run first)
    std::vector<std::shared_ptr<Program>> steps;
    steps.push_back(option_program(c, HOPT[o1], k1, ph, (int) (c.idx % 11)));
    steps.push_back(option_program(c, HOPT[o2], k2, ph, (int) (c.idx % 13) + 1));
    if ((c.idx / 3) % 4 == 0) steps.push_back(option_program(c, HOPT[o1], k1, (ph + 1) % 3, (int) (c.idx % 7) + 2));   // and the first option set once more
    c.count("option_histories_enumerated");
    run_history(c, steps);
}

int main(int argc, char** argv) {
    g_obs = (Obs*) mmap(nullptr, sizeof(Obs), PROT_READ | PROT_WRITE, MAP_SHARED | MAP_ANONYMOUS, -1, 0);
    if (g_obs == MAP_FAILED) { perror("mmap"); return 2; }
    static TestSpec peek_spec; peek_spec.group = "Peek"; peek_spec.name = "peek"; peek_spec.file = "peek.cpp"; peek_spec.line = 1;
    g_peek = new ScriptShell(-1, peek_spec);
    uint64_t ntri = (uint64_t) TRI_N * TRI_N * TRI_N * 2 * 3 * 2;
    std::vector<vf::Section> S = {
        { "outcome_triples", ntri, ntri, sec_triples, true },
        { "failure_totals_around_256", (uint64_t) TOT_N * 4, (uint64_t) TOT_N * 4, sec_totals, true },
        { "check_catalogue", (uint64_t) CAT_N * 6, (uint64_t) CAT_N * 6, sec_catalogue, true },
        { "option_histories", (uint64_t) HOPT_N * HOPT_N * HK_N * 3, (uint64_t) HOPT_N * HOPT_N * HK_N * 3, sec_option_histories, true },
        { "runner_histories", 500, 6000, sec_histories, false },
        { "registry_programs", 3000, 40000, sec_registry, false },
        { "runner_programs", 2000, 25000, sec_runner, false },
        { "process_programs", 200, 1200, sec_process, false },
    };
    return vf::harness_main(argc, argv, S, nullptr);
}
