// C13 — string operations equal their textbook meaning and are memory-safe.
//
// Monitors:
//   * reference implementations over std::string / libc, written from the textbook definition
//     (silences of DESIGN.md section 5: count on self-overlapping patterns and "", split with "",
//      replace of "", AtoI/AtoU on unrepresentable numbers / AtoU with a sign, StrNCpy padding,
//      printable() of bytes >= 0x80 (raw byte or \xHH with the true value), NUL as a character operand)
//   * a recording string allocator installed through SimpleString::setStringAllocator: every buffer is an
//     exact-size libc block (so ASan sees every byte outside it), junk-filled, released exactly once and with
//     the size it was requested with; the ledger must be empty when all objects of a case are gone
//   * every raw C-string / byte operand is handed over in an exact-size heap block (ASan red zones)
//   * objects whose text is SHORTER than their buffer (the state replace(c, '\0') leaves behind - the only public operation that
//     shortens a string in place) are a value class of their own: a share of the single-operation cases builds its receiver /
//     argument objects that way (text + separator + stale tail, separator replaced by NUL), two exhaustive sections do so for all
//     short {a,b} strings, and the histories have a step that cuts a live object at one of its characters. What replace(c, '\0')
//     itself yields is not judged (NUL as a character operand): the harness looks at what the object holds afterwards and goes on
//     from there; every LATER operation is judged on the C-string content (the text up to the first NUL). Whether an object is in
//     that state is observed from outside through the allocator ledger (buffer size > text length + 1).
//   * ASan/UBSan build
#ifdef VF_MEMCHECK
#include <valgrind/memcheck.h>
#endif
#include "verif.h"
#include <string>
#include <vector>
#include <map>
#include <cstdarg>
#include <climits>
#include <cstdint>
#include <cmath>
#include <cfloat>
#include <limits>
#include <csignal>
#include <sys/time.h>
#include <ctime>

#include "CppUTest/TestHarness.h"
#include "CppUTest/SimpleString.h"
#include "CppUTest/TestMemoryAllocator.h"
#include "CppUTest/MemoryLeakWarningPlugin.h"

typedef std::string S;
static const size_t NPOS = (size_t) -1;

static vf::Ctx* g_c = nullptr;
static S g_opname = "?";

// ---------------------------------------------------------------- small helpers
static S clip(const S& s) {
    if (s.size() <= 96) return s;
    char b[96]; snprintf(b, sizeof b, "...(len %zu, fnv %016llx)", s.size(), (unsigned long long) vf::fnv(s));
    return s.substr(0, 64) + b;
}
static S zs(size_t v) { if (v == NPOS) return "npos"; if (v > ((size_t) 1 << 62)) return "npos-" + std::to_string(NPOS - v); return std::to_string(v); }
static int sgn(long long v) { return v < 0 ? -1 : v > 0 ? 1 : 0; }
static bool has_high(const S& s) { for (unsigned char ch : s) if (ch >= 0x80) return true; return false; }
// a pattern that can overlap itself: some proper prefix is also a suffix
static bool has_border(const S& t) {
    for (size_t k = 1; k < t.size(); k++) if (t.compare(0, k, t, t.size() - k, k) == 0) return true;
    return false;
}
static S ref_lower(S s) { for (char& ch : s) if (ch >= 'A' && ch <= 'Z') ch = (char) (ch - 'A' + 'a'); return s; }
static S ref_replace(const S& s, const S& to, const S& with) {   // textbook (left to right, non-overlapping, no rescan); to != ""
    S out; size_t pos = 0, f;
    while ((f = s.find(to, pos)) != S::npos) { out.append(s, pos, f - pos); out += with; pos = f + to.size(); }
    out.append(s, pos, S::npos);
    return out;
}
static std::vector<S> ref_split(const S& s, const S& d) {          // tokens keep their delimiter; a non-empty tail is the last token; d != ""
    std::vector<S> t; size_t pos = 0, f;
    while ((f = s.find(d, pos)) != S::npos) { t.push_back(s.substr(pos, f + d.size() - pos)); pos = f + d.size(); }
    if (pos < s.size()) t.push_back(s.substr(pos));
    return t;
}
static size_t ref_count(const S& s, const S& t, bool overlapping) {
    size_t n = 0, pos = 0, f;
    while ((f = s.find(t, pos)) != S::npos) { n++; pos = f + (overlapping ? 1 : t.size()); }
    return n;
}
// printable(): is `out` an acceptable rendering of `in`?  returns "" when fine, else a reason
static S printable_check(const S& in, const S& out, unsigned& hb_raw, unsigned& hb_esc) {
    size_t pos = 0;
    auto hex_at = [&](size_t at, unsigned char v) {
        if (at + 4 > out.size() || out[at] != '\\' || out[at + 1] != 'x') return false;
        char up[3], lo[3]; snprintf(up, 3, "%02X", v); snprintf(lo, 3, "%02x", v);
        for (int i = 0; i < 2; i++) if (out[at + 2 + (size_t) i] != up[i] && out[at + 2 + (size_t) i] != lo[i]) return false;
        return true;
    };
    for (size_t i = 0; i < in.size(); i++) {
        unsigned char ch = (unsigned char) in[i];
        char why[64]; snprintf(why, sizeof why, "input byte %zu (0x%02x) rendered wrongly at output offset %zu", i, ch, pos);
        if (ch >= 7 && ch <= 13) {
            if (pos + 2 > out.size() || out[pos] != '\\' || out[pos + 1] != "abtnvfr"[ch - 7]) return why;
            pos += 2;
        } else if (ch < 0x20 || ch == 0x7f) {
            if (!hex_at(pos, ch)) return why;
            pos += 4;
        } else if (ch >= 0x80) {
            if (pos < out.size() && (unsigned char) out[pos] == ch) { pos += 1; hb_raw++; }
            else if (hex_at(pos, ch)) { pos += 4; hb_esc++; }
            else return why;
        } else {
            if (pos >= out.size() || (unsigned char) out[pos] != ch) return why;
            pos += 1;
        }
    }
    if (pos != out.size()) return "output has " + std::to_string(out.size() - pos) + " extra bytes";
    return "";
}
static const char* printable_class(const S& in) {
    bool hb = false, sh = false, hx = false;
    for (unsigned char ch : in) { if (ch >= 0x80) hb = true; else if (ch >= 7 && ch <= 13) sh = true; else if (ch < 0x20 || ch == 0x7f) hx = true; }
    return hb ? "highbit" : hx ? "control-hex" : sh ? "control-short" : "plain";
}

// exact-size heap copy of a C string / byte block, so that ASan sees every read outside it
struct CBuf {
    char* p; size_t n;
    explicit CBuf(const S& s, bool terminated = true) { n = s.size() + (terminated ? 1 : 0); p = (char*) malloc(n ? n : 1); memcpy(p, s.data(), s.size()); if (terminated) p[s.size()] = 0; if (!n) p = p; }
    ~CBuf() { free(p); }
    CBuf(const CBuf&) = delete; CBuf& operator=(const CBuf&) = delete;
};
// raw bytes without terminator, exactly n bytes (n == 0: a zero-size block)
struct BBuf {
    unsigned char* p; size_t n;
    explicit BBuf(const S& s) { n = s.size(); p = (unsigned char*) malloc(n); if (n) memcpy(p, s.data(), n); }
    ~BBuf() { free(p); }
    BBuf(const BBuf&) = delete; BBuf& operator=(const BBuf&) = delete;
};

// ---------------------------------------------------------------- recording string allocator
struct RecAlloc : public TestMemoryAllocator {
    struct Ent { size_t size; size_t line; };
    std::map<char*, Ent> live;
    std::map<size_t, S> sites;             // request line in SimpleString.cpp -> name of the requesting function (learnt by probing at start-up)
    std::vector<std::pair<size_t, size_t>> probe;   // (line, size) of requests while probing
    bool probing = false;
    uint64_t n_alloc = 0, n_free = 0, bytes = 0, max_live = 0;
    RecAlloc() : TestMemoryAllocator("verif recording string allocator", "vs-alloc", "vs-free") {}
    S site(size_t line) const { auto it = sites.find(line); return it == sites.end() ? S("unnamed-request-site") : it->second; }
    void viol(const S& key, const S& detail) { if (g_c) g_c->violation(key, detail + " during " + g_opname); }
    char* alloc_memory(size_t size, const char* file, size_t line) override {
        n_alloc++;
        if (probing) probe.push_back(std::make_pair(line, size));
        if (size > ((size_t) 1 << 28)) {
            viol("alloc-request-absurd:requested-by=" + site(line), "string allocator asked for " + std::to_string(size) + " bytes at " + (file ? file : "?") + ":" + std::to_string(line));
            return nullptr;
        }
        char* p = (char*) malloc(size);
        if (!p) return nullptr;
        memset(p, 0xA5, size);          // junk without a NUL: a missing terminator runs into the red zone
#ifdef VF_MEMCHECK
        VALGRIND_MAKE_MEM_UNDEFINED(p, size);   // ... and, under memcheck, any use of a byte SimpleString has not written is reported
#endif
        live[p] = Ent{ size, line }; bytes += size;
        if (live.size() > max_live) max_live = live.size();
        return p;
    }
    void free_memory(char* mem, size_t size, const char* file, size_t line) override {
        n_free++;
        if (!mem) return;
        auto it = live.find(mem);
        if (it == live.end()) {
            viol("release-unknown-or-twice:" + g_opname, "buffer released that is not live (size argument " + std::to_string(size) + ") at " + (file ? file : "?") + ":" + std::to_string(line));
            return;                      // do not hand it to free(): keep the process alive, the record is written
        }
        if (it->second.size != size)
            viol("release-size-mismatch:buffer-requested-by=" + site(it->second.line), "buffer requested with " + std::to_string(it->second.size) + " bytes (line " + std::to_string(it->second.line) + ") released with size " + std::to_string(size) + " at " + (file ? file : "?") + ":" + std::to_string(line));
        memset(mem, 0xDD, it->second.size);
        free(mem);
        live.erase(it);
    }
    size_t size_of(const char* p) const { auto it = live.find(const_cast<char*>(p)); return it == live.end() ? 0 : it->second.size; }
    bool is_live(const char* p, size_t need) const { auto it = live.find(const_cast<char*>(p)); return it != live.end() && it->second.size >= need; }
};
static RecAlloc* g_rec;

// "terminates": a CPU-time budget per case (ITIMER_VIRTUAL counts only this process' own user time, so machine load does not matter).
// A case needs micro- to milliseconds; one that has burnt CPU_LIMIT_S seconds is reported as non-terminating and the process leaves
// (the driver resumes after the case). A case that blocks without using CPU is left to the driver's progress watchdog.
#ifdef VF_MEMCHECK
static const int CPU_LIMIT_S = 240;     // valgrind runs the same case 20-50 times slower
#else
static const int CPU_LIMIT_S = 5;
#endif
static void on_cpu_limit(int) {
    if (g_c) g_c->violation("non-termination:" + g_opname, "the case used " + std::to_string(CPU_LIMIT_S) + " s of CPU time without finishing (a normal case takes milliseconds)");
    _exit(87);
}
static double g_cpu0 = 0;
static double cpu_now() { struct timespec ts; clock_gettime(CLOCK_PROCESS_CPUTIME_ID, &ts); return (double) ts.tv_sec + 1e-9 * (double) ts.tv_nsec; }
static void arm_cpu_limit(int seconds) {
    struct itimerval tv; memset(&tv, 0, sizeof tv); tv.it_value.tv_sec = seconds;
    setitimer(ITIMER_VIRTUAL, &tv, nullptr);
}
// Learn which request line of SimpleString.cpp belongs to which function, so that ledger violations can name the requester
// (stable under line shifts). Done inside the first case of the process, so that a crash here is attributed to a case by the driver.
static bool g_probed = false;
static void probe_sites() {
    // learn which request line belongs to which function, so that ledger violations can name the requester (stable under line shifts)
    auto learn = [&](const char* name, size_t want_size) {
        for (auto& pr : g_rec->probe) if ((want_size == 0 || pr.second == want_size) && !g_rec->sites.count(pr.first)) { g_rec->sites[pr.first] = name; break; }
        g_rec->probe.clear();
    };
    g_rec->probing = true;
    { SimpleString a("x"); learn("copyToNewBuffer", 0); }
    { SimpleString a("x", 2); learn("setInternalBufferToNewBuffer", 0); }
    { const char* n = nullptr; SimpleString a(n); learn("getEmptyString", 0); }
    { SimpleString a("xx"); g_rec->probe.clear(); a.replace("x", "yyyyy"); learn("replace", 11); }
    { std::string big(150, 'x'); SimpleString r = StringFromFormat("%s", big.c_str()); learn("VStringFromFormat", 151); }
    g_rec->probing = false;
    for (auto& kv : g_rec->live) free(kv.first);
    g_rec->live.clear();
}
static void case_start(vf::Ctx& c, const S& opname) {
    g_c = &c; g_opname = opname;
    g_cpu0 = cpu_now();
    arm_cpu_limit(CPU_LIMIT_S);
    if (!g_probed) { g_probed = true; S keep = g_opname; g_opname = "start-up-probe"; probe_sites(); g_opname = keep; }
    if (!g_rec->live.empty()) { for (auto& kv : g_rec->live) free(kv.first); g_rec->live.clear(); }   // cannot happen: case_end cleans up
    g_rec->n_alloc = g_rec->n_free = g_rec->bytes = g_rec->max_live = 0;
}
static void case_end(vf::Ctx& c) {
    if (!g_rec->live.empty()) {
        S d = std::to_string(g_rec->live.size()) + " buffer(s) never released after " + g_opname + ", sizes:";
        int k = 0; for (auto& kv : g_rec->live) { if (k++ < 6) d += " " + std::to_string(kv.second.size); }
        c.violation("buffer-never-released:buffer-requested-by=" + g_rec->site(g_rec->live.begin()->second.line), d);
        for (auto& kv : g_rec->live) free(kv.first);
        g_rec->live.clear();
    }
    c.count("alloc_requests", g_rec->n_alloc);
    c.count("alloc_releases", g_rec->n_free);
    c.count("alloc_bytes", g_rec->bytes);
    if (g_rec->max_live >= 4) c.count("cases_with_4plus_live_buffers");
    arm_cpu_limit(0);
    double used = cpu_now() - g_cpu0;      // evidence for the termination clause: how close normal cases come to the budget
    if (used > 0.1 && getenv("VERIF_C13_SLOW")) fprintf(stderr, "SLOW case %llu (%s local %llu) %s: %.3f s cpu\n", (unsigned long long) c.global_idx, c.section, (unsigned long long) c.idx, g_opname.c_str(), used);
    if (used > 1.0) c.count("cases_over_1s_cpu"); else if (used > 0.1) c.count("cases_over_100ms_cpu"); else if (used > 0.01) c.count("cases_over_10ms_cpu");
    g_c = nullptr;
}

// ---------------------------------------------------------------- generators
static const S ALPHA[] = {
    S("ab"),
    S("aAb ."),
    S("\x01\t\n\x7f\x80\xff" "a"),
    S("019 -+\t" "a"),
    S("\\x80" "\x80\a\r\x1f" " %"),
    S("aAzZ@[`{" "\xc1\xe1"),
};
static const int NALPHA = 6;

static S gen_short(vf::Rng& r, const S& al, int maxlen = 12) {
    int len;
    int k = (int) r.below(100);
    if (k < 12) len = 0; else if (k < 24) len = 1; else if (k < 40) len = 2; else len = r.range(3, maxlen);
    if (len > maxlen) len = maxlen;
    S s; for (int i = 0; i < len; i++) s += al[r.below(al.size())];
    return s;
}
static S gen_long(vf::Rng& r, const S& al) {
    size_t len;
    switch (r.below(6)) {
    case 0: len = (size_t) r.range(95, 105); break;              // around the 100-byte formatting fast path
    case 1: len = (size_t) r.range(100, 300); break;
    case 2: len = (size_t) r.range(125, 131); break;             // around the 128-byte binary dump limit
    case 3: len = (size_t) r.range(300, 1500); break;
    default: len = (size_t) r.range(1000, 5000); break;
    }
    std::vector<S> blocks; int nb = r.range(1, 3);
    for (int i = 0; i < nb; i++) { S b; int bl = r.range(1, 6); for (int j = 0; j < bl; j++) b += al[r.below(al.size())]; blocks.push_back(b); }
    S s; while (s.size() < len) { s += blocks[r.below(blocks.size())]; if (r.chance(3)) s += al[r.below(al.size())]; }
    s.resize(len);
    return s;
}
static S gen_str(vf::Rng& r, const S& al, bool lng) { return lng ? gen_long(r, al) : gen_short(r, al); }
// an operand related to s, so that matches, prefixes and suffixes are frequent
static S gen_related(vf::Rng& r, const S& s, const S& al, bool lng) {
    switch (r.below(10)) {
    case 0: return gen_short(r, al, 3);
    case 1: { if (s.empty()) return ""; size_t p = r.below(s.size()); size_t n = 1 + r.below(std::min<size_t>(s.size() - p, lng ? 40 : 4)); return s.substr(p, n); }
    case 2: return s.substr(0, r.below(s.size() + 1));
    case 3: return s.substr(r.below(s.size() + 1));
    case 4: return s;
    case 5: return s + al[r.below(al.size())];
    case 6: return "";
    case 7: { if (s.empty()) return S(1, al[0]); size_t p = r.below(s.size()); size_t n = 1 + r.below(std::min<size_t>(s.size() - p, 4)); S t = s.substr(p, n); char& ch = t[r.below(t.size())]; if (ch >= 'a' && ch <= 'z') ch = (char) (ch - 32); else if (ch >= 'A' && ch <= 'Z') ch = (char) (ch + 32); else ch = al[r.below(al.size())]; return t; }
    case 8: { S t = gen_short(r, al, 2); return t + t; }           // self-overlapping by construction
    default: return gen_short(r, al, lng ? 6 : 4);
    }
}
static size_t gen_pos(vf::Rng& r, size_t len) {
    switch (r.below(12)) {
    case 0: return NPOS;
    case 1: return NPOS - 1;
    case 2: return len;
    case 3: return (size_t) 1 << 63;
    case 4: return len + 1 + r.below(3);
    default: return r.below(len + 4);
    }
}
static int gen_ch(vf::Rng& r, const S& s, const S& al, bool allow_nul) {
    int k = (int) r.below(100);
    if (allow_nul && k < 4) return 0;
    if (k < 65 && !s.empty()) return (unsigned char) s[r.below(s.size())];
    if (k < 90) return (unsigned char) al[r.below(al.size())];
    return 1 + (int) r.below(255);
}
static uint64_t gen_u64(vf::Rng& r) {
    uint64_t raw = r.next();
    switch (r.below(5)) {
    case 0: raw >>= r.below(64); break;
    case 1: raw = (1ull << r.below(64)) + (uint64_t) r.range(-3, 3); break;
    case 2: raw = (uint64_t) (int64_t) r.range(-300, 300); break;
    case 3: raw = (uint64_t) r.range(0, 1300); break;
    default: break;
    }
    return raw;
}

// ---------------------------------------------------------------- cases
enum Op {
    OP_CTOR, OP_REPEAT, OP_COPY, OP_PLUS, OP_EQ, OP_CONTAINS, OP_COUNT, OP_FIND, OP_SUBSTR1, OP_SUBSTR2, OP_FROMTILL,
    OP_SPLIT, OP_REPLACE_CH, OP_REPLACE_STR, OP_LOWER, OP_PRINTABLE, OP_PAD, OP_COPYTOBUF,
    OP_STRCMP, OP_STRLEN, OP_STRNCMP, OP_STRNCPY, OP_STRSTR, OP_MEMCMP, OP_ATOI, OP_ATOU, OP_TOLOWER,
    OP_FORMAT, OP_NUMFMT, OP_BINARY, OP_MASKED, OP_ORDINAL, OP_N
};
// strs: which of s,t,u are operands (bit 1,2,4); poss: which of p,q are positions/lengths relative to s (bit 1,2); pat: t is a search pattern
struct OpInfo { const char* name; int strs; int poss; bool pat; int weight; };
static const OpInfo OPS[OP_N] = {
    { "construct", 1, 0, false, 3 }, { "repeat", 1, 0, false, 3 }, { "copy-assign", 1, 0, false, 3 }, { "concat", 7, 0, false, 5 },
    { "equal", 3, 0, false, 4 }, { "contains-starts-ends", 3, 0, true, 6 }, { "count", 3, 0, true, 5 }, { "find", 1, 1, false, 5 },
    { "subString1", 1, 1, false, 5 }, { "subString2", 1, 3, false, 6 }, { "subStringFromTill", 1, 0, false, 4 },
    { "split", 7, 0, true, 7 }, { "replace-char", 1, 0, false, 3 }, { "replace-str", 7, 0, true, 8 }, { "lowerCase", 1, 0, false, 3 },
    { "printable", 1, 0, false, 6 }, { "pad", 3, 0, false, 3 }, { "copyToBuffer", 1, 2, false, 5 },
    { "StrCmp", 3, 0, false, 3 }, { "StrLen", 1, 0, false, 1 }, { "StrNCmp", 3, 1, false, 5 }, { "StrNCpy", 1, 1, false, 5 }, { "StrStr", 3, 0, true, 4 },
    { "MemCmp", 3, 0, false, 3 }, { "AtoI", 1, 0, false, 3 }, { "AtoU", 1, 0, false, 3 }, { "ToLower", 0, 0, false, 1 },
    { "format", 3, 0, false, 7 }, { "number-format", 0, 0, false, 5 }, { "binary-format", 1, 0, false, 4 }, { "masked-bits", 0, 0, false, 2 }, { "ordinal", 0, 0, false, 2 },
};

struct Case {
    int op = 0; S s, t, u; size_t p = 0, q = 0; int c1 = 'a', c2 = 'b'; uint64_t v1 = 0, v2 = 0; double d = 0; int k = 0; bool lng = false;
    int cut = 0; S tail;      // cut: which of the s/t/u OBJECTS (bit 1,2,4) are built as text + separator + tail and then shortened in place by replace(separator, '\0')
};
static S case_json(const Case& cs) {
    return vf::J().k("op", OPS[cs.op].name).k("s", clip(cs.s)).k("t", clip(cs.t)).k("u", clip(cs.u)).k("p", zs(cs.p)).k("q", zs(cs.q))
        .k("c1", cs.c1).k("c2", cs.c2).k("v1", (unsigned long long) cs.v1).k("v2", (unsigned long long) cs.v2).k("d", cs.d).k("k", cs.k)
        .k("shortened_in_place", cs.cut).k("stale_tail", clip(cs.tail)).str();
}
// input class named in violation keys (first that applies)
static const char* cls(const Case& cs) {
    const OpInfo& o = OPS[cs.op];
    if ((o.strs & 1) && cs.s.empty()) return "empty-subject";
    if (((o.strs & 2) && cs.t.empty()) || ((o.strs & 4) && cs.u.empty())) return "empty-operand";
    if (((o.poss & 1) && cs.p > cs.s.size()) || ((o.poss & 2) && cs.q > cs.s.size())) return "position-beyond-end";
    if (o.pat && has_border(cs.t)) return "self-overlapping-pattern";
    if (((o.strs & 1) && has_high(cs.s)) || ((o.strs & 2) && has_high(cs.t)) || ((o.strs & 4) && has_high(cs.u))) return "high-bit-bytes";
    return "plain";
}
// second part of the input class: an operand object whose text is shorter than its buffer
static const char* cutsfx(const Case& cs) { return cs.cut ? "+shortened-operand" : ""; }
static void bad(vf::Ctx& c, const Case& cs, const S& what, const S& detail) {
    c.violation(S(OPS[cs.op].name) + "-wrong:" + what + ":" + cls(cs) + cutsfx(cs), detail);
}
// ---------------------------------------------------------------- objects whose text is shorter than their buffer
// which operand objects of an operation can be built that way (bit 1: the object made from s, 2: from t, 4: from u)
static int cut_mask(int op);
static char cut_sep(const S& text) {                     // a non-NUL byte that does not occur in the text (so the cut lands exactly behind it)
    static const unsigned char FIRST[] = { ';', 0x1e, '~', 0x02 };
    for (unsigned char b : FIRST) if (text.find((char) b) == S::npos) return (char) b;
    for (int b = 1; b < 256; b++) if (text.find((char) b) == S::npos) return (char) b;
    return 0;                                            // every byte value occurs: no separator, the object stays plain
}
static S cut_src(const Case& cs, const S& text, int bit) {
    char sep = (cs.cut & bit) ? cut_sep(text) : 0;
    return sep ? text + sep + cs.tail : text;
}
// o was constructed from cut_src(cs, text, bit): shorten it in place. The result of replace(sep, '\0') is not judged: if the object
// does not hold `text` afterwards the case goes on with a plain object (counted).
static void cut_apply(vf::Ctx& c, const Case& cs, SimpleString& o, const S& text, int bit) {
    if (!(cs.cut & bit)) return;
    char sep = cut_sep(text);
    if (!sep) { c.count("shortened_operand_no_separator_available"); return; }
    o.replace(sep, '\0');
    const char* g = o.asCharString();
    size_t cap = g_rec->size_of(g);
    size_t n = cap ? strnlen(g, cap) : 0;
    if (!cap || n == cap || n != text.size() || memcmp(g, text.data(), n) != 0) {
        c.count("silent_nul_character_operand"); c.count("shortened_operand_unexpected_result_not_judged_plain_object_used");
        CBuf b(text); o = SimpleString(b.p);
        return;
    }
    c.count("operand_objects_shortened_in_place");
    c.count(cap > n + 1 ? "operand_objects_text_shorter_than_buffer" : "operand_objects_shortened_but_buffer_exact");
    if (cap > n + 1) c.count("stale_bytes_behind_terminator", cap - n - 1);
}
// declares the SimpleString `var` holding `text`, plain or shortened in place as the case says
#define OBJ(var, text, bit) SimpleString var(cut_src(cs, text, bit).c_str()); cut_apply(c, cs, var, text, bit)
static bool expect_str(vf::Ctx& c, const Case& cs, const S& what, const SimpleString& got, const S& exp) {
    const char* g = got.asCharString();
    size_t gl = strlen(g);
    if (gl != exp.size() || memcmp(g, exp.data(), gl) != 0) { bad(c, cs, what, "got \"" + clip(S(g, gl)) + "\" (len " + std::to_string(gl) + ") expected \"" + clip(exp) + "\" (len " + std::to_string(exp.size()) + ")"); return false; }
    if (got.size() != exp.size()) { bad(c, cs, what + "/size", "size() = " + std::to_string(got.size()) + " but content has " + std::to_string(exp.size()) + " bytes"); return false; }
    if (got.isEmpty() != exp.empty()) { bad(c, cs, what + "/isEmpty", "isEmpty() disagrees with the content"); return false; }
    return true;
}
static void expect_bool(vf::Ctx& c, const Case& cs, const S& what, bool got, bool exp) {
    if (got != exp) bad(c, cs, what, S("got ") + (got ? "true" : "false") + " expected " + (exp ? "true" : "false"));
}
static void expect_num(vf::Ctx& c, const Case& cs, const S& what, unsigned long long got, unsigned long long exp) {
    if (got != exp) bad(c, cs, what, "got " + zs((size_t) got) + " expected " + zs((size_t) exp));
}

static SimpleString vformat(const char* fmt, ...) {
    va_list ap; va_start(ap, fmt);
    SimpleString r = VStringFromFormat(fmt, ap);
    va_end(ap);
    return r;
}
static S ref_format(const char* fmt, ...) {
    va_list ap, ap2; va_start(ap, fmt); va_copy(ap2, ap);
    int n = vsnprintf(nullptr, 0, fmt, ap);
    va_end(ap);
    std::vector<char> b((size_t) (n < 0 ? 0 : n) + 1);
    vsnprintf(b.data(), b.size(), fmt, ap2);
    va_end(ap2);
    return S(b.data());   // C-string view
}
static void note_format_path(vf::Ctx& c, const S& result) { c.count(result.size() < 100 ? "format_fast_path_lt100" : "format_heap_path_ge100"); }

// ---------------------------------------------------------------- the operations
static void op_ctor(vf::Ctx& c, const Case& cs) {
    CBuf b(cs.s);
    { SimpleString x(b.p); expect_str(c, cs, "from-cstr", x, cs.s); if (x.asCharString() == b.p) bad(c, cs, "aliases-input", "object points into the caller's buffer"); }
    { SimpleString x; expect_str(c, cs, "default", x, ""); }
    { const char* np = nullptr; SimpleString x(np); expect_str(c, cs, "from-null", x, ""); }
    { expect_str(c, cs, "StringFrom(cstr)", StringFrom((const char*) b.p), cs.s); }
    { expect_str(c, cs, "StringFromOrNull", StringFromOrNull(b.p), cs.s); expect_str(c, cs, "StringFromOrNull(null)", StringFromOrNull(nullptr), "(null)"); }
    { std::string z(cs.s); expect_str(c, cs, "StringFrom(std::string)", StringFrom(z), cs.s); }
    { SimpleString x(b.p); expect_str(c, cs, "StringFrom(SimpleString)", StringFrom(x), cs.s); expect_str(c, cs, "source-changed", x, cs.s); }
    { expect_str(c, cs, "StringFrom(nullptr)", StringFrom(nullptr), "(null)"); }
}
static void op_repeat(vf::Ctx& c, const Case& cs) {
    CBuf b(cs.s);
    size_t n = cs.p;
    S exp; for (size_t i = 0; i < n; i++) exp += cs.s;
    SimpleString x(b.p, n);
    expect_str(c, cs, n == 0 ? "zero-times" : "n-times", x, exp);
}
static void op_copy(vf::Ctx& c, const Case& cs) {
    CBuf b(cut_src(cs, cs.s, 1));
    SimpleString a(b.p); cut_apply(c, cs, a, cs.s, 1);
    SimpleString cp(a);
    SimpleString d("zz");
    d = a;
    expect_str(c, cs, "copy-ctor", cp, cs.s); expect_str(c, cs, "assign", d, cs.s);
    if (cp.asCharString() == a.asCharString() || d.asCharString() == a.asCharString()) bad(c, cs, "shared-buffer", "copy shares the buffer of its source");
    SimpleString& ar = a; a = ar;
    expect_str(c, cs, "self-assign", a, cs.s);
    cp += "!"; d.replace((char) cs.c1, '#');
    expect_str(c, cs, "source-changed-by-copy", a, cs.s);
    expect_str(c, cs, "copy-append", cp, cs.s + "!");
    d = cp; d = a; d = d;
    expect_str(c, cs, "reassign", d, cs.s);
}
static void op_plus(vf::Ctx& c, const Case& cs) {
    CBuf ub(cs.u);
    OBJ(a, cs.s, 1); OBJ(b, cs.t, 2);
    expect_str(c, cs, "operator+", a + b, cs.s + cs.t);
    expect_str(c, cs, "source-changed", a, cs.s); expect_str(c, cs, "source-changed", b, cs.t);
    a += b; expect_str(c, cs, "+=object", a, cs.s + cs.t);
    a += ub.p; S m = cs.s + cs.t + cs.u; expect_str(c, cs, "+=cstr", a, m);
    expect_str(c, cs, "source-changed", b, cs.t);
    if (m.size() < 12000) { a += a; m += m; expect_str(c, cs, "+=self", a, m); }
    if (m.size() < 12000) { size_t off = cs.p % (m.size() + 1); a += a.asCharString() + off; m += m.substr(off); expect_str(c, cs, "+=own-tail", a, m); }
    SimpleString e; e += ""; expect_str(c, cs, "empty+=empty", e, "");
}
static void op_eq(vf::Ctx& c, const Case& cs) {
    OBJ(a, cs.s, 1); OBJ(b, cs.t, 2);
    expect_bool(c, cs, "==", a == b, cs.s == cs.t); expect_bool(c, cs, "==", b == a, cs.s == cs.t);
    expect_bool(c, cs, "!=", a != b, cs.s != cs.t);
    expect_bool(c, cs, "==self", a == a, true);
    bool nc = ref_lower(cs.s) == ref_lower(cs.t);
    expect_bool(c, cs, "equalsNoCase", a.equalsNoCase(b), nc); expect_bool(c, cs, "equalsNoCase", b.equalsNoCase(a), nc);
    expect_str(c, cs, "source-changed", a, cs.s); expect_str(c, cs, "source-changed", b, cs.t);
}
static void op_contains(vf::Ctx& c, const Case& cs) {
    OBJ(a, cs.s, 1); OBJ(b, cs.t, 2);
    const S &s = cs.s, &t = cs.t;
    expect_bool(c, cs, "contains", a.contains(b), s.find(t) != S::npos);
    expect_bool(c, cs, "containsNoCase", a.containsNoCase(b), ref_lower(s).find(ref_lower(t)) != S::npos);
    expect_bool(c, cs, "startsWith", a.startsWith(b), t.size() <= s.size() && s.compare(0, t.size(), t) == 0);
    expect_bool(c, cs, "endsWith", a.endsWith(b), t.size() <= s.size() && s.compare(s.size() - t.size(), t.size(), t) == 0);
    expect_bool(c, cs, "contains-self", a.contains(a), true); expect_bool(c, cs, "startsWith-self", a.startsWith(a), true); expect_bool(c, cs, "endsWith-self", a.endsWith(a), true);
    expect_str(c, cs, "source-changed", a, s); expect_str(c, cs, "source-changed", b, t);
}
static void op_count(vf::Ctx& c, const Case& cs) {
    OBJ(a, cs.s, 1); OBJ(b, cs.t, 2);
    size_t got = a.count(b);
    if (cs.t.empty()) { c.count("silent_count_empty_pattern"); return; }
    size_t ov = ref_count(cs.s, cs.t, true), no = ref_count(cs.s, cs.t, false);
    if (ov != no) {
        c.count("silent_count_overlapping_ambiguous");
        if (got != ov && got != no) c.violation(S("count-wrong:neither-overlapping-nor-disjoint") + cutsfx(cs), "got " + std::to_string(got) + ", overlapping count " + std::to_string(ov) + ", disjoint count " + std::to_string(no));
        return;
    }
    expect_num(c, cs, "count", got, ov);
}
static void op_find(vf::Ctx& c, const Case& cs) {
    OBJ(a, cs.s, 1);
    const S& s = cs.s; char ch = (char) cs.c1;
    size_t g1 = a.find(ch), g2 = a.findFrom(cs.p, ch);
    if (cs.c1 == 0) c.count("silent_nul_character_operand");
    else {
        size_t e1 = s.find(ch), e2 = cs.p >= s.size() ? S::npos : s.find(ch, cs.p);
        expect_num(c, cs, "find", g1, e1 == S::npos ? NPOS : e1);
        expect_num(c, cs, "findFrom", g2, e2 == S::npos ? NPOS : e2);
    }
    size_t i = cs.q % (s.size() + 1);     // at(): positions 0..size (size reads the terminator); beyond is the caller's error, like operator[]
    char gc = a.at(i);
    if (gc != (i < s.size() ? s[i] : 0)) bad(c, cs, "at", "at(" + std::to_string(i) + ") = " + std::to_string((int) gc));
    expect_str(c, cs, "source-changed", a, s);
}
static void op_substr1(vf::Ctx& c, const Case& cs) {
    OBJ(a, cs.s, 1);
    expect_str(c, cs, "subString(pos)", a.subString(cs.p), cs.p >= cs.s.size() ? S() : cs.s.substr(cs.p));
    expect_str(c, cs, "source-changed", a, cs.s);
}
static void op_substr2(vf::Ctx& c, const Case& cs) {
    OBJ(a, cs.s, 1);
    expect_str(c, cs, "subString(pos,len)", a.subString(cs.p, cs.q), cs.p >= cs.s.size() ? S() : cs.s.substr(cs.p, cs.q));
    expect_str(c, cs, "source-changed", a, cs.s);
}
static void op_fromtill(vf::Ctx& c, const Case& cs) {
    OBJ(a, cs.s, 1);
    SimpleString got = a.subStringFromTill((char) cs.c1, (char) cs.c2);
    if (cs.c1 == 0 || cs.c2 == 0) { c.count("silent_nul_character_operand"); return; }
    if (cs.c1 == cs.c2) { c.count("silent_fromtill_same_char"); return; }
    size_t b = cs.s.find((char) cs.c1);
    S exp;
    if (b != S::npos) { size_t e = cs.s.find((char) cs.c2, b); exp = cs.s.substr(b, e == S::npos ? S::npos : e - b); }
    expect_str(c, cs, b == S::npos ? "no-start" : "from-start", got, exp);
    expect_str(c, cs, "source-changed", a, cs.s);
}
static void check_tokens(vf::Ctx& c, const Case& cs, const S& what, const S& s, const S& d, SimpleStringCollection& col) {
    if (d.empty()) { c.count("silent_split_empty_delimiter"); return; }
    std::vector<S> exp = ref_split(s, d);
    size_t n = col.size();
    if (s.empty()) {
        if (!(n == 0 || (n == 1 && strcmp(col[0].asCharString(), "") == 0))) bad(c, cs, what + "/empty-subject", "got " + std::to_string(n) + " tokens");
    } else {
        if (n != exp.size()) bad(c, cs, what + "/token-count", "got " + std::to_string(n) + " tokens, expected " + std::to_string(exp.size()));
        else for (size_t i = 0; i < n; i++) if (!expect_str(c, cs, what + "/token", col[i], exp[i])) break;
    }
    c.count("split_tokens_checked", n);
    expect_str(c, cs, what + "/index-beyond-size", col[n], ""); expect_str(c, cs, what + "/index-beyond-size", col[n + 7], ""); expect_str(c, cs, what + "/index-beyond-size", col[NPOS], "");
}
static void op_split(vf::Ctx& c, const Case& cs) {
    OBJ(a, cs.s, 1); OBJ(d1, cs.t, 2); OBJ(d2, cs.u, 4);
    SimpleStringCollection col;
    expect_num(c, cs, "fresh-collection-size", col.size(), 0);
    a.split(d1, col);
    check_tokens(c, cs, "split", cs.s, cs.t, col);
    a.split(d2, col);                                     // re-use of a filled collection
    check_tokens(c, cs, "split-again", cs.s, cs.u, col);
    expect_str(c, cs, "source-changed", a, cs.s); expect_str(c, cs, "source-changed", d1, cs.t);
}
static void op_replace_ch(vf::Ctx& c, const Case& cs) {
    OBJ(a, cs.s, 1);
    a.replace((char) cs.c1, (char) cs.c2);
    if (cs.c1 == 0 || cs.c2 == 0) { c.count("silent_nul_character_operand"); return; }
    S exp = cs.s; for (char& ch : exp) if (ch == (char) cs.c1) ch = (char) cs.c2;
    expect_str(c, cs, "replace(char,char)", a, exp);
}
static void op_replace_str(vf::Ctx& c, const Case& cs) {
    CBuf tb(cs.t), ub(cs.u);
    OBJ(a, cs.s, 1);
    a.replace(tb.p, ub.p);
    if (cs.t.empty()) { c.count("silent_replace_empty_pattern"); return; }
    S exp = ref_replace(cs.s, cs.t, cs.u);
    c.count("replace_occurrences", ref_count(cs.s, cs.t, false));
    if (expect_str(c, cs, "replace(str,str)", a, exp)) {
        // and once more on the result (history of two replacements on one object)
        a.replace(ub.p, tb.p);
        if (!cs.u.empty()) expect_str(c, cs, "replace-back", a, ref_replace(exp, cs.u, cs.t));
    }
}
static void op_lower(vf::Ctx& c, const Case& cs) {
    OBJ(a, cs.s, 1);
    expect_str(c, cs, "lowerCase", a.lowerCase(), ref_lower(cs.s));
    expect_str(c, cs, "source-changed", a, cs.s);
}
static void op_printable(vf::Ctx& c, const Case& cs) {
    CBuf b(cs.s), b2(cut_src(cs, cs.s, 1));
    SimpleString a(b2.p); cut_apply(c, cs, a, cs.s, 1);
    unsigned raw = 0, esc = 0;
    {
        SimpleString p = a.printable();
        S why = printable_check(cs.s, S(p.asCharString()), raw, esc);
        if (!why.empty()) c.violation(S("printable-wrong:") + printable_class(cs.s) + cutsfx(cs), why + "; got \"" + clip(p.asCharString()) + "\"");
        else if (p.size() != strlen(p.asCharString())) bad(c, cs, "size", "size() disagrees with content");
    }
    {
        SimpleString p = PrintableStringFromOrNull(b.p);
        unsigned r2 = 0, e2 = 0;
        S why = printable_check(cs.s, S(p.asCharString()), r2, e2);
        if (!why.empty()) c.violation(S("PrintableStringFromOrNull-wrong:") + printable_class(cs.s), why);
        expect_str(c, cs, "PrintableStringFromOrNull(null)", PrintableStringFromOrNull(nullptr), "(null)");
    }
    c.count("printable_highbit_bytes_raw", raw); c.count("printable_highbit_bytes_escaped", esc);
    expect_str(c, cs, "source-changed", a, cs.s);
}
static void op_pad(vf::Ctx& c, const Case& cs) {
    OBJ(a, cs.s, 1); OBJ(b, cs.t, 2);
    char ch = (char) cs.c1;
    SimpleString::padStringsToSameLength(a, b, ch);
    S ea = cs.s, eb = cs.t;
    if (ea.size() < eb.size()) ea = S(eb.size() - ea.size(), ch) + ea; else eb = S(ea.size() - eb.size(), ch) + eb;
    expect_str(c, cs, "first", a, ea); expect_str(c, cs, "second", b, eb);
    SimpleString::padStringsToSameLength(a, a, ch);
    expect_str(c, cs, "same-object", a, ea);
}
static void op_copytobuf(vf::Ctx& c, const Case& cs) {
    OBJ(a, cs.s, 1);
    size_t bs = cs.q; const S& s = cs.s;
    const unsigned char FILL = 0x5A;
    if (cs.k % 3 == 0) {
        // exact-size heap block: any byte beyond bufferSize is an ASan report
        char* buf = (char*) malloc(bs ? bs : 1); memset(buf, FILL, bs ? bs : 1);
        a.copyToBuffer(buf, bs);
        if (bs == 0) { if ((unsigned char) buf[0] != FILL) bad(c, cs, "wrote-with-size-0", "buffer of size 0 was written"); }
        else {
            size_t n = std::min(bs - 1, s.size());
            if (memcmp(buf, s.data(), n) != 0 || buf[n] != 0) bad(c, cs, "content", "copied bytes or terminator wrong (bufferSize " + std::to_string(bs) + ")");
            for (size_t i = n + 1; i < bs; i++) if ((unsigned char) buf[i] != FILL && buf[i] != 0) { bad(c, cs, "junk-after-terminator", "byte " + std::to_string(i)); break; }
        }
        free(buf);
    } else if (cs.k % 3 == 1) {
        // larger block with a canary after bufferSize: a write beyond the size is reported by content
        std::vector<unsigned char> buf(bs + 24, FILL);
        a.copyToBuffer((char*) buf.data(), bs);
        for (size_t i = bs; i < buf.size(); i++) if (buf[i] != FILL) { c.violation(S("copyToBuffer-wrong:wrote-beyond-bufferSize") + cutsfx(cs), "byte at offset " + std::to_string(i) + " changed, bufferSize " + std::to_string(bs) + ", string length " + std::to_string(s.size())); break; }
        if (bs) { size_t n = std::min(bs - 1, s.size()); if (memcmp(buf.data(), s.data(), n) != 0 || buf[n] != 0) bad(c, cs, "content", "copied bytes or terminator wrong (bufferSize " + std::to_string(bs) + ")"); }
    } else {
        a.copyToBuffer(nullptr, bs);          // NULL destination: nothing to do
        c.count("copyToBuffer_null_destination");
    }
    expect_str(c, cs, "source-changed", a, s);
}
static void op_strcmp(vf::Ctx& c, const Case& cs) {
    CBuf a(cs.s), b(cs.t);
    if (sgn(SimpleString::StrCmp(a.p, b.p)) != sgn(strcmp(a.p, b.p))) bad(c, cs, "sign", "StrCmp sign differs from strcmp");
    if (sgn(SimpleString::StrCmp(b.p, a.p)) != sgn(strcmp(b.p, a.p))) bad(c, cs, "sign", "StrCmp sign differs from strcmp (swapped)");
    if (SimpleString::StrCmp(a.p, a.p) != 0) bad(c, cs, "self", "StrCmp(x,x) != 0");
}
static void op_strlen(vf::Ctx& c, const Case& cs) {
    CBuf a(cs.s);
    expect_num(c, cs, "StrLen", SimpleString::StrLen(a.p), cs.s.size());
}
static void op_strncmp(vf::Ctx& c, const Case& cs) {
    CBuf a(cs.s), b(cs.t);
    size_t n = cs.p;
    int g = SimpleString::StrNCmp(a.p, b.p, n), e = strncmp(a.p, b.p, n);
    if (sgn(g) != sgn(e)) bad(c, cs, "sign", "StrNCmp(n=" + zs(n) + ") = " + std::to_string(g) + ", strncmp = " + std::to_string(e));
    g = SimpleString::StrNCmp(b.p, a.p, n); e = strncmp(b.p, a.p, n);
    if (sgn(g) != sgn(e)) bad(c, cs, "sign", "StrNCmp swapped (n=" + zs(n) + ") = " + std::to_string(g) + ", strncmp = " + std::to_string(e));
}
static void op_strncpy(vf::Ctx& c, const Case& cs) {
    CBuf a(cs.s);
    size_t n = cs.p; if (n > cs.s.size() + 64) n = cs.s.size() + 64;     // the destination must exist
    const unsigned char FILL = 0x5A;
    unsigned char* d = (unsigned char*) malloc(n ? n : 1); memset(d, FILL, n ? n : 1);
    char* r = SimpleString::StrNCpy((char*) d, a.p, n);
    if (r != (char*) d) bad(c, cs, "return", "does not return the destination");
    size_t m = std::min(n, cs.s.size() + 1);
    if (n == 0) { if (d[0] != FILL) bad(c, cs, "wrote-with-n-0", "n = 0 but destination written"); }
    else {
        if (memcmp(d, a.p, m) != 0) bad(c, cs, "content", "first " + std::to_string(m) + " bytes differ from the source (n=" + std::to_string(n) + ")");
        for (size_t i = m; i < n; i++) if (d[i] != FILL && d[i] != 0) { bad(c, cs, "junk-after-terminator", "byte " + std::to_string(i)); break; }
    }
    free(d);
    if (SimpleString::StrNCpy(nullptr, a.p, n) != nullptr) bad(c, cs, "null-destination", "NULL destination not returned");
}
static void op_strstr(vf::Ctx& c, const Case& cs) {
    CBuf a(cs.s), b(cs.t);
    const char* g = SimpleString::StrStr(a.p, b.p); const char* e = strstr(a.p, b.p);
    if (g != e) bad(c, cs, "pointer", S("StrStr = ") + (g ? "offset " + std::to_string(g - a.p) : S("NULL")) + ", strstr = " + (e ? "offset " + std::to_string(e - a.p) : S("NULL")));
}
static void op_memcmp(vf::Ctx& c, const Case& cs) {
    size_t n = std::min(cs.s.size(), cs.t.size());
    BBuf a(cs.s.substr(0, n)), b(cs.t.substr(0, n));
    int g = SimpleString::MemCmp(a.p, b.p, n), e = memcmp(a.p, b.p, n);
    if (sgn(g) != sgn(e)) bad(c, cs, "sign", "MemCmp = " + std::to_string(g) + ", memcmp = " + std::to_string(e));
    if (SimpleString::MemCmp(a.p, a.p, n) != 0) bad(c, cs, "self", "MemCmp(x,x) != 0");
    if (SimpleString::MemCmp(a.p, b.p, 0) != 0) bad(c, cs, "n-0", "MemCmp(..., 0) != 0");
}
static void op_atoi(vf::Ctx& c, const Case& cs) {
    CBuf a(cs.s);
    errno = 0; long long e = strtoll(a.p, nullptr, 10);
    bool representable = errno == 0 && e >= -(long long) INT_MAX && e <= INT_MAX;
    if (!representable) { c.count("silent_atoi_unrepresentable"); (void) SimpleString::AtoI(a.p); return; }
    int g = SimpleString::AtoI(a.p);
    if (g != (int) e) bad(c, cs, "value", "AtoI = " + std::to_string(g) + ", strtol = " + std::to_string(e));
}
static void op_atou(vf::Ctx& c, const Case& cs) {
    CBuf a(cs.s);
    unsigned g = SimpleString::AtoU(a.p);
    const char* q = a.p; while (*q == ' ' || (*q >= 9 && *q <= 13)) q++;
    if (*q == '+' || *q == '-') { c.count("silent_atou_sign_prefix"); return; }
    errno = 0; unsigned long long e = strtoull(a.p, nullptr, 10);
    if (errno != 0 || e > UINT_MAX) { c.count("silent_atou_unrepresentable"); return; }
    if (g != (unsigned) e) bad(c, cs, "value", "AtoU = " + std::to_string(g) + ", strtoul = " + std::to_string(e));
}
static void op_tolower(vf::Ctx& c, const Case& cs) {
    char ch = (char) cs.c1;
    char e = (ch >= 'A' && ch <= 'Z') ? (char) (ch + 32) : ch;
    char g = SimpleString::ToLower(ch);
    if (g != e) c.violation(S("ToLower-wrong:") + ((unsigned char) ch >= 0x80 ? "high-bit-byte" : (ch >= 'A' && ch <= 'Z') ? "upper" : "other"), "ToLower(" + std::to_string((int) (unsigned char) ch) + ") = " + std::to_string((int) (unsigned char) g));
}

// ---------------------------------------------------------------- formatting
#pragma GCC diagnostic ignored "-Wformat-security"
#pragma GCC diagnostic ignored "-Wformat-nonliteral"
static void op_format(vf::Ctx& c, const Case& cs) {
    CBuf sb(cs.s), tb(cs.t);
    const char* s = sb.p; const char* t = tb.p;
    int iv = (int) cs.v1; unsigned long ul = (unsigned long) cs.v2; int w = (int) (cs.p % 131); int pr = (int) (cs.q % 9);
    char ch1 = cs.c1 ? (char) cs.c1 : 'x', ch2 = cs.c2 ? (char) cs.c2 : 'y';
    S exp; S what;
    SimpleString got;
    switch (cs.k % 9) {
    case 0: what = "%s"; got = StringFromFormat("%s", s); exp = ref_format("%s", s); break;
    case 1: what = "[%s|%s]"; got = StringFromFormat("[%s|%s]", s, t); exp = ref_format("[%s|%s]", s, t); break;
    case 2: what = "%d:%s"; got = StringFromFormat("%d:%s", iv, s); exp = ref_format("%d:%s", iv, s); break;
    case 3: what = "%*s"; got = StringFromFormat("%*s", w, s); exp = ref_format("%*s", w, s); break;
    case 4: what = "%lu%%%s"; got = StringFromFormat("%lu%%%s", ul, s); exp = ref_format("%lu%%%s", ul, s); break;
    case 5: what = "%.*s"; got = StringFromFormat("%.*s<%-*s>", pr, s, w, t); exp = ref_format("%.*s<%-*s>", pr, s, w, t); break;
    case 6: what = "%c%c"; got = StringFromFormat("%c%s%c", ch1, s, ch2); exp = ref_format("%c%s%c", ch1, s, ch2); break;
    case 7: {   // the string itself as a format without arguments
        what = "literal";
        S f; for (char ch : cs.s) { f += ch; if (ch == '%') f += '%'; }
        CBuf fb(f);
        got = StringFromFormat(fb.p); exp = cs.s; break;
    }
    default: what = "VStringFromFormat"; got = vformat("%s/%d/%s", s, iv, t); exp = ref_format("%s/%d/%s", s, iv, t); break;
    }
    note_format_path(c, exp);
    if (!expect_str(c, cs, exp.size() < 100 ? "result-lt100" : "result-ge100", got, exp)) c.count("format_mismatch_template_" + what);
}
static void op_numfmt(vf::Ctx& c, const Case& cs) {
    uint64_t v = cs.v1;
    S w; S exp; SimpleString got;
    auto chk = [&](const S& what, const SimpleString& g, const S& e) { expect_str(c, cs, what, g, e); };
    switch (cs.k % 14) {
    case 0: chk("StringFrom(int)", StringFrom((int) v), ref_format("%d", (int) v)); chk("HexStringFrom(int)", HexStringFrom((int) v), ref_format("%x", (unsigned) (int) v));
            chk("Brackets(int)", BracketsFormattedHexStringFrom((int) v), ref_format("(0x%x)", (unsigned) (int) v)); break;
    case 1: chk("StringFrom(unsigned)", StringFrom((unsigned) v), ref_format("%u", (unsigned) v)); chk("HexStringFrom(unsigned)", HexStringFrom((unsigned) v), ref_format("%x", (unsigned) v));
            chk("Brackets(unsigned)", BracketsFormattedHexStringFrom((unsigned) v), ref_format("(0x%x)", (unsigned) v)); break;
    case 2: chk("StringFrom(long)", StringFrom((long) v), ref_format("%ld", (long) v)); chk("HexStringFrom(long)", HexStringFrom((long) v), ref_format("%lx", (unsigned long) v));
            chk("Brackets(long)", BracketsFormattedHexStringFrom((long) v), ref_format("(0x%lx)", (unsigned long) v)); break;
    case 3: chk("StringFrom(unsigned long)", StringFrom((unsigned long) v), ref_format("%lu", (unsigned long) v)); chk("HexStringFrom(unsigned long)", HexStringFrom((unsigned long) v), ref_format("%lx", (unsigned long) v));
            chk("Brackets(unsigned long)", BracketsFormattedHexStringFrom((unsigned long) v), ref_format("(0x%lx)", (unsigned long) v)); break;
    case 4: chk("StringFrom(long long)", StringFrom((long long) v), ref_format("%lld", (long long) v)); chk("HexStringFrom(long long)", HexStringFrom((long long) v), ref_format("%llx", (unsigned long long) v));
            chk("Brackets(long long)", BracketsFormattedHexStringFrom((long long) v), ref_format("(0x%llx)", (unsigned long long) v)); break;
    case 5: chk("StringFrom(unsigned long long)", StringFrom((unsigned long long) v), ref_format("%llu", (unsigned long long) v)); chk("HexStringFrom(unsigned long long)", HexStringFrom((unsigned long long) v), ref_format("%llx", (unsigned long long) v));
            chk("Brackets(unsigned long long)", BracketsFormattedHexStringFrom((unsigned long long) v), ref_format("(0x%llx)", (unsigned long long) v)); break;
    case 6: { signed char sc = (signed char) v; chk("HexStringFrom(signed char)", HexStringFrom(sc), ref_format("%x", (unsigned) (unsigned char) sc)); chk("Brackets(signed char)", BracketsFormattedHexStringFrom(sc), ref_format("(0x%x)", (unsigned) (unsigned char) sc)); break; }
    case 7: chk("StringFrom(bool)", StringFrom((bool) (v & 1)), (v & 1) ? "true" : "false"); break;
    case 8: { char ch = (char) (v % 255 + 1); chk("StringFrom(char)", StringFrom(ch), S(1, ch)); break; }
    case 9: { const void* p = (const void*) (uintptr_t) v; chk("StringFrom(pointer)", StringFrom(p), ref_format("0x%llx", (unsigned long long) (uintptr_t) v)); chk("HexStringFrom(pointer)", HexStringFrom(p), ref_format("%llx", (unsigned long long) (uintptr_t) v)); break; }
    case 10: { void (*f)() = reinterpret_cast<void (*)()>((uintptr_t) v); chk("StringFrom(function pointer)", StringFrom(f), ref_format("0x%llx", (unsigned long long) (uintptr_t) v)); chk("HexStringFrom(function pointer)", HexStringFrom(f), ref_format("%llx", (unsigned long long) (uintptr_t) v)); break; }
    case 11: case 12: {
        double d = cs.d; int prec = (int) (cs.p % 18);
        SimpleString g1 = StringFrom(d), g2 = StringFrom(d, prec);
        if (std::isnan(d) || std::isinf(d)) { c.count("silent_double_non_finite"); break; }
        chk("StringFrom(double)", g1, ref_format("%.6g", d)); chk("StringFrom(double,precision)", g2, ref_format("%.*g", prec, d)); break;
    }
    default: chk("BracketsFormattedHexString", BracketsFormattedHexString(SimpleString(cs.s.c_str())), "(0x" + cs.s + ")"); break;
    }
}
static S ref_binary(const S& bytes, size_t n) {
    S o; char b[4];
    for (size_t i = 0; i < n; i++) { snprintf(b, sizeof b, "%02X", (unsigned) (unsigned char) bytes[i]); if (i) o += ' '; o += b; }
    return o;
}
static void op_binary(vf::Ctx& c, const Case& cs) {
    BBuf b(cs.s);
    size_t n = cs.s.size();
    S what = n == 0 ? "/size-0" : n > 128 ? "/gt128" : "";
    S full = ref_binary(cs.s, n);
    S ws = "Size = " + std::to_string((unsigned) n) + " | HexContents = " + ref_binary(cs.s, std::min<size_t>(n, 128)) + (n > 128 ? " ..." : "");
    switch (cs.k % 4) {
    case 0: expect_str(c, cs, "StringFromBinary" + what, StringFromBinary(b.p, n), full); break;
    case 1: expect_str(c, cs, "StringFromBinaryOrNull" + what, StringFromBinaryOrNull(b.p, n), full); expect_str(c, cs, "StringFromBinaryOrNull(null)", StringFromBinaryOrNull(nullptr, n), "(null)"); break;
    case 2: expect_str(c, cs, "StringFromBinaryWithSize" + what, StringFromBinaryWithSize(b.p, n), ws); break;
    default: expect_str(c, cs, "StringFromBinaryWithSizeOrNull" + what, StringFromBinaryWithSizeOrNull(b.p, n), ws); expect_str(c, cs, "StringFromBinaryWithSizeOrNull(null)", StringFromBinaryWithSizeOrNull(nullptr, n), "(null)"); break;
    }
    note_format_path(c, cs.k % 4 < 2 ? full : ws);
}
static void op_masked(vf::Ctx& c, const Case& cs) {
    size_t bc = (size_t) cs.k;                   // 1..10; byte count 0 is never generated (DESIGN section 5)
    size_t bits = (bc > 8 ? 8 : bc) * 8;
    S exp;
    for (size_t i = 0; i < bits; i++) {
        size_t bit = bits - 1 - i;
        exp += ((cs.v2 >> bit) & 1) ? (((cs.v1 >> bit) & 1) ? '1' : '0') : 'x';
        if (i % 8 == 7 && i != bits - 1) exp += ' ';
    }
    expect_str(c, cs, bc > 8 ? "bytes-gt-8" : "bytes-1-8", StringFromMaskedBits((unsigned long) cs.v1, (unsigned long) cs.v2, bc), exp);
}
static void op_ordinal(vf::Ctx& c, const Case& cs) {
    unsigned n = (unsigned) cs.v1;
    const char* suf = "th";
    unsigned h = n % 100, o = n % 10;
    if (h < 11 || h > 13) { if (o == 1) suf = "st"; else if (o == 2) suf = "nd"; else if (o == 3) suf = "rd"; }
    S exp = std::to_string(n) + suf;
    SimpleString g = StringFromOrdinalNumber(n);
    if (exp != g.asCharString()) c.violation(S("ordinal-wrong:") + ((h >= 11 && h <= 13) ? (n > 100 ? "teens-above-100" : "teens") : "regular"), S("got ") + g.asCharString() + " expected " + exp);
}

typedef void (*OpFn)(vf::Ctx&, const Case&);
static const OpFn OPFN[OP_N] = {
    op_ctor, op_repeat, op_copy, op_plus, op_eq, op_contains, op_count, op_find, op_substr1, op_substr2, op_fromtill,
    op_split, op_replace_ch, op_replace_str, op_lower, op_printable, op_pad, op_copytobuf,
    op_strcmp, op_strlen, op_strncmp, op_strncpy, op_strstr, op_memcmp, op_atoi, op_atou, op_tolower,
    op_format, op_numfmt, op_binary, op_masked, op_ordinal,
};

static int cut_mask(int op) {
    switch (op) {
    case OP_PLUS: case OP_EQ: case OP_CONTAINS: case OP_COUNT: case OP_PAD: return 3;
    case OP_SPLIT: return 7;
    case OP_COPY: case OP_FIND: case OP_SUBSTR1: case OP_SUBSTR2: case OP_FROMTILL: case OP_REPLACE_CH: case OP_REPLACE_STR: case OP_LOWER: case OP_PRINTABLE: case OP_COPYTOBUF: return 1;
    default: return 0;      // no SimpleString operand (primitives, formatters), or the operand is the caller's C string
    }
}
// the property's non-trivial rule: a position beyond the end, an empty operand, a self-overlapping pattern or a byte >= 0x80
static bool nontrivial_case(const Case& cs) { return strcmp(cls(cs), "plain") != 0; }
static S case_sig(const Case& cs) {
    char b[200];
    snprintf(b, sizeof b, "%d|%016llx|%016llx|%016llx|%zu|%zu|%d|%d|%llu|%llu|%d", cs.op, (unsigned long long) vf::fnv(cs.s), (unsigned long long) vf::fnv(cs.t), (unsigned long long) vf::fnv(cs.u),
             cs.p, cs.q, cs.c1, cs.c2, (unsigned long long) cs.v1, (unsigned long long) cs.v2, cs.k);
    if (cs.cut) { char e[48]; snprintf(e, sizeof e, "|cut%d|%016llx", cs.cut, (unsigned long long) vf::fnv(cs.tail)); return S(b) + e; }
    return b;
}
// run one operation case: ledger reset, real code + oracle inside a scope, quiescence check
static void run_op(vf::Ctx& c, const Case& cs) {
    case_start(c, OPS[cs.op].name);
    OPFN[cs.op](c, cs);
    c.count(S("op_") + OPS[cs.op].name);
    c.count(S("class_") + cls(cs));
    if (cs.cut) { c.count(S("op_on_shortened_operand_") + OPS[cs.op].name); c.count("cases_with_shortened_operand"); }
}
static void run_case(vf::Ctx& c, const Case& cs) {
    c.begin([=] { return case_json(cs); });
    run_op(c, cs);
    case_end(c);
    if (nontrivial_case(cs)) c.nontrivial(case_sig(cs));
}

static int pick_op(vf::Rng& r) {
    static int total = 0;
    if (!total) for (int i = 0; i < OP_N; i++) total += OPS[i].weight;
    int k = (int) r.below((uint64_t) total);
    for (int i = 0; i < OP_N; i++) { if (k < OPS[i].weight) return i; k -= OPS[i].weight; }
    return 0;
}
static Case gen_case(vf::Rng& r, bool lng) {
    Case cs; cs.lng = lng;
    cs.op = pick_op(r);
    int ai = (int) r.below(NALPHA);
    if (cs.op == OP_ATOI || cs.op == OP_ATOU) ai = r.chance(80) ? 3 : ai;
    if ((cs.op == OP_PRINTABLE) && r.chance(60)) ai = r.chance(50) ? 2 : 4;
    if ((cs.op == OP_LOWER || cs.op == OP_EQ) && r.chance(50)) ai = r.chance(50) ? 1 : 5;
    const S& al = ALPHA[ai];
    const OpInfo& o = OPS[cs.op];
    bool l = lng;
    if (o.strs & 1) cs.s = gen_str(r, al, l);
    if (o.strs & 2) cs.t = gen_related(r, cs.s, al, l);
    if (o.strs & 4) cs.u = r.chance(60) ? gen_short(r, al, 4) : gen_related(r, cs.s, al, l);
    cs.p = gen_pos(r, cs.s.size()); cs.q = gen_pos(r, cs.s.size());
    cs.c1 = gen_ch(r, cs.s, al, true); cs.c2 = gen_ch(r, cs.s, al, true);
    cs.v1 = gen_u64(r); cs.v2 = gen_u64(r); cs.k = (int) r.below(1000);
    switch (cs.op) {
    case OP_REPEAT: cs.p = cs.s.empty() ? r.below(300) : lng ? r.below(4) : r.below(7); break;
    case OP_PAD: if (cs.c1 == 0) cs.c1 = ' '; break;
    case OP_SPLIT: if (cs.s.size() > 1500) cs.s.resize(1500); break;     // split is quadratic in the subject (it copies the rest per token): keep a case in the millisecond range
    case OP_COPYTOBUF: cs.q = r.chance(10) ? cs.s.size() + 1 : r.below(cs.s.size() + 4); break;
    case OP_STRNCPY: cs.p = r.chance(10) ? cs.s.size() + 1 : r.below(cs.s.size() + 4); break;
    case OP_EQ: if (r.chance(30)) { cs.t = cs.s; for (char& ch : cs.t) if (r.chance(40)) { if (ch >= 'a' && ch <= 'z') ch = (char) (ch - 32); else if (ch >= 'A' && ch <= 'Z') ch = (char) (ch + 32); } } break;
    case OP_STRCMP: case OP_STRNCMP: if (r.chance(40) && !cs.s.empty()) { cs.t = cs.s; cs.t[r.below(cs.t.size())] = (char) (1 + r.below(255)); } break;
    case OP_MEMCMP: { cs.t = cs.s; for (char& ch : cs.s) if (r.chance(10)) ch = 0; for (char& ch : cs.t) if (r.chance(10)) ch = (char) r.below(256); break; }
    case OP_ATOI: case OP_ATOU:
        if (r.chance(50)) {   // a number with optional blanks / sign / junk around it
            S n; int bl = r.range(0, 2); for (int i = 0; i < bl; i++) n += " \t\n\v\f\r"[r.below(6)];
            if (r.chance(40)) n += "+-"[r.below(2)];
            switch (r.below(4)) { case 0: n += std::to_string(gen_u64(r)); break; case 1: n += std::to_string((unsigned) gen_u64(r)); break; case 2: n += std::to_string(INT_MAX - 2 + r.below(5)); break; default: n += S((size_t) r.below(4), '0') + std::to_string(r.below(100000)); }
            if (r.chance(40)) n += "a -+9\x80"[r.below(6)];
            cs.s = n;
        }
        break;
    case OP_TOLOWER: cs.c1 = (int) r.below(256); break;
    case OP_NUMFMT: {
        static const double DS[] = { 0.0, -0.0, 1.0, -1.5, 0.1, 1e-9, 123456789.0, 1e300, DBL_MAX, DBL_MIN, 4.9406564584124654e-324, 3.14159265358979, 1e6, 999999.5,
                                     std::numeric_limits<double>::infinity(), -std::numeric_limits<double>::infinity(), std::numeric_limits<double>::quiet_NaN() };
        cs.d = r.chance(50) ? DS[r.below(sizeof DS / sizeof DS[0])] : (double) (int64_t) gen_u64(r) / (double) (1 + r.below(1000));
        cs.s = gen_short(r, ALPHA[0]);
        break;
    }
    case OP_BINARY: {
        size_t n = lng ? (size_t) r.range(100, 400) : r.chance(20) ? (size_t) r.range(120, 135) : (size_t) r.range(0, 12);
        if (!lng && r.chance(10)) n = (size_t) r.range(30, 40);      // 33 bytes -> 99 characters, 34 -> 102: the 100-byte formatting boundary
        cs.s.clear(); for (size_t i = 0; i < n; i++) cs.s += (char) (r.chance(20) ? (r.chance(50) ? 0 : 0xff) : r.below(256));
        break;
    }
    case OP_MASKED: cs.k = r.range(1, 10); if (r.chance(30)) cs.v2 = ~0ull; break;
    case OP_ORDINAL: if (r.chance(60)) cs.v1 = (uint64_t) r.below(100) * 100 + 9 + r.below(6); break;
    case OP_FORMAT: if (!lng && r.chance(25)) cs.s = S((size_t) r.range(90, 110), 'q'); break;
    default: break;
    }
    // value class "text shorter than the buffer": drawn last, so that the rest of the case is the same with and without it
    int cm = cut_mask(cs.op);
    if (cm && r.chance(25)) {
        cs.cut = (int) (1 + r.below(7)) & cm; if (!cs.cut) cs.cut = 1;
        switch (r.below(5)) {                       // what stays behind the new terminator: related to the operands, so that a look at it changes the answer
        case 0: cs.tail = cs.t; break;
        case 1: cs.tail = cs.s.substr(0, 40); break;
        case 2: cs.tail = gen_related(r, cs.s, al, false).substr(0, 40); break;
        case 3: cs.tail = ""; break;                // one stale byte only (the former separator position is the terminator, the old terminator follows)
        default: cs.tail = gen_short(r, al, 6); break;
        }
        if (lng && r.chance(20)) cs.tail = gen_long(r, al).substr(0, 300);
    }
    return cs;
}
static void sec_ops_small(vf::Ctx& c) { run_case(c, gen_case(c.rng, false)); }
static void sec_ops_long(vf::Ctx& c) { run_case(c, gen_case(c.rng, true)); }

// ---------------------------------------------------------------- histories on a pool of three live objects
enum HKind { H_ASSIGN_CSTR, H_ASSIGN_OBJ, H_APPEND_OBJ, H_APPEND_CSTR, H_APPEND_TAIL, H_REPLACE_CH, H_REPLACE_STR, H_REPLACE_ALIAS, H_SUBSTR, H_SUBSTR1,
             H_LOWER, H_PRINTABLE, H_PLUS, H_RECREATE_CSTR, H_RECREATE_COPY, H_RECREATE_REPEAT, H_PAD, H_SPLIT_TAKE, H_FORMAT, H_COPYOUT, H_CUT, H_QUERY, H_N };
static const char* HNAME[H_N] = { "assign-cstr", "assign-object", "append-object", "append-cstr", "append-own-tail", "replace-char", "replace-str", "replace-aliased", "assign-subString2", "assign-subString1",
                                  "assign-lowerCase", "assign-printable", "assign-sum", "recreate-from-cstr", "recreate-from-copy", "recreate-repeat", "pad", "split-take-token", "assign-format", "copyToBuffer", "shorten-in-place", "queries" };
// which pool objects a step reads or writes (bit 1: i, 2: j, 4: k)
static int hop_uses(int kind) {
    switch (kind) {
    case H_ASSIGN_CSTR: case H_APPEND_CSTR: case H_APPEND_TAIL: case H_REPLACE_CH: case H_REPLACE_STR: case H_COPYOUT: case H_CUT: return 1;
    case H_RECREATE_CSTR: case H_RECREATE_REPEAT: return 1;
    case H_REPLACE_ALIAS: case H_PLUS: case H_SPLIT_TAKE: case H_FORMAT: return 7;
    default: return 3;
    }
}
// bytes of the object's buffer behind its terminator, seen from outside through the allocator ledger (0: the buffer fits the text)
static size_t slack_of(const SimpleString& o) {
    const char* g = o.asCharString(); size_t cap = g_rec->size_of(g);
    if (!cap) return 0;
    size_t n = strnlen(g, cap);
    return n + 1 < cap ? cap - n - 1 : 0;
}
struct HOp { int kind; int i, j, k; S a, b; size_t p, q; int c1, c2; };

static S hop_json(const HOp& h) {
    return vf::J().k("do", HNAME[h.kind]).k("i", h.i).k("j", h.j).k("k", h.k).k("a", clip(h.a)).k("b", clip(h.b)).k("p", zs(h.p)).k("q", zs(h.q)).k("c1", h.c1).k("c2", h.c2).str();
}
static std::vector<HOp> gen_history(vf::Rng& r, bool thorough, S init[3]) {
    const S& al = ALPHA[r.below(NALPHA)];
    for (int x = 0; x < 3; x++) init[x] = gen_short(r, al, 8);
    int n = r.range(1, 20);
    if (thorough && r.chance(10)) n = r.range(20, 60);
    std::vector<HOp> hs;
    for (int s = 0; s < n; s++) {
        HOp h; h.kind = (int) r.below(H_N); h.i = (int) r.below(3); h.j = (int) r.below(3); h.k = (int) r.below(3);
        h.a = gen_short(r, al, r.chance(85) ? 4 : 12); h.b = gen_short(r, al, 4);
        if (thorough && r.chance(3)) h.a = gen_long(r, al).substr(0, 40 + r.below(200));
        h.p = gen_pos(r, r.below(10)); h.q = gen_pos(r, r.below(10));
        h.c1 = gen_ch(r, h.a, al, false); h.c2 = gen_ch(r, h.b, al, false);
        hs.push_back(h);
    }
    return hs;
}
struct Pool {
    SimpleString* o[3]; S m[3];
};
static bool pool_check(vf::Ctx& c, Pool& P, const HOp& h, int step, const char* sfx) {
    for (int x = 0; x < 3; x++) {
        const char* g = P.o[x]->asCharString();
        if (!g_rec->is_live(g, 1)) { c.violation(S("history-object-buffer-not-live:after=") + HNAME[h.kind], "object " + std::to_string(x) + " step " + std::to_string(step)); return false; }
        size_t gl = strlen(g);
        if (gl != P.m[x].size() || memcmp(g, P.m[x].data(), gl) != 0) {
            c.violation(S("history-state-wrong:after=") + HNAME[h.kind] + sfx, "step " + std::to_string(step) + " object " + std::to_string(x) + " is \"" + clip(S(g, gl)) + "\" (len " + std::to_string(gl) + ") model \"" + clip(P.m[x]) + "\" (len " + std::to_string(P.m[x].size()) + ")");
            return false;
        }
        if (!g_rec->is_live(g, gl + 1)) { c.violation(S("history-buffer-smaller-than-content:after=") + HNAME[h.kind], "object " + std::to_string(x) + " step " + std::to_string(step)); return false; }
        size_t sz = P.o[x]->size(); bool em = P.o[x]->isEmpty();
        if (sz != gl || em != (gl == 0)) {
            c.violation(S("history-size-wrong:after=") + HNAME[h.kind] + (g_rec->size_of(g) > gl + 1 ? "+shortened-operand" : ""), "step " + std::to_string(step) + " object " + std::to_string(x) + " holds " + std::to_string(gl) + " bytes (buffer " + std::to_string(g_rec->size_of(g)) + "), size() = " + std::to_string(sz) + ", isEmpty() = " + (em ? "true" : "false"));
            return false;
        }
    }
    return true;
}
static void sec_history(vf::Ctx& c) {
    S init[3];
    std::vector<HOp> hs = gen_history(c.rng, c.thorough, init);
    S i0 = init[0], i1 = init[1], i2 = init[2];
    c.begin([=] { std::vector<S> v; for (const HOp& h : hs) v.push_back(hop_json(h)); return vf::J().k("init0", i0).k("init1", i1).k("init2", i2).raw("history", vf::jarr(v)).str(); });
    case_start(c, "history:init");
    const size_t LIMIT = c.thorough ? 8000 : 4000;
    bool feat_alias = false, feat_empty = false, feat_beyond = false, feat_border = false, feat_high = false, any_short = false;
    uint64_t sig = 0xcbf29ce484222325ull;
    {
        Pool P;
        for (int x = 0; x < 3; x++) { P.m[x] = init[x]; P.o[x] = new SimpleString(init[x].c_str()); }
        int step = 0;
        for (const HOp& h : hs) {
            step++;
            g_opname = S("history:") + HNAME[h.kind];
            SimpleString& I = *P.o[h.i]; SimpleString& Jo = *P.o[h.j]; SimpleString& K = *P.o[h.k];
            S& mi = P.m[h.i]; const S mj = P.m[h.j]; const S mk = P.m[h.k];      // copies: the model must not alias
            bool skipped = false;
            // operands whose text is shorter than their buffer (left behind by an earlier shorten-in-place step that no later step has re-allocated)
            int uses = hop_uses(h.kind);
            bool sh = ((uses & 1) && slack_of(I)) || ((uses & 2) && slack_of(Jo)) || ((uses & 4) && slack_of(K));
            const char* sfx = sh ? "+shortened-operand" : "";
            switch (h.kind) {
            case H_ASSIGN_CSTR: { CBuf b(h.a); I = b.p; mi = h.a; feat_empty |= h.a.empty(); break; }
            case H_ASSIGN_OBJ: I = Jo; mi = mj; feat_alias |= h.i == h.j; break;
            case H_APPEND_OBJ: if (mi.size() + mj.size() > LIMIT) { skipped = true; break; } I += Jo; mi += mj; feat_alias |= h.i == h.j; feat_empty |= mj.empty(); break;
            case H_APPEND_CSTR: { if (mi.size() + h.a.size() > LIMIT) { skipped = true; break; } CBuf b(h.a); I += b.p; mi += h.a; feat_empty |= h.a.empty(); break; }
            case H_APPEND_TAIL: { if (mi.size() * 2 > LIMIT) { skipped = true; break; } size_t off = h.p % (mi.size() + 1); I += I.asCharString() + off; mi += S(mi).substr(off); feat_alias = true; break; }
            case H_REPLACE_CH: I.replace((char) h.c1, (char) h.c2); for (char& ch : mi) if (ch == (char) h.c1) ch = (char) h.c2; break;
            case H_REPLACE_STR: {
                if (h.a.empty()) { skipped = true; break; }
                S e = ref_replace(mi, h.a, h.b); if (e.size() > LIMIT) { skipped = true; break; }
                CBuf a(h.a), b(h.b); I.replace(a.p, b.p); mi = e; feat_border |= has_border(h.a); feat_empty |= h.b.empty(); break;
            }
            case H_REPLACE_ALIAS: {
                if (mj.empty()) { skipped = true; break; }
                S e = ref_replace(mi, mj, mk); if (e.size() > LIMIT) { skipped = true; break; }
                I.replace(Jo.asCharString(), K.asCharString()); mi = e; feat_alias |= (h.i == h.j || h.i == h.k); feat_border |= has_border(mj); feat_empty |= mk.empty(); break;
            }
            case H_SUBSTR: I = Jo.subString(h.p, h.q); mi = h.p >= mj.size() ? S() : mj.substr(h.p, h.q); feat_beyond |= (h.p > mj.size() || h.q > mj.size()); feat_alias |= h.i == h.j; break;
            case H_SUBSTR1: I = Jo.subString(h.p); mi = h.p >= mj.size() ? S() : mj.substr(h.p); feat_beyond |= h.p > mj.size(); feat_alias |= h.i == h.j; break;
            case H_LOWER: I = Jo.lowerCase(); mi = ref_lower(mj); break;
            case H_PRINTABLE: {
                if (mj.size() * 4 > LIMIT) { skipped = true; break; }
                I = Jo.printable();
                S got(I.asCharString()); unsigned r1 = 0, r2 = 0;
                S why = printable_check(mj, got, r1, r2);
                if (!why.empty()) c.violation(S("printable-wrong:") + printable_class(mj) + sfx, "in history step " + std::to_string(step) + ": " + why);
                mi = got;     // two renderings of high-bit bytes are acceptable: the model follows the accepted one
                break;
            }
            case H_PLUS: if (mj.size() + mk.size() > LIMIT) { skipped = true; break; } I = Jo + K; mi = mj + mk; feat_alias |= (h.i == h.j || h.i == h.k); feat_empty |= (mj.empty() || mk.empty()); break;
            case H_RECREATE_CSTR: { CBuf b(h.a); delete P.o[h.i]; P.o[h.i] = new SimpleString(b.p); mi = h.a; break; }
            case H_RECREATE_COPY: { SimpleString* t = new SimpleString(Jo); delete P.o[h.i]; P.o[h.i] = t; mi = mj; break; }
            case H_RECREATE_REPEAT: { size_t n = h.p % 5; CBuf b(h.a); delete P.o[h.i]; P.o[h.i] = new SimpleString(b.p, n); S e; for (size_t x = 0; x < n; x++) e += h.a; mi = e; feat_empty |= (n == 0 || h.a.empty()); break; }
            case H_PAD: {
                SimpleString::padStringsToSameLength(I, Jo, (char) h.c1);
                if (h.i != h.j) { S& mj2 = P.m[h.j]; if (mi.size() < mj2.size()) mi = S(mj2.size() - mi.size(), (char) h.c1) + mi; else mj2 = S(mi.size() - mj2.size(), (char) h.c1) + mj2; }
                feat_alias |= h.i == h.j; break;
            }
            case H_SPLIT_TAKE: {
                if (mk.empty() || mj.empty() || mj.size() > 1500) { skipped = true; break; }
                SimpleStringCollection col;
                Jo.split(K, col);
                std::vector<S> e = ref_split(mj, mk);
                if (col.size() != e.size()) { c.violation(S("history-split-token-count-wrong") + sfx, "step " + std::to_string(step) + " got " + std::to_string(col.size()) + " expected " + std::to_string(e.size())); break; }
                size_t idx = h.p % (e.size() + 1);
                I = col[idx]; mi = idx < e.size() ? e[idx] : S();
                feat_border |= has_border(mk); feat_alias |= (h.j == h.k); feat_beyond |= idx == e.size();
                c.count("split_tokens_checked", 1);
                break;
            }
            case H_FORMAT: if (mj.size() + mk.size() > LIMIT) { skipped = true; break; } I = StringFromFormat("%s|%s", Jo.asCharString(), K.asCharString()); mi = mj + "|" + mk; note_format_path(c, mi); feat_alias |= (h.i == h.j || h.i == h.k); break;
            case H_COPYOUT: {
                size_t bs = h.q > mi.size() + 3 ? mi.size() + 1 : h.q;
                char* buf = (char*) malloc(bs ? bs : 1); memset(buf, 0x5A, bs ? bs : 1);
                I.copyToBuffer(buf, bs);
                if (bs) { size_t n = std::min(bs - 1, mi.size()); if (memcmp(buf, mi.data(), n) != 0 || buf[n] != 0) c.violation(S("history-copyToBuffer-wrong") + sfx, "step " + std::to_string(step)); }
                free(buf); break;
            }
            case H_CUT: {
                // replace(ch, '\0') is the one public operation that shortens a string in place. What it yields is not judged (NUL as a
                // character operand): the model adopts what the object holds afterwards; all later steps are judged on that text.
                char ch = (h.c2 % 4 != 0 && !mi.empty()) ? mi[h.p % mi.size()] : (char) h.c1;
                I.replace(ch, '\0');
                const char* g = I.asCharString(); size_t cap = g_rec->size_of(g);
                size_t n = cap ? strnlen(g, cap) : 0;
                c.count("silent_nul_character_operand");
                if (cap && n < cap) {
                    S now(g, n);
                    size_t f = mi.find(ch);
                    c.count(now == mi.substr(0, f) ? "history_shorten_result_is_text_up_to_first_occurrence" : "history_shorten_result_other_not_judged");
                    if (n < mi.size()) c.count("history_shorten_steps_effective");
                    mi = now;
                }
                break;
            }
            default: {
                size_t cn_o = mj.empty() ? 0 : ref_count(mi, mj, true), cn_d = mj.empty() ? 0 : ref_count(mi, mj, false), cn_got = I.count(Jo);
                char ch = (char) h.c1;                      // never NUL in histories
                size_t fp = h.p, ai = h.q % (mi.size() + 1);
                size_t ef = mi.find(ch), eff = fp >= mi.size() ? S::npos : mi.find(ch, fp);
                struct Q { const char* name; bool ok; } qs[] = {
                    { "contains", I.contains(Jo) == (mi.find(mj) != S::npos) },
                    { "containsNoCase", I.containsNoCase(Jo) == (ref_lower(mi).find(ref_lower(mj)) != S::npos) },
                    { "startsWith", I.startsWith(Jo) == (mj.size() <= mi.size() && mi.compare(0, mj.size(), mj) == 0) },
                    { "endsWith", I.endsWith(Jo) == (mj.size() <= mi.size() && mi.compare(mi.size() - mj.size(), mj.size(), mj) == 0) },
                    { "==", (I == Jo) == (mi == mj) },
                    { "!=", (I != Jo) == (mi != mj) },
                    { "equalsNoCase", I.equalsNoCase(Jo) == (ref_lower(mi) == ref_lower(mj)) },
                    { "count", mj.empty() || cn_o != cn_d || cn_got == cn_o },
                    { "find", I.find(ch) == (ef == S::npos ? NPOS : ef) },
                    { "findFrom", I.findFrom(fp, ch) == (eff == S::npos ? NPOS : eff) },
                    { "at", I.at(ai) == (ai < mi.size() ? mi[ai] : 0) },
                    { "subString", S(I.subString(fp, h.q).asCharString()) == (fp >= mi.size() ? S() : mi.substr(fp, h.q)) },
                };
                for (const Q& q : qs) if (!q.ok)
                    c.violation(S("history-query-wrong:") + q.name + sfx, "step " + std::to_string(step) + ": " + q.name + " on object " + std::to_string(h.i) + " \"" + clip(mi) + "\" (buffer slack " + std::to_string(slack_of(I)) + ") with object " + std::to_string(h.j) + " \"" + clip(mj) + "\" (buffer slack " + std::to_string(slack_of(Jo)) + "), character " + std::to_string((int) (unsigned char) ch) + ", position " + zs(fp) + " disagrees with the model");
                c.count("history_queries_judged", sizeof qs / sizeof qs[0]);
                if (sh) c.count("history_queries_judged_on_shortened_operand", sizeof qs / sizeof qs[0]);
                feat_empty |= mj.empty(); feat_alias |= h.i == h.j; feat_beyond |= fp > mi.size();
                break;
            }
            }
            c.count(skipped ? "history_ops_skipped_silent_or_size_cap" : S("hop_") + HNAME[h.kind]);
            if (sh && !skipped) { c.count("history_steps_on_shortened_operand"); c.count(S("hop_on_shortened_operand_") + HNAME[h.kind]); any_short = true; }
            sig = vf::fnv(hop_json(h), sig);
            for (int x = 0; x < 3; x++) feat_high |= has_high(P.m[x]);
            if (!pool_check(c, P, h, step, sfx)) break;
        }
        c.count("history_steps", (uint64_t) step);
        g_opname = "history:destroy";
        for (int x = 0; x < 3; x++) delete P.o[x];
    }
    case_end(c);
    if (feat_alias) c.count("histories_with_self_aliasing");
    if (feat_border) c.count("histories_with_self_overlapping_pattern");
    if (any_short) c.count("histories_with_steps_on_shortened_operand");
    if (feat_alias || feat_empty || feat_beyond || feat_border || feat_high) {
        sig = vf::fnv(i0 + "\x01" + i1 + "\x01" + i2, sig);
        c.nontrivial("history:" + std::to_string(sig));
    }
}

// ---------------------------------------------------------------- exhaustive finite sub-domains
static S ab_string(uint64_t i) {   // i-th string over {a,b} in length-lexicographic order: "", a, b, aa, ab, ...
    size_t len = 0; uint64_t n = 1;
    while (i >= n) { i -= n; n <<= 1; len++; }
    S s; for (size_t k = 0; k < len; k++) s += ((i >> (len - 1 - k)) & 1) ? 'b' : 'a';
    return s;
}
// several operations on one case share the bookkeeping of run_case
static void run_multi(vf::Ctx& c, Case cs, const std::vector<int>& ops) {
    c.begin([=] { Case d = cs; d.op = ops[0]; return case_json(d); });
    bool nt = false;
    for (int op : ops) { cs.op = op; run_op(c, cs); case_end(c); nt |= nontrivial_case(cs); }
    cs.op = ops[0];
    if (nt) c.nontrivial(case_sig(cs));
}
static void sec_tolower_all(vf::Ctx& c) { Case cs; cs.op = OP_TOLOWER; cs.c1 = (int) c.idx; run_case(c, cs); }
static const uint64_t N_ORD = 1301;
static void sec_ordinal_all(vf::Ctx& c) { Case cs; cs.op = OP_ORDINAL; cs.v1 = c.idx; run_case(c, cs); }
static void sec_printable_bytes(vf::Ctx& c) {
    unsigned char b = (unsigned char) (1 + c.idx % 255); int ctx = (int) (c.idx / 255);
    Case cs; cs.op = OP_PRINTABLE;
    switch (ctx) { case 0: cs.s = S(1, (char) b); break; case 1: cs.s = S("a") + (char) b; break; case 2: cs.s = S(1, (char) b) + "a"; break; default: cs.s = S(2, (char) b); break; }
    run_multi(c, cs, { OP_PRINTABLE, OP_LOWER, OP_CTOR });
}
static const S WITHS[] = { "", "b", "ab", "aa", "bab" };
static const uint64_t N_AB_S = 127, N_AB_T = 15, N_WITH = 5;
static void sec_pattern_ab(vf::Ctx& c) {
    uint64_t i = c.idx;
    Case cs; cs.s = ab_string(i % N_AB_S); i /= N_AB_S; cs.t = ab_string(N_AB_T - 1 - i % N_AB_T); i /= N_AB_T; cs.u = WITHS[i % N_WITH];   // the empty pattern last
    cs.c1 = 'a'; cs.c2 = 'b';
    run_multi(c, cs, { OP_REPLACE_STR, OP_SPLIT, OP_COUNT, OP_CONTAINS, OP_STRSTR, OP_EQ, OP_PLUS });
}
static const size_t POSL[] = { 0, 1, 2, 3, 4, 5, 6, NPOS - 1, NPOS };
static void sec_positions_ab(vf::Ctx& c) {
    uint64_t i = c.idx;
    Case cs; cs.s = ab_string(i % 15); i /= 15; cs.p = POSL[i % 9]; i /= 9; cs.q = POSL[i % 9];
    cs.t = cs.s; if (!cs.t.empty()) cs.t[cs.t.size() - 1] = cs.t[cs.t.size() - 1] == 'a' ? 'b' : 'a';
    cs.c1 = 'a'; cs.c2 = 'b';
    std::vector<int> ops = { OP_SUBSTR2, OP_SUBSTR1, OP_FIND, OP_STRNCMP, OP_FROMTILL };
    if (cs.q <= 6) ops.push_back(OP_COPYTOBUF);
    if (cs.p <= 6) ops.push_back(OP_STRNCPY);
    cs.k = (int) (c.idx % 2);
    run_multi(c, cs, ops);
}
// the same two finite domains with the operand objects shortened in place (stale tail: pattern + subject, so that a look behind the
// terminator finds both again)
static const int CUTMODES[] = { 1, 2, 7 };
static void sec_pattern_ab_cut(vf::Ctx& c) {
    uint64_t i = c.idx;
    Case cs; cs.s = ab_string(i % N_AB_S); i /= N_AB_S; cs.t = ab_string(i % N_AB_T); i /= N_AB_T; cs.cut = CUTMODES[i % 3];
    cs.u = "b"; cs.c1 = 'a'; cs.c2 = 'b'; cs.tail = cs.t + cs.s;
    run_multi(c, cs, { OP_CONTAINS, OP_REPLACE_STR, OP_SPLIT, OP_COUNT, OP_EQ, OP_PLUS, OP_PAD, OP_COPY, OP_LOWER });
}
static void sec_positions_ab_cut(vf::Ctx& c) {
    uint64_t i = c.idx;
    Case cs; cs.s = ab_string(i % 15); i /= 15; cs.p = POSL[i % 9]; i /= 9; cs.q = POSL[i % 9];
    cs.c1 = 'a'; cs.c2 = 'b'; cs.cut = 1; cs.tail = S("ab") + cs.s;
    std::vector<int> ops = { OP_SUBSTR2, OP_SUBSTR1, OP_FIND, OP_FROMTILL };
    if (cs.q <= 6) ops.push_back(OP_COPYTOBUF);
    cs.k = (int) (c.idx % 2);
    run_multi(c, cs, ops);
}
static const uint64_t N_FMT_LEN = 301;
static void sec_format_boundary(vf::Ctx& c) {
    size_t L = (size_t) (c.idx % N_FMT_LEN); int tmpl = (int) (c.idx / N_FMT_LEN);
    Case cs; cs.op = OP_FORMAT;
    static const int K[] = { 0, 1, 7, 8 };
    cs.k = K[tmpl];
    cs.s = S(L, 'f'); if (L > 2) { cs.s[L / 2] = '%'; cs.s[L - 1] = '\xe9'; }
    cs.t = "t"; cs.v1 = 7;
    run_case(c, cs);
}
static void sec_hex_signed_char(vf::Ctx& c) { Case cs; cs.op = OP_NUMFMT; cs.k = 6; cs.v1 = c.idx; run_case(c, cs); }
static void sec_masked_walk(vf::Ctx& c) {
    uint64_t i = c.idx;
    Case cs; cs.op = OP_MASKED; cs.k = (int) (i % 10) + 1; i /= 10; unsigned bit = (unsigned) (i % 64); i /= 64;
    switch (i) { case 0: cs.v1 = 1ull << bit; cs.v2 = ~0ull; break; case 1: cs.v1 = ~0ull; cs.v2 = 1ull << bit; break; default: cs.v1 = ~(1ull << bit); cs.v2 = ~(1ull << ((bit + 1) % 64)); break; }
    run_case(c, cs);
}
static void sec_binary_sizes(vf::Ctx& c) {
    Case cs; cs.op = OP_BINARY; cs.k = (int) (c.idx % 4); size_t n = (size_t) (c.idx / 4);
    for (size_t i = 0; i < n; i++) cs.s += (char) (unsigned char) (i * 37 + 0x7e);
    run_case(c, cs);
}

static void init_all() {
    MemoryLeakWarningPlugin::turnOffNewDeleteOverloads();     // the harness' own containers stay out of the leak detector
    signal(SIGVTALRM, on_cpu_limit);
    g_rec = new RecAlloc;
    SimpleString::setStringAllocator(g_rec);
}

int main(int argc, char** argv) {
    std::vector<vf::Section> S_ = {
        { "tolower_all_bytes", 256, 256, sec_tolower_all, true },
        { "ordinal_0_1300", N_ORD, N_ORD, sec_ordinal_all, true },
        { "printable_single_bytes", 255 * 4, 255 * 4, sec_printable_bytes, true },
        { "pattern_ops_ab_exhaustive", N_AB_S * N_AB_T * N_WITH, N_AB_S * N_AB_T * N_WITH, sec_pattern_ab, true },
        { "position_ops_ab_exhaustive", 15 * 9 * 9, 15 * 9 * 9, sec_positions_ab, true },
        { "format_100_byte_boundary", N_FMT_LEN * 4, N_FMT_LEN * 4, sec_format_boundary, true },
        { "hex_signed_char_all", 256, 256, sec_hex_signed_char, true },
        { "masked_bits_walk", 10 * 64 * 3, 10 * 64 * 3, sec_masked_walk, true },
        { "binary_sizes_0_140", 141 * 4, 141 * 4, sec_binary_sizes, true },
        { "pattern_ops_ab_shortened_in_place", N_AB_S * N_AB_T * 3, N_AB_S * N_AB_T * 3, sec_pattern_ab_cut, true },
        { "position_ops_ab_shortened_in_place", 15 * 9 * 9, 15 * 9 * 9, sec_positions_ab_cut, true },
        { "ops_small", 800000, 10000000, sec_ops_small, false },
        { "ops_long", 10000, 400000, sec_ops_long, false },
        { "histories", 50000, 1000000, sec_history, false },
    };
    return vf::harness_main(argc, argv, S_, init_all);
}
